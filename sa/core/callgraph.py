"""E2 callgraph: resolved call edges inside the package.

Resolution (no type inference is available in this sandbox):
  * bare name -> function of the same module (incl. nested helpers of the caller),
    or an imported package function / class (constructor -> __init__);
  * self.m / cls.m / ClassName.m / super().m -> method looked up along the class's
    bases inside the package;
  * X(...).visit(t) / X(...).transform(t) / Lark(..., transformer=X()) with X a
    package class deriving Visitor / Transformer -> every public method of X
    (Lark dispatches on tree.data; which of them name grammar rules is C01.7 / C17.1);
  * everything else is kept by its dotted text ('copy.deepcopy', 'itertools.product')
    or counted as unresolved (method call on a value of unknown type).
"""
from __future__ import annotations

import ast
from dataclasses import dataclass, field

from . import pyfacts as pf
from .source import SourceSet


@dataclass
class CallSite:
    caller: str                 # function key
    node: ast.Call
    callees: list[str]          # resolved function keys
    external: str | None        # dotted name of a non-package callee
    dispatch: bool = False      # Lark visitor/transformer dispatch edge


class CallGraph:
    def __init__(self, ss: SourceSet):
        self.ss = ss
        self.funcs: dict[str, pf.FuncFacts] = {}
        self.classes: dict[str, pf.ClassFacts] = {}      # 'short:Class'
        self.class_by_name: dict[str, list[pf.ClassFacts]] = {}
        self.sites: dict[str, list[CallSite]] = {}
        self.unresolved = 0
        self.total = 0
        for m in pf.all_modules(ss):
            mf = pf.module_facts(ss, m)
            for q, ff in mf.funcs.items():
                self.funcs[ff.key] = ff
            for c, cf in mf.classes.items():
                self.classes[f"{m}:{c}"] = cf
                self.class_by_name.setdefault(c, []).append(cf)
        for key, ff in self.funcs.items():
            self.sites[key] = self._sites(ff)

    # -- class helpers ------------------------------------------------------------------
    def mro(self, cf: pf.ClassFacts) -> list[pf.ClassFacts]:
        out, todo, seen = [], [cf], set()
        while todo:
            c = todo.pop(0)
            if id(c) in seen:
                continue
            seen.add(id(c))
            out.append(c)
            for b in c.bases:
                nm = b.split(".")[-1].split("[")[0]
                for cand in self.class_by_name.get(nm, []):
                    todo.append(cand)
        return out

    def find_method(self, cf: pf.ClassFacts, name: str, skip_self: bool = False) -> pf.FuncFacts | None:
        for c in self.mro(cf)[1 if skip_self else 0:]:
            if name in c.methods:
                return c.methods[name]
        return None

    def derives(self, cf: pf.ClassFacts, base: str) -> bool:
        return any(base in [b.split(".")[-1] for b in c.bases] for c in self.mro(cf))

    def subclasses(self, cf: pf.ClassFacts) -> list[pf.ClassFacts]:
        return [c for cs in self.class_by_name.values() for c in cs if c is not cf and cf in self.mro(c)]

    # -- resolution ------------------------------------------------------------------------
    def _resolve_name(self, ff: pf.FuncFacts, name: str):
        mf = pf.module_facts(self.ss, ff.module)
        # nested helper of the caller or of its parents
        q = ff.qualname
        while True:
            cand = f"{q}.{name}"
            if cand in mf.funcs and mf.funcs[cand].parent_func is not None:
                return [mf.funcs[cand].key], None
            if "." not in q:
                break
            q = q.rsplit(".", 1)[0]
        if name in mf.funcs and mf.funcs[name].cls is None:
            return [mf.funcs[name].key], None
        if name in mf.classes:
            init = self.find_method(mf.classes[name], "__init__")
            return ([init.key] if init else []), None if init else f"{name}()"
        if name in mf.imports:
            mod, attr = mf.imports[name]
            if mod.startswith("decaylanguage") and attr:
                short = self._module_short(mod)
                if short:
                    m2 = pf.module_facts(self.ss, short)
                    if attr in m2.funcs and m2.funcs[attr].cls is None:
                        return [m2.funcs[attr].key], None
                    if attr in m2.classes:
                        init = self.find_method(m2.classes[attr], "__init__")
                        return ([init.key] if init else []), None if init else f"{attr}()"
                    if attr in m2.imports:      # re-export through __init__
                        mod3, attr3 = m2.imports[attr]
                        s3 = self._module_short(mod3)
                        if s3 and attr3:
                            m3 = pf.module_facts(self.ss, s3)
                            if attr3 in m3.funcs:
                                return [m3.funcs[attr3].key], None
                            if attr3 in m3.classes:
                                init = self.find_method(m3.classes[attr3], "__init__")
                                return ([init.key] if init else []), None if init else f"{attr3}()"
            return [], f"{mod}.{attr}" if attr else mod
        return [], name

    def _module_short(self, dotted: str) -> str | None:
        parts = dotted.split(".")
        if parts[0] != "decaylanguage":
            return None
        rel = "/".join(parts[1:])
        for cand in (f"{rel}.py", f"{rel}/__init__.py" if rel else "__init__.py"):
            if self.ss.rel(cand) in self.ss.files:
                return cand
        return None

    def resolve_class(self, short: str, name: str, hops: int = 3) -> pf.ClassFacts | None:
        """Class named `name` in module `short`, following package re-exports."""
        mf = pf.module_facts(self.ss, short)
        if name in mf.classes:
            return mf.classes[name]
        if hops and name in mf.imports:
            mod, attr = mf.imports[name]
            s2 = self._module_short(mod)
            if s2 and attr:
                return self.resolve_class(s2, attr, hops - 1)
        return None

    def class_of(self, ff: pf.FuncFacts) -> pf.ClassFacts | None:
        q = ff.qualname.split(".")[0]
        mf = pf.module_facts(self.ss, ff.module)
        return mf.classes.get(q)

    def _class_from_expr(self, ff, e: ast.AST) -> pf.ClassFacts | None:
        """Class named by a constructor call expression `X(...)`."""
        if isinstance(e, ast.Call) and isinstance(e.func, ast.Name):
            return self.resolve_class(ff.module, e.func.id)
        return None

    def _sites(self, ff: pf.FuncFacts) -> list[CallSite]:
        out = []
        cf = self.class_of(ff)
        for c in pf.calls_in(ff.node, nested=False):
            self.total += 1
            f = c.func
            callees, ext, disp = [], None, False
            if isinstance(f, ast.Name):
                callees, ext = self._resolve_name(ff, f.id)
                # Lark(..., transformer=X())
                for kw in c.keywords:
                    if kw.arg == "transformer":
                        k = self._class_from_expr(ff, kw.value)
                        if k is not None:
                            callees = callees + [m.key for n, m in k.methods.items() if not n.startswith("_")]
                            disp = True
            elif isinstance(f, ast.Attribute):
                base = f.value
                if isinstance(base, ast.Name) and base.id in ("self", "cls") and cf is not None:
                    m = self.find_method(cf, f.attr)
                    if m is not None:
                        callees = [m.key]
                        # a classmethod called on cls may be overridden in subclasses
                    else:
                        ext = f"self.{f.attr}"
                elif isinstance(base, ast.Call) and isinstance(base.func, ast.Name) and base.func.id == "super" and cf is not None:
                    m = self.find_method(cf, f.attr, skip_self=True)
                    if m is not None:
                        callees = [m.key]
                    else:
                        ext = f"super().{f.attr}"
                elif isinstance(base, ast.Name) and (base.id in pf.module_facts(self.ss, ff.module).classes
                                                     or base.id in pf.module_facts(self.ss, ff.module).imports):
                    k = self.resolve_class(ff.module, base.id)
                    if k is not None:
                        m = self.find_method(k, f.attr)
                        if m is not None:
                            callees = [m.key]
                    if not callees:
                        ext = pf.call_name(c)
                elif f.attr in ("visit", "transform", "visit_topdown"):
                    k = self._class_from_expr(ff, base)
                    if k is not None and (self.derives(k, "Visitor") or self.derives(k, "Transformer")):
                        callees = [m.key for n, m in k.methods.items() if not n.startswith("_")]
                        init = self.find_method(k, "__init__")
                        disp = True
                    else:
                        self.unresolved += 1
                        ext = None
                else:
                    txtc = pf.call_name(c)
                    head = txtc.split(".")[0]
                    mf = pf.module_facts(self.ss, ff.module)
                    if head in mf.imports and not mf.imports[head][0].startswith("decaylanguage"):
                        mod, attr = mf.imports[head]
                        ext = (f"{mod}.{attr}" if attr else mod) + txtc[len(head):]
                    else:
                        self.unresolved += 1
            else:
                self.unresolved += 1
            out.append(CallSite(ff.key, c, callees, ext, disp))
        # property reads: self.<prop> without a call
        if cf is not None:
            for a in pf.walk_no_nested(ff.node):
                if isinstance(a, ast.Attribute) and isinstance(a.value, ast.Name) and a.value.id in ("self", "cls") \
                        and isinstance(a.ctx, ast.Load):
                    m = self.find_method(cf, a.attr)
                    if m is not None and m.kind == "property":
                        out.append(CallSite(ff.key, a, [m.key], None, False))
        return out

    # -- queries ------------------------------------------------------------------------
    def callees(self, key: str) -> set[str]:
        return {k for s in self.sites.get(key, []) for k in s.callees}

    def reach(self, roots: list[str]) -> set[str]:
        seen, todo = set(), list(roots)
        while todo:
            k = todo.pop()
            if k in seen:
                continue
            seen.add(k)
            todo.extend(self.callees(k))
            # nested functions defined inside are reachable when their parent runs them (resolved via bare names)
        return seen

    def callers_of(self, key: str) -> list[CallSite]:
        return [s for ss_ in self.sites.values() for s in ss_ if key in s.callees]


def callgraph(ss: SourceSet) -> CallGraph:
    return ss.memo(("callgraph",), lambda: CallGraph(ss))
