"""E3 cfg: statement-level control-flow graph per function, dominators,
must-pass-through and per-iteration effect counting.

Statement kinds handled: If / For / While / Try / With / Return / Raise / Assert /
Break / Continue / Pass / Assign / AugAssign / AnnAssign / Expr / Import / nested
def / class / Delete / Global / Nonlocal.  Anything else (match, async) makes the
function UNDECIDED (AnchorMissing).  Exception edges are coarse: every node of a
``try`` body has an edge to every handler; an explicit ``raise`` outside a try goes
to the exceptional exit.  Implicit exceptions outside ``try`` are not modelled
(normal-path reasoning).
"""
from __future__ import annotations

import ast
from dataclasses import dataclass, field

import networkx as nx

from .source import AnchorMissing

SIMPLE = (ast.Assign, ast.AugAssign, ast.AnnAssign, ast.Expr, ast.Pass, ast.Import,
          ast.ImportFrom, ast.FunctionDef, ast.AsyncFunctionDef, ast.ClassDef,
          ast.Delete, ast.Global, ast.Nonlocal)


@dataclass
class Node:
    id: int
    kind: str               # entry exit excexit stmt test for while with except return raise break continue assert
    ast: ast.AST | None = None      # statement (or handler) this node stands for
    expr: ast.AST | None = None     # the expression evaluated at this node (test / iter / value)

    def __repr__(self):
        t = ""
        if self.ast is not None:
            try:
                t = " ".join(ast.unparse(self.expr if self.expr is not None else self.ast).split())[:60]
            except Exception:
                t = "?"
        return f"<{self.id}:{self.kind} {t}>"


class CFG:
    def __init__(self, fn: ast.FunctionDef):
        self.fn = fn
        self.nodes: list[Node] = []
        self.g = nx.DiGraph()
        self.entry = self._new("entry").id
        self.exit = self._new("exit").id
        self.excexit = self._new("excexit").id
        self.stmt_node: dict[int, int] = {}      # id(stmt) -> node id (header node for compound statements)
        self.loop_of: dict[int, int] = {}        # node id -> innermost enclosing loop header node id
        self.loop_body: dict[int, set[int]] = {} # loop header -> node ids in its body (incl. nested)
        self._loops: list[tuple[int, list]] = [] # (header, break-exits)
        self._trys: list[list[int]] = []         # stack of handler entry node ids
        outs = self._block(fn.body, [(self.entry, "")])
        for n, lab in outs:
            self._edge(n, self.exit, lab)
        self._dom = None
        self._pdom = None

    # -- construction -------------------------------------------------------
    def _new(self, kind, a=None, e=None) -> Node:
        n = Node(len(self.nodes), kind, a, e)
        self.nodes.append(n)
        self.g.add_node(n.id)
        return n

    def _edge(self, a, b, label=""):
        if self.g.has_edge(a, b):
            old = self.g[a][b]["label"]
            if label and label not in old.split("|"):
                self.g[a][b]["label"] = f"{old}|{label}" if old else label
        else:
            self.g.add_edge(a, b, label=label)

    def _mk(self, kind, st, expr, preds) -> int:
        n = self._new(kind, st, expr)
        for p, lab in preds:
            self._edge(p, n.id, lab)
        for lp, _ in self._loops:
            self.loop_body.setdefault(lp, set()).add(n.id)
        if self._loops:
            self.loop_of[n.id] = self._loops[-1][0]
        if self._trys:
            for h in self._trys[-1]:
                self._edge(n.id, h, "exc")
        return n.id

    def _raise_targets(self):
        return list(self._trys[-1]) if self._trys else [self.excexit]

    def _block(self, stmts, preds):
        for st in stmts:
            preds = self._stmt(st, preds)
        return preds

    def _stmt(self, st, preds):
        if isinstance(st, SIMPLE):
            n = self._mk("stmt", st, None, preds)
            self.stmt_node[id(st)] = n
            return [(n, "")]
        if isinstance(st, ast.Return):
            n = self._mk("return", st, st.value, preds)
            self.stmt_node[id(st)] = n
            self._edge(n, self.exit, "return")
            return []
        if isinstance(st, ast.Raise):
            n = self._mk("raise", st, st.exc, preds)
            self.stmt_node[id(st)] = n
            for t in self._raise_targets():
                self._edge(n, t, "raise")
            return []
        if isinstance(st, ast.Assert):
            n = self._mk("assert", st, st.test, preds)
            self.stmt_node[id(st)] = n
            for t in self._raise_targets():
                self._edge(n, t, "assertfail")
            return [(n, "")]
        if isinstance(st, ast.Break):
            n = self._mk("break", st, None, preds)
            self.stmt_node[id(st)] = n
            if not self._loops:
                raise AnchorMissing("break outside loop")
            self._loops[-1][1].append((n, "break"))
            return []
        if isinstance(st, ast.Continue):
            n = self._mk("continue", st, None, preds)
            self.stmt_node[id(st)] = n
            self._edge(n, self._loops[-1][0], "continue")
            return []
        if isinstance(st, ast.If):
            n = self._mk("test", st, st.test, preds)
            self.stmt_node[id(st)] = n
            o1 = self._block(st.body, [(n, "true")])
            o2 = self._block(st.orelse, [(n, "false")]) if st.orelse else [(n, "false")]
            return o1 + o2
        if isinstance(st, (ast.For, ast.While)):
            kind = "for" if isinstance(st, ast.For) else "while"
            n = self._mk(kind, st, st.iter if kind == "for" else st.test, preds)
            self.stmt_node[id(st)] = n
            self._loops.append((n, []))
            self.loop_body.setdefault(n, set())
            outs = self._block(st.body, [(n, "loop")])
            _, breaks = self._loops.pop()
            for o, lab in outs:
                self._edge(o, n, f"{lab}|back" if lab else "back")
            after = self._block(st.orelse, [(n, "done")]) if st.orelse else [(n, "done")]
            return after + breaks
        if isinstance(st, ast.With):
            n = self._mk("with", st, None, preds)
            self.stmt_node[id(st)] = n
            return self._block(st.body, [(n, "")])
        if isinstance(st, ast.Try):
            # handler entry nodes are created first so that body nodes can point at them
            hnodes = []
            saved_loops = self._loops
            for h in st.handlers:
                hn = self._new("except", h, h.type)
                for lp, _ in self._loops:
                    self.loop_body.setdefault(lp, set()).add(hn.id)
                if self._loops:
                    self.loop_of[hn.id] = self._loops[-1][0]
                if self._trys:   # an exception inside a handler propagates outwards
                    for oh in self._trys[-1]:
                        self._edge(hn.id, oh, "exc")
                hnodes.append(hn.id)
                self.stmt_node[id(h)] = hn.id
            self.stmt_node[id(st)] = hnodes[0] if hnodes else -1
            # a handler set that is not catch-all lets exceptions continue outwards
            outer = self._raise_targets()
            self._trys.append(hnodes + ([] if _catch_all(st) else outer))
            outs = self._block(st.body, preds)
            self._trys.pop()
            if st.orelse:
                outs = self._block(st.orelse, outs)
            for h, hn in zip(st.handlers, hnodes):
                outs = outs + self._block(h.body, [(hn, "")])
            if st.finalbody:
                outs = self._block(st.finalbody, outs)
            assert self._loops is saved_loops
            return outs
        raise AnchorMissing(f"statement kind {type(st).__name__} not supported by the CFG builder")

    # -- queries --------------------------------------------------------------
    def node_of(self, st: ast.AST) -> int:
        if id(st) not in self.stmt_node:
            raise AnchorMissing("statement has no CFG node")
        return self.stmt_node[id(st)]

    def succ(self, n):
        return [(m, self.g[n][m]["label"]) for m in self.g.successors(n)]

    def dominators(self):
        if self._dom is None:
            idom = nx.immediate_dominators(self.g, self.entry)
            self._dom = idom
        return self._dom

    def dominates(self, a: int, b: int) -> bool:
        """a dominates b (every path entry->b passes a)."""
        idom = self.dominators()
        if b not in idom and b != self.entry:
            return False   # unreachable
        x = b
        while True:
            if x == a:
                return True
            if x == self.entry or x not in idom or idom[x] == x:
                return False
            x = idom[x]

    def reachable(self, a: int, b: int, avoid: set[int] | None = None, skip_labels: tuple = ()) -> bool:
        avoid = avoid or set()
        seen = {a}
        st = [a]
        while st:
            x = st.pop()
            for y, lab in self.succ(x):
                if skip_labels and all(l in skip_labels for l in lab.split("|")) and lab:
                    continue
                if y == b:
                    return True
                if y in seen or y in avoid:
                    continue
                seen.add(y)
                st.append(y)
        return False

    def must_pass(self, through: set[int], start: int | None = None, end: int | None = None,
                  normal_only: bool = True) -> bool:
        """Every path start -> end (default entry -> normal exit) passes a node of
        ``through``.  Exception edges are ignored when normal_only."""
        start = self.entry if start is None else start
        end = self.exit if end is None else end
        skip = ("exc", "raise", "assertfail") if normal_only else ()
        if start in through:
            return True
        return not self.reachable(start, end, avoid=set(through), skip_labels=skip)

    def count_per_iteration(self, loop_header: int, is_effect) -> tuple[int, int, list]:
        """(min, max, details) of the number of effect nodes executed on a normal
        path through ONE iteration of the loop (header 'loop' edge -> back edge or
        continue).  Paths leaving the iteration by break / return / raise are not
        counted.  An effect inside an inner loop counts as 'many' (max = 99)."""
        body = self.loop_body.get(loop_header)
        if body is None:
            raise AnchorMissing("not a loop header")
        MANY = 99
        memo: dict[int, tuple[int, int] | None] = {}
        onstack: set[int] = set()

        def weight(n):
            return 1 if is_effect(self.nodes[n]) else 0

        def inner_loop_weight(h):
            # any effect inside the inner loop body -> 0..many
            for m in self.loop_body.get(h, ()):
                if is_effect(self.nodes[m]):
                    return (0, MANY)
            return (0, 0)

        def go(n) -> tuple[int, int] | None:
            # returns (min,max) effects from n to the end of the iteration, None if no
            # normal path from n completes the iteration
            if n == loop_header:
                return (0, 0)
            if n not in body:
                return None
            if n in memo:
                return memo[n]
            if n in onstack:
                return None
            onstack.add(n)
            res = None
            node = self.nodes[n]
            if node.kind in ("for", "while") and n != loop_header:
                w = inner_loop_weight(n)
                # skip the inner loop: continue with its 'done' successors / breaks
                outs = [m for m, lab in self.succ(n) if "done" in lab.split("|")]
                for m in self.loop_body.get(n, ()):
                    if self.nodes[m].kind == "break" and self.loop_of.get(m) == n:
                        outs += [x for x, _ in self.succ(m)]
                base = weight(n)
                for m in outs:
                    r = go(m)
                    if r is not None:
                        cand = (base + w[0] + r[0], min(MANY, base + w[1] + r[1]))
                        res = cand if res is None else (min(res[0], cand[0]), max(res[1], cand[1]))
            else:
                for m, lab in self.succ(n):
                    labs = lab.split("|")
                    if all(l in ("exc", "raise", "assertfail") for l in labs):
                        continue
                    r = go(m)
                    if r is not None:
                        cand = (weight(n) + r[0], min(MANY, weight(n) + r[1]))
                        res = cand if res is None else (min(res[0], cand[0]), max(res[1], cand[1]))
            onstack.discard(n)
            memo[n] = res
            return res

        res = None
        for m, lab in self.succ(loop_header):
            if "loop" in lab.split("|"):
                r = go(m)
                if r is not None:
                    res = r if res is None else (min(res[0], r[0]), max(res[1], r[1]))
        if res is None:
            return (0, 0, [])
        return (res[0], res[1], [])


def _catch_all(st: ast.Try) -> bool:
    for h in st.handlers:
        if h.type is None:
            return True
        names = [h.type] if not isinstance(h.type, ast.Tuple) else h.type.elts
        for t in names:
            if isinstance(t, ast.Name) and t.id in ("Exception", "BaseException"):
                return True
    return False


def build_cfg(fn: ast.FunctionDef) -> CFG:
    return CFG(fn)
