"""E5 defuse: reaching definitions on the CFG, and *provenance expansion*: an
expression with every local name replaced by what reaches it.

``Flow.expand(expr)`` returns a new AST in which
  * a local with ONE reaching plain assignment is replaced by the (expanded) value;
  * a loop / comprehension target becomes ``__elem__(iter)`` (``__elem__(iter)[i]``
    for tuple targets, ``__key__``/``__val__`` variants are not guessed);
  * several reaching definitions become ``__phi__(a, b, ...)``;
  * a loop-carried self reference becomes ``__loop__('name')``;
  * parameters, globals and builtins stay plain names (parameters are listed in
    ``Flow.params``).
Rules match on these expanded ASTs, never on source text.
"""
from __future__ import annotations

import ast
import builtins
from dataclasses import dataclass

from .cfg import CFG, build_cfg
from .pyfacts import FuncFacts, parent_map, walk_no_nested
from .source import AnchorMissing

BUILTINS = set(dir(builtins))


@dataclass(eq=False)
class Def:
    name: str
    kind: str          # param assign aug for with except import def class comp lambda walrus global free
    node: int          # cfg node id (-1: not a cfg node)
    value: ast.AST | None
    path: tuple        # unpack path into value
    stmt: ast.AST | None

    def __repr__(self):
        v = ""
        if self.value is not None:
            try:
                v = " ".join(ast.unparse(self.value).split())[:50]
            except Exception:
                v = "?"
        return f"Def({self.name},{self.kind},{self.path},{v})"


def _targets(t: ast.AST, path=()):
    """Yield (name, path, target_node) for assignment targets (Names only)."""
    if isinstance(t, ast.Name):
        yield t.id, path, t
    elif isinstance(t, (ast.Tuple, ast.List)):
        for i, e in enumerate(t.elts):
            if isinstance(e, ast.Starred):
                yield from _targets(e.value, path + ("*",))
            else:
                yield from _targets(e, path + (i,))
    # Attribute / Subscript targets define no local


class Flow:
    def __init__(self, ff: FuncFacts, outer: "Flow | None" = None):
        self.ff = ff
        self.fn = ff.node
        self.outer = outer
        self.cfg: CFG = build_cfg(self.fn)
        self.parents = parent_map(self.fn)
        self.params = ff.params
        self.defs: list[Def] = []
        self.gen: dict[int, list[int]] = {}
        self._locals: set[str] = set()
        self._collect_defs()
        self._solve()
        self._expr_node: dict[int, int] = {}
        self._index_exprs()

    # -- definitions ------------------------------------------------------------
    def _add(self, d: Def) -> int:
        self.defs.append(d)
        self._locals.add(d.name)
        if d.node >= 0:
            self.gen.setdefault(d.node, []).append(len(self.defs) - 1)
        return len(self.defs) - 1

    def _collect_defs(self):
        self.param_defs = []
        for p in self.params:
            self.param_defs.append(self._add(Def(p, "param", -1, None, (), None)))
        for n in self.cfg.nodes:
            st = n.ast
            if st is None:
                continue
            if n.kind == "stmt":
                if isinstance(st, ast.Assign):
                    for t in st.targets:
                        for name, path, _ in _targets(t):
                            self._add(Def(name, "assign", n.id, st.value, path, st))
                elif isinstance(st, ast.AnnAssign):
                    if st.value is not None:
                        for name, path, _ in _targets(st.target):
                            self._add(Def(name, "assign", n.id, st.value, path, st))
                elif isinstance(st, ast.AugAssign):
                    if isinstance(st.target, ast.Name):
                        self._add(Def(st.target.id, "aug", n.id, st.value, (), st))
                elif isinstance(st, (ast.Import, ast.ImportFrom)):
                    for a in st.names:
                        self._add(Def(a.asname or a.name.split(".")[0], "import", n.id, None, (), st))
                elif isinstance(st, (ast.FunctionDef, ast.AsyncFunctionDef)):
                    self._add(Def(st.name, "def", n.id, None, (), st))
                elif isinstance(st, ast.ClassDef):
                    self._add(Def(st.name, "class", n.id, None, (), st))
            elif n.kind == "for":
                for name, path, _ in _targets(st.target):
                    self._add(Def(name, "for", n.id, st.iter, path, st))
            elif n.kind == "with":
                for item in st.items:
                    if item.optional_vars is not None:
                        for name, path, _ in _targets(item.optional_vars):
                            self._add(Def(name, "with", n.id, item.context_expr, path, st))
            elif n.kind == "except":
                if st.name:
                    self._add(Def(st.name, "except", n.id, st.type, (), st))
            # walrus anywhere in the node's own expressions
            for e in self._own_exprs(n):
                for w in walk_no_nested(e):
                    if isinstance(w, ast.NamedExpr) and isinstance(w.target, ast.Name):
                        self._add(Def(w.target.id, "walrus", n.id, w.value, (), st))

    def _own_exprs(self, n):
        st = n.ast
        if st is None:
            return []
        if n.kind == "stmt":
            if isinstance(st, (ast.FunctionDef, ast.AsyncFunctionDef, ast.ClassDef)):
                return list(st.decorator_list)
            return [st]
        if n.kind in ("test", "while", "assert", "return", "raise"):
            out = [n.expr] if n.expr is not None else []
            if n.kind == "assert" and st.msg is not None:
                out.append(st.msg)
            if n.kind == "raise" and st.cause is not None:
                out.append(st.cause)
            return out
        if n.kind == "for":
            return [st.iter, st.target]
        if n.kind == "with":
            out = []
            for it in st.items:
                out.append(it.context_expr)
                if it.optional_vars is not None:
                    out.append(it.optional_vars)
            return out
        if n.kind == "except":
            return [st.type] if st.type is not None else []
        return []

    def _solve(self):
        g = self.cfg.g
        kills: dict[int, set[str]] = {}
        for n, idxs in self.gen.items():
            kills[n] = {self.defs[i].name for i in idxs if self.defs[i].kind != "aug"} | \
                       {self.defs[i].name for i in idxs if self.defs[i].kind == "aug"}
        IN: dict[int, set[int]] = {n.id: set() for n in self.cfg.nodes}
        OUT: dict[int, set[int]] = {n.id: set() for n in self.cfg.nodes}
        IN[self.cfg.entry] = set(self.param_defs)
        OUT[self.cfg.entry] = set(self.param_defs)
        work = list(g.nodes)
        while work:
            n = work.pop()
            if n != self.cfg.entry:
                new_in: set[int] = set()
                for p in g.predecessors(n):
                    labs = g[p][n]["label"].split("|")
                    if all(l in ("exc",) for l in labs):
                        new_in |= IN[p] | OUT[p]
                    else:
                        new_in |= OUT[p]
                IN[n] = new_in
            k = kills.get(n, set())
            new_out = {i for i in IN[n] if self.defs[i].name not in k} | set(self.gen.get(n, []))
            if new_out != OUT[n]:
                OUT[n] = new_out
                work.extend(g.successors(n))
        self.IN, self.OUT = IN, OUT

    def _index_exprs(self):
        for n in self.cfg.nodes:
            for e in self._own_exprs(n):
                for x in ast.walk(e):
                    self._expr_node.setdefault(id(x), n.id)

    # -- lookups ----------------------------------------------------------------
    def node_of_expr(self, e: ast.AST) -> int:
        if id(e) in self._expr_node:
            return self._expr_node[id(e)]
        raise AnchorMissing("expression is not part of this function's CFG")

    def stmt_of_expr(self, e: ast.AST) -> ast.AST | None:
        return self.cfg.nodes[self.node_of_expr(e)].ast

    def _binder(self, name_node: ast.Name) -> Def | None:
        """Enclosing comprehension generator / lambda that binds the name."""
        x: ast.AST = name_node
        while id(x) in self.parents:
            p = self.parents[id(x)]
            if isinstance(p, (ast.ListComp, ast.SetComp, ast.GeneratorExp, ast.DictComp)):
                # a name in generator k's iter sees binders of generators < k only
                for gi, gen in enumerate(p.generators):
                    in_this_iter = _contains(gen.iter, x)
                    if in_this_iter:
                        for g2 in p.generators[:gi]:
                            for nm, path, _ in _targets(g2.target):
                                if nm == name_node.id:
                                    return Def(nm, "comp", -1, g2.iter, path, p)
                        break
                else:
                    for g2 in reversed(p.generators):
                        for nm, path, _ in _targets(g2.target):
                            if nm == name_node.id:
                                return Def(nm, "comp", -1, g2.iter, path, p)
            elif isinstance(p, ast.Lambda):
                a = p.args
                names = [q.arg for q in a.posonlyargs + a.args + a.kwonlyargs]
                if a.vararg:
                    names.append(a.vararg.arg)
                if a.kwarg:
                    names.append(a.kwarg.arg)
                if name_node.id in names and not _contains_args(a, x):
                    return Def(name_node.id, "lambda", -1, None, (), p)
            elif isinstance(p, (ast.FunctionDef, ast.AsyncFunctionDef)) and p is not self.fn:
                return Def(name_node.id, "nested", -1, None, (), p)
            x = p
        return None

    def defs_of(self, name_node: ast.Name) -> list[Def]:
        b = self._binder(name_node)
        if b is not None:
            return [b]
        nm = name_node.id
        if nm not in self._locals:
            if self.outer is not None and nm in self.outer._locals:
                return [Def(nm, "free", -1, None, (), None)]
            return [Def(nm, "global", -1, None, (), None)]
        node = self.node_of_expr(name_node)
        ds = [self.defs[i] for i in sorted(self.IN[node]) if self.defs[i].name == nm]
        # an aug-assignment reads its own previous value: handled by the caller
        return ds

    def defs_at_stmt(self, stmt: ast.AST, name: str) -> list[Def]:
        node = self.cfg.node_of(stmt)
        return [self.defs[i] for i in sorted(self.IN[node]) if self.defs[i].name == name]

    def defs_reaching_exit(self, name: str) -> list[Def]:
        return [self.defs[i] for i in sorted(self.IN[self.cfg.exit]) if self.defs[i].name == name]

    # -- expansion ----------------------------------------------------------------
    def expand(self, expr: ast.AST, depth: int = 8, keep: frozenset | set = frozenset()) -> ast.AST:
        """keep: local names that are NOT substituted (stay plain names)."""
        old = getattr(self, "_keep", frozenset())
        self._keep = frozenset(keep)
        try:
            return self._expand(expr, depth, frozenset())
        finally:
            self._keep = old

    def _expand(self, expr, depth, active) -> ast.AST:
        return _RebuildWith(self, depth, active).rebuild(expr)

    def _subst(self, n: ast.Name, ds: list[Def], depth: int, active) -> ast.AST:
        if n.id in getattr(self, "_keep", ()):
            return ast.Name(id=n.id, ctx=ast.Load())
        if depth <= 0:
            return ast.Name(id=n.id, ctx=ast.Load())
        outs = []
        for d in ds:
            outs.append(self._def_term(d, depth, active))
        if not outs:
            return ast.Name(id=n.id, ctx=ast.Load())
        if len(outs) == 1:
            return outs[0]
        # de-duplicate by text
        seen, uniq = set(), []
        for o in outs:
            t = ast.unparse(o)
            if t not in seen:
                seen.add(t)
                uniq.append(o)
        if len(uniq) == 1:
            return uniq[0]
        return ast.Call(func=ast.Name(id="__phi__", ctx=ast.Load()), args=uniq, keywords=[])

    def _def_term(self, d: Def, depth: int, active) -> ast.AST:
        key = id(d) if d.node >= 0 else (d.name, d.kind, id(d.stmt))
        if d.kind == "free" and self.outer is not None:
            od = [x for x in self.outer.defs if x.name == d.name]
            if od and all(x.kind == "assign" and x.path == () for x in od) and depth > 0:
                terms = [self.outer._def_term(x, depth - 1, frozenset()) for x in od]
                if len(terms) == 1:
                    return terms[0]
                return ast.Call(func=ast.Name(id="__phi__", ctx=ast.Load()), args=terms, keywords=[])
            return ast.Name(id=d.name, ctx=ast.Load())
        if d.kind in ("param", "global", "free", "import", "def", "class", "lambda", "nested", "except"):
            return ast.Name(id=d.name, ctx=ast.Load())
        if key in active:
            return ast.Call(func=ast.Name(id="__loop__", ctx=ast.Load()),
                            args=[ast.Constant(value=d.name)], keywords=[])
        act = active | {key}
        if d.kind in ("assign", "walrus"):
            v = self._expand(d.value, depth - 1, act)
            return _apply_path(v, d.path)
        if d.kind == "aug":
            st = d.stmt
            prev = [self.defs[i] for i in sorted(self.IN[d.node]) if self.defs[i].name == d.name]
            prev_t = self._subst(ast.Name(id=d.name, ctx=ast.Load()), prev, depth - 1, act)
            return ast.BinOp(left=prev_t, op=st.op, right=self._expand(st.value, depth - 1, act))
        if d.kind in ("for", "comp"):
            it = self._expand(d.value, depth - 1, act)
            e = ast.Call(func=ast.Name(id="__elem__", ctx=ast.Load()), args=[it], keywords=[])
            return _apply_path(e, d.path)
        if d.kind == "with":
            v = self._expand(d.value, depth - 1, act)
            e = ast.Call(func=ast.Name(id="__enter__", ctx=ast.Load()), args=[v], keywords=[])
            return _apply_path(e, d.path)
        return ast.Name(id=d.name, ctx=ast.Load())

    def guarded_alternatives(self, name_node: ast.Name, keep=frozenset(), depth: int = 8):
        """[(conditions, value)] for the definitions of a local that reach `name_node`: conditions = canonical path conditions
        of the defining statement, value = its expanded term (an augmented assignment includes what it extends).  Lets a rule
        say 'under option X the value is …' whatever statement shape selects between the alternatives."""
        from . import guards
        old = getattr(self, "_keep", frozenset())
        self._keep = frozenset(keep)
        try:
            out = []
            for d in self.defs_of(name_node):
                conds = [(k, e, p) for k, e, p in guards.path_conditions(self.ff.node, d.stmt, skip_raise_guards=True)] if d.stmt is not None else []
                out.append((conds, self._def_term(d, depth, frozenset()), d))
            return out
        finally:
            self._keep = old

    # -- small predicates ------------------------------------------------------------
    def text(self, expr: ast.AST, depth: int = 8, keep=frozenset()) -> str:
        from .match import txt as _txt
        return _txt(self.expand(expr, depth, keep))

    def mentions(self, expr: ast.AST, name: str, depth: int = 10) -> bool:
        """Does the expanded expression mention the plain name (parameter / global)?"""
        e = self.expand(expr, depth)
        return any(isinstance(x, ast.Name) and x.id == name for x in ast.walk(e))

    def is_identity_of(self, expr: ast.AST, name: str, wrappers: tuple = ()) -> bool:
        e = self.expand(expr)
        return is_identity(e, name, wrappers)


def is_identity(e: ast.AST, name: str, wrappers: tuple = ()) -> bool:
    while isinstance(e, ast.Call) and isinstance(e.func, ast.Name) and e.func.id in wrappers \
            and len(e.args) == 1 and not e.keywords:
        e = e.args[0]
    if isinstance(e, ast.Call) and isinstance(e.func, ast.Name) and e.func.id == "__phi__":
        return all(is_identity(a, name, wrappers) for a in e.args)
    return isinstance(e, ast.Name) and e.id == name


class _RebuildWith:
    """Rebuild an expression bottom-up, substituting Names (looked up on the
    ORIGINAL nodes, so the id-based maps stay valid)."""

    def __init__(self, flow: Flow, depth: int, active):
        self.flow, self.depth, self.active = flow, depth, active

    def rebuild(self, n):
        if isinstance(n, ast.Name):
            if not isinstance(n.ctx, ast.Load):
                return ast.Name(id=n.id, ctx=n.ctx)
            try:
                ds = self.flow.defs_of(n)
            except AnchorMissing:
                return ast.Name(id=n.id, ctx=ast.Load())
            return self.flow._subst(n, ds, self.depth, self.active)
        if isinstance(n, ast.NamedExpr):
            return self.rebuild(n.value)
        if isinstance(n, ast.Lambda):
            # keep lambda params; expand free names of the body
            return ast.Lambda(args=n.args, body=self.rebuild(n.body))
        if isinstance(n, ast.AST):
            kw = {}
            for f, v in ast.iter_fields(n):
                if isinstance(v, list):
                    kw[f] = [self.rebuild(x) if isinstance(x, ast.AST) else x for x in v]
                elif isinstance(v, ast.AST):
                    kw[f] = self.rebuild(v)
                else:
                    kw[f] = v
            new = type(n)(**kw)
            if isinstance(new, ast.Call) and any(k.arg is None for k in new.keywords):
                # canonical keywords: f(**{'a': x, 'b': y}) == f(a=x, b=y)
                kws = []
                for k in new.keywords:
                    if k.arg is None and isinstance(k.value, ast.Dict) and k.value.keys and all(
                            isinstance(kk, ast.Constant) and isinstance(kk.value, str) and kk.value.isidentifier() for kk in k.value.keys):
                        kws += [ast.keyword(arg=kk.value, value=vv) for kk, vv in zip(k.value.keys, k.value.values)]
                    else:
                        kws.append(k)
                new.keywords = kws
            return ast.copy_location(new, n) if hasattr(n, "lineno") else new
        return n


def _apply_path(e: ast.AST, path: tuple) -> ast.AST:
    for p in path:
        if isinstance(p, int) and isinstance(e, (ast.Tuple, ast.List)) and not any(isinstance(x, ast.Starred) for x in e.elts) and -len(e.elts) <= p < len(e.elts):
            e = e.elts[p]            # a, b = x, y : a is x
            continue
        if p == "*":
            e = ast.Call(func=ast.Name(id="__rest__", ctx=ast.Load()), args=[e], keywords=[])
        else:
            e = ast.Subscript(value=e, slice=ast.Constant(value=p), ctx=ast.Load())
    return e


def _contains(root: ast.AST, x: ast.AST) -> bool:
    return any(y is x for y in ast.walk(root))


def _contains_args(a: ast.arguments, x: ast.AST) -> bool:
    for d in list(a.defaults) + [k for k in a.kw_defaults if k is not None]:
        if _contains(d, x):
            return True
    return False


_FLOWS: dict = {}


def flow_of(ss, ff: FuncFacts) -> Flow:
    """Flow of a function (cached on the SourceSet); nested functions get their
    enclosing function's Flow as ``outer`` for free variables."""
    from .pyfacts import module_facts

    def build():
        outer = None
        if ff.parent_func:
            mf = module_facts(ss, ff.module)
            outer = flow_of(ss, mf.funcs[ff.parent_func])
        return Flow(ff, outer)

    return ss.memo(("flow", ff.key), build)
