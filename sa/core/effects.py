"""E6 effects: write effects per function with the ROOT of the written object
classified, and deep-freshness of values.

Write sites: attribute / subscript stores, augmented assignment to them, ``del``,
a frozen list of mutator methods, calls into package functions that mutate a
parameter (summaries, fixed point over the call graph), and Lark visitor dispatch
``X(a).visit(t)`` (callbacks mutate ``t``; ``self.attr`` of the visitor aliases the
constructor argument it was initialised from).

Roots:  ('state', 'self._x') — object reachable from self / cls / a class
attribute / a module global;  ('param', name);  ('fresh', how) — created in this
function (deeply enough for the write);  ('unknown', text).
"""
from __future__ import annotations

import ast
from dataclasses import dataclass, field

from . import pyfacts as pf
from .callgraph import CallGraph, callgraph
from .defuse import Flow, flow_of
from .match import txt
from .source import SourceSet

MUTATORS = {"append", "extend", "insert", "remove", "pop", "clear", "update", "setdefault", "sort", "reverse",
            "add", "discard", "popitem", "__setitem__", "__delitem__", "appendleft", "subtract"}
IMMUTABLE_CALLS = {"float", "int", "str", "bool", "len", "sum", "min", "max", "abs", "round", "repr", "format", "complex",
                   "isinstance", "hasattr", "type", "id", "any", "all", "tuple_of_str", "frozenset", "range", "enumerate", "zip"}
FRESH_CTORS = {"list", "dict", "set", "tuple", "sorted", "reversed", "StringIO", "Counter", "OrderedDict", "defaultdict"}


@dataclass
class Write:
    func: str
    node: ast.AST          # statement / call
    receiver: ast.AST      # expression whose object is mutated
    how: str
    root: tuple = ()       # filled by classify


@dataclass
class Summary:
    mutated_params: set = field(default_factory=set)     # parameter names whose object may be mutated
    state_writes: list = field(default_factory=list)     # Write with root state/unknown
    attr_alias: dict = field(default_factory=dict)       # (classes) self.attr -> ctor param


class Effects:
    def __init__(self, ss: SourceSet):
        self.ss = ss
        self.cg: CallGraph = callgraph(ss)
        self.local: dict[str, list[Write]] = {}
        self.sum: dict[str, Summary] = {}
        self._fresh_memo: dict[str, bool | None] = {}
        for k, ff in self.cg.funcs.items():
            self.local[k] = self._local_writes(ff)
            self.sum[k] = Summary()
        self._ctor_alias()
        self._fixpoint()

    # -- local write sites ---------------------------------------------------------------------
    def _local_writes(self, ff) -> list[Write]:
        out = []
        for n in pf.walk_no_nested(ff.node):
            if isinstance(n, (ast.Assign, ast.AnnAssign, ast.AugAssign)):
                ts = n.targets if isinstance(n, ast.Assign) else [n.target]
                for t in ts:
                    for tt in (t.elts if isinstance(t, (ast.Tuple, ast.List)) else [t]):
                        if isinstance(tt, (ast.Attribute, ast.Subscript)):
                            out.append(Write(ff.key, n, tt.value, "store " + txt(tt)[:60]))
            elif isinstance(n, ast.Delete):
                for t in n.targets:
                    if isinstance(t, (ast.Attribute, ast.Subscript)):
                        out.append(Write(ff.key, n, t.value, "del " + txt(t)[:60]))
            elif isinstance(n, ast.Call) and isinstance(n.func, ast.Attribute) and n.func.attr in MUTATORS:
                out.append(Write(ff.key, n, n.func.value, f".{n.func.attr}()"))
        return out

    # -- roots -----------------------------------------------------------------------------------
    def root(self, flow: Flow, e: ast.AST, need_depth: int = 0, seen=None) -> tuple:
        """Classify the object denoted by e (a receiver).  need_depth: how many
        container levels below e the write happens (0: e itself)."""
        seen = seen or set()
        x = e
        depth = need_depth
        # peel attribute / subscript / call-chains that return sub-objects
        while True:
            if isinstance(x, ast.Attribute):
                if isinstance(x.value, ast.Name) and x.value.id in ("self", "cls") and isinstance(x.value.ctx, ast.Load):
                    ds = flow.defs_of(x.value)
                    if all(d.kind in ("param", "free", "global") for d in ds):
                        return ("state", f"{x.value.id}.{x.attr}")
                x = x.value
                depth += 1
                continue
            if isinstance(x, ast.Subscript):
                x = x.value
                depth += 1
                continue
            if isinstance(x, ast.Starred):
                x = x.value
                continue
            break
        if isinstance(x, ast.Name):
            if id(x) in seen:
                return ("fresh", "loop")
            seen = seen | {id(x)}
            try:
                ds = flow.defs_of(x)
            except Exception:
                return ("unknown", txt(x))
            roots = []
            for d in ds:
                roots.append(self._def_root(flow, d, depth, seen))
            if depth > 0 and any(d.kind in ("assign", "aug") for d in ds):
                # initialise-then-fill collections: contents come from the builder sites
                for st in pf.iter_stmts(flow.fn.body):
                    if isinstance(st, ast.Expr) and isinstance(st.value, ast.Call) and isinstance(st.value.func, ast.Attribute) \
                            and isinstance(st.value.func.value, ast.Name) and st.value.func.value.id == x.id and st.value.args:
                        m = st.value.func.attr
                        if m in ("append", "add", "insert", "appendleft"):
                            roots.append(self.root(flow, st.value.args[-1], depth - 1, seen))
                        elif m in ("extend", "update"):
                            roots.append(self.root(flow, st.value.args[0], depth, seen))
                    elif isinstance(st, ast.Assign):
                        for t in st.targets:
                            if isinstance(t, ast.Subscript) and isinstance(t.value, ast.Name) and t.value.id == x.id:
                                roots.append(self.root(flow, st.value, depth - 1, seen))
            return _worst(roots) if roots else ("unknown", txt(x))
        if isinstance(x, ast.Call):
            return self._call_root(flow, x, depth, seen)
        if isinstance(x, (ast.List, ast.Dict, ast.Set, ast.ListComp, ast.DictComp, ast.SetComp, ast.GeneratorExp, ast.Tuple)):
            if depth == 0:
                return ("fresh", "literal")
            return self._elems_root(flow, x, depth - 1, seen)
        if isinstance(x, (ast.Constant, ast.JoinedStr, ast.BinOp, ast.Compare)):
            return ("fresh", "immutable")
        if isinstance(x, ast.IfExp):
            return _worst([self.root(flow, x.body, depth, seen), self.root(flow, x.orelse, depth, seen)])
        if isinstance(x, ast.BoolOp):
            return _worst([self.root(flow, v, depth, seen) for v in x.values])
        return ("unknown", txt(x)[:60])

    def _def_root(self, flow, d, depth, seen) -> tuple:
        if d.kind == "param":
            if d.name in ("self", "cls"):
                return ("state", d.name)
            return ("param", d.name)
        if d.kind in ("global", "import", "class", "def"):
            return ("state", f"global {d.name}")
        if d.kind == "free":
            if flow.outer is not None:
                od = [x for x in flow.outer.defs if x.name == d.name]
                return _worst([self._def_root(flow.outer, x, depth, seen) for x in od]) if od else ("unknown", d.name)
            return ("unknown", d.name)
        if d.kind in ("assign", "walrus"):
            r = self.root(flow, d.value, depth, seen)
            if d.path:
                # element of an unpacked value: one level deeper
                r2 = self.root(flow, d.value, depth + len(d.path), seen)
                return r2
            return r
        if d.kind == "aug":
            # `x += y` keeps the identity of x for mutable containers (list / Counter / set):
            # the object is the one defined before; its NEW elements come from y
            prev = [flow.defs[i] for i in sorted(flow.IN[d.node]) if flow.defs[i].name == d.name and flow.defs[i] is not d]
            if depth == 0:
                return _worst([self._def_root(flow, x, 0, seen) for x in prev]) if prev else ("unknown", d.name)
            return _worst([self._def_root(flow, x, depth, seen) for x in prev] + [self.root(flow, d.stmt.value, depth, seen)])
        if d.kind in ("for", "comp"):
            # element of the iterable: one container level below the iterable (plus unpack path)
            return self.root(flow, d.value, depth + 1 + len(d.path), seen)
        if d.kind == "with":
            return self.root(flow, d.value, depth, seen)
        if d.kind in ("lambda", "nested"):
            return ("param", d.name)
        if d.kind == "except":
            return ("fresh", "exception")
        return ("unknown", d.name)

    def _elems_root(self, flow, x, depth, seen) -> tuple:
        elems = []
        if isinstance(x, (ast.List, ast.Set, ast.Tuple)):
            elems = list(x.elts)
        elif isinstance(x, ast.Dict):
            elems = [v for v in x.values]
        elif isinstance(x, (ast.ListComp, ast.SetComp, ast.GeneratorExp)):
            elems = [x.elt]
        elif isinstance(x, ast.DictComp):
            elems = [x.value]
        if not elems:
            return ("fresh", "empty")
        return _worst([self.root(flow, el, depth, seen) for el in elems])

    def _call_root(self, flow, c: ast.Call, depth, seen) -> tuple:
        name = txt(c.func)
        base = name.split(".")[-1]
        if name in ("copy.deepcopy", "deepcopy"):
            return ("fresh", "deepcopy")
        if name in ("__elem__",):
            return self.root(flow, c.args[0], depth + 1, seen)
        if name in ("copy.copy", "copy") and c.args:
            return ("fresh", "copy") if depth == 0 else self.root(flow, c.args[0], depth, seen)
        if isinstance(c.func, ast.Name) and (c.func.id in FRESH_CTORS or c.func.id in ("DaughtersDict", "DecayModeDict")):
            if depth == 0:
                return ("fresh", f"{c.func.id}()")
            if c.keywords and not c.args:
                return _worst([self.root(flow, k.value, depth - 1, seen) for k in c.keywords])
            if not c.args:
                return ("fresh", "empty")
            # elements come from the argument (shallow copy)
            return self.root(flow, c.args[0], depth, seen)
        if isinstance(c.func, ast.Name) and c.func.id in IMMUTABLE_CALLS:
            return ("fresh", "immutable")
        if isinstance(c.func, ast.Name) and c.func.id in ("iter", "next", "map", "filter"):
            return self.root(flow, c.args[-1], depth + (1 if c.func.id == "next" else 0), seen)
        if isinstance(c.func, ast.Attribute) and base in ("items", "values", "keys", "elements", "find_data", "iter_subtrees", "scan_values", "get", "copy", "split", "format", "join", "strip", "lstrip", "replace", "groupdict"):
            if base in ("split", "format", "join", "strip", "lstrip", "replace", "groupdict"):
                return ("fresh", "immutable")
            if base == "copy" and depth == 0:
                return ("fresh", "copy")
            extra = 0 if base in ("get", "copy") else 0
            return self.root(flow, c.func.value, depth + extra, seen)
        if isinstance(c.func, ast.Name) and c.func.id == "cls" or name == "self.__class__":
            return ("fresh", f"{name}()") if depth == 0 else _worst([self.root(flow, a, depth - 1, seen) for a in c.args] or [("fresh", "ctor")])
        # package function: returns-fresh summary
        sites = [s for s in self.cg.sites.get(flow.ff.key, []) if s.node is c]
        if sites and sites[0].callees:
            oks = [self.returns_deep_fresh(k) for k in sites[0].callees if not k.endswith(".__init__")]
            if oks and all(oks):
                return ("fresh", f"{name}() returns fresh")
            # returns a sub-object of one of its parameters?
            cs = [k for k in sites[0].callees if not k.endswith(".__init__")]
            if len(cs) == 1:
                rr = self.return_roots(cs[0], depth)
                if rr and any(r[0] == "state" for r in rr):
                    return _worst(rr)
                if rr and all(r[0] in ("param", "fresh") for r in rr):
                    binds = self._bind(self.cg.funcs[cs[0]], sites[0])
                    outs = []
                    for r in rr:
                        if r[0] == "fresh":
                            outs.append(r)
                        elif r[1] in binds:
                            outs.append(self.root(flow, binds[r[1]], depth, seen))
                        elif r[1] in ("self", "cls"):
                            outs.append(("state", r[1]))
                        else:
                            outs.append(("unknown", f"{name}() returns its parameter {r[1]}"))
                    return _worst(outs)
            if sites[0].callees and all(k.endswith(".__init__") for k in sites[0].callees):
                return ("fresh", f"{name}()") if depth == 0 else _worst([self.root(flow, a, depth - 1, seen) for a in c.args] or [("fresh", "ctor")])
            return ("unknown", f"{name}() not known to return a fresh object")
        if isinstance(c.func, ast.Name) and c.func.id[:1].isupper():
            # constructor of a third-party / unresolved class
            return ("fresh", f"{c.func.id}()") if depth == 0 else ("unknown", f"contents of {name}()")
        if name == "super":
            return ("state", "self")
        return ("unknown", f"{name}()")

    def return_roots(self, key: str, depth: int = 0) -> list:
        memo = self.__dict__.setdefault("_rr", {})
        mk = (key, depth)
        if mk in memo:
            return memo[mk] or []
        memo[mk] = None
        ff = self.cg.funcs[key]
        flow = flow_of(self.ss, ff)
        out = []
        for r in [n for n in pf.walk_no_nested(ff.node) if isinstance(n, ast.Return)]:
            if r.value is not None:
                out.append(self.root(flow, r.value, depth))
        memo[mk] = out
        return out

    # -- deep freshness of returned values ---------------------------------------------------------------
    def returns_deep_fresh(self, key: str, penv: dict | None = None) -> bool:
        """penv: parameter name -> True if the caller's argument is itself deep-fresh / immutable."""
        mk = (key, tuple(sorted((penv or {}).items())))
        if mk in self._fresh_memo:
            v = self._fresh_memo[mk]
            return True if v is None else v      # recursion: assume fresh
        self._fresh_memo[mk] = None
        ff = self.cg.funcs[key]
        flow = flow_of(self.ss, ff)
        ok = True
        for r in [n for n in pf.walk_no_nested(ff.node) if isinstance(n, ast.Return)]:
            if r.value is None:
                continue
            if not self.deep_fresh(flow, r.value, None, penv or {}):
                ok = False
        self._fresh_memo[mk] = ok
        return ok

    def deep_fresh(self, flow: Flow, e: ast.AST, seen=None, penv: dict | None = None) -> bool:
        """Is the value fresh (or immutable) at every depth a caller could mutate?"""
        seen = seen or set()
        penv = penv or {}
        _df = self.deep_fresh
        self_deep = lambda fl, x, sn=None: _df(fl, x, sn, penv)   # noqa: E731
        if isinstance(e, (ast.Constant, ast.JoinedStr, ast.Compare, ast.BinOp, ast.UnaryOp)):
            return True
        if isinstance(e, (ast.List, ast.Tuple, ast.Set)):
            return all(self_deep(flow, x, seen) for x in e.elts)
        if isinstance(e, ast.Dict):
            return all(self_deep(flow, x, seen) for x in e.values if x is not None)
        if isinstance(e, (ast.ListComp, ast.SetComp, ast.GeneratorExp)):
            return self_deep(flow, e.elt, seen)
        if isinstance(e, ast.DictComp):
            return self_deep(flow, e.value, seen)
        if isinstance(e, ast.IfExp):
            return self_deep(flow, e.body, seen) and self_deep(flow, e.orelse, seen)
        if isinstance(e, ast.BoolOp):
            return all(self_deep(flow, v, seen) for v in e.values)
        if isinstance(e, ast.Attribute):
            if e.attr in ("value", "data", "name", "bf", "mother", "type"):
                return True          # scalar leaves (token values, names, numbers)
            if isinstance(e.value, ast.Name) and e.value.id in ("PhotosEnum",):
                return True
            return False
        if isinstance(e, ast.Subscript):
            # element of a deep-fresh container is deep-fresh
            return self_deep(flow, e.value, seen)
        if isinstance(e, ast.Name):
            if id(e) in seen:
                return True
            seen = seen | {id(e)}
            try:
                ds = flow.defs_of(e)
            except Exception:
                return False
            for d in ds:
                if d.kind in ("assign", "walrus"):
                    if not self_deep(flow, d.value, seen):
                        return False
                elif d.kind in ("for", "comp"):
                    if not self_deep(flow, d.value, seen):
                        return False
                elif d.kind == "aug":
                    if not self_deep(flow, d.stmt.value, seen):
                        return False
                elif d.kind in ("global",) and e.id in ("PhotosEnum", "True", "False", "None"):
                    continue
                elif d.kind == "param" and penv.get(d.name):
                    continue
                else:
                    return False
            # builder additions
            if flow.ff is not None:
                for st in pf.iter_stmts(flow.fn.body):
                    if isinstance(st, ast.Expr) and isinstance(st.value, ast.Call) and isinstance(st.value.func, ast.Attribute) \
                            and st.value.func.attr in ("append", "extend", "update", "add", "insert"):
                        b = st.value.func.value
                        while isinstance(b, (ast.Subscript, ast.Attribute)):
                            b = b.value
                        if isinstance(b, ast.Name) and b.id == e.id:
                            if not all(self_deep(flow, a, seen) for a in st.value.args):
                                return False
                    elif isinstance(st, ast.Assign):
                        for t in st.targets:
                            b = t
                            while isinstance(b, (ast.Subscript, ast.Attribute)):
                                b = b.value
                            if isinstance(t, ast.Subscript) and isinstance(b, ast.Name) and b.id == e.id:
                                if not self_deep(flow, st.value, seen):
                                    return False
            return True
        if isinstance(e, ast.Call):
            name = txt(e.func)
            if name in ("copy.deepcopy", "deepcopy"):
                return True
            if isinstance(e.func, ast.Name) and e.func.id in IMMUTABLE_CALLS:
                return True
            if (isinstance(e.func, ast.Name) and e.func.id == "cls") or name == "self.__class__":
                return all(self_deep(flow, a, seen) for a in e.args) and all(self_deep(flow, k.value, seen) for k in e.keywords)
            if isinstance(e.func, ast.Name) and (e.func.id in FRESH_CTORS or e.func.id in ("DecayModeDict", "DaughtersDict")):
                return all(self_deep(flow, a, seen) for a in e.args) and all(self_deep(flow, k.value, seen) for k in e.keywords)
            if isinstance(e.func, ast.Attribute) and e.func.attr in ("join", "format", "split", "strip", "lstrip", "rstrip", "replace",
                                                                      "ljust", "rjust", "upper", "lower", "startswith", "count", "index"):
                return True
            if isinstance(e.func, ast.Attribute) and e.func.attr in ("find_data", "scan_values", "iter_subtrees", "items", "values", "keys", "elements", "get"):
                return False
            sites = [s for s in self.cg.sites.get(flow.ff.key, []) if s.node is e]
            if sites and sites[0].callees:
                cs = [k for k in sites[0].callees if not k.endswith(".__init__")]
                if cs:
                    res = True
                    for k in cs:
                        binds = self._bind(self.cg.funcs[k], sites[0])
                        pe = {pn: self_deep(flow, a, seen) for pn, a in binds.items()}
                        if not self.returns_deep_fresh(k, pe):
                            res = False
                    return res
                return all(self_deep(flow, a, seen) for a in e.args) and all(self_deep(flow, k.value, seen) for k in e.keywords)
            return False
        if isinstance(e, ast.Lambda):
            return True
        return False

    # -- summaries -------------------------------------------------------------------------------------------
    def _ctor_alias(self):
        for ck, cf in self.cg.classes.items():
            init = cf.methods.get("__init__")
            if init is None:
                continue
            flow = flow_of(self.ss, init)
            for st in pf.iter_stmts(init.node.body):
                if isinstance(st, (ast.Assign, ast.AnnAssign)):
                    ts = st.targets if isinstance(st, ast.Assign) else [st.target]
                    for t in ts:
                        if isinstance(t, ast.Attribute) and isinstance(t.value, ast.Name) and t.value.id == "self" and st.value is not None:
                            r = self.root(flow, st.value)
                            if r[0] == "param":
                                for m in cf.methods.values():
                                    self.sum[m.key].attr_alias[t.attr] = r[1]

    def _classify_local(self, key: str) -> tuple[set, list]:
        ff = self.cg.funcs[key]
        flow = flow_of(self.ss, ff)
        mp, sw = set(), []
        for w in self.local[key]:
            try:
                r = self.root(flow, w.receiver)
            except Exception as e:  # pragma: no cover
                r = ("unknown", f"{type(e).__name__}")
            if r[0] == "state" and r[1] in ("self", "cls") and w.how.startswith("store "):
                r = ("state", w.how[6:].split("[")[0])
            w.root = r
            if r[0] == "param":
                mp.add(r[1])
            elif r[0] in ("state", "unknown"):
                # a visitor mutating self.<attr> that aliases a ctor argument is a write to that argument (handled at dispatch)
                sw.append(w)
        return mp, sw

    def _fixpoint(self):
        for k in self.cg.funcs:
            mp, sw = self._classify_local(k)
            self.sum[k].mutated_params |= mp
            self.sum[k].state_writes = list(sw)
        changed = True
        rounds = 0
        while changed and rounds < 20:
            changed = False
            rounds += 1
            for k, ff in self.cg.funcs.items():
                flow = flow_of(self.ss, ff)
                for s in self.cg.sites.get(k, []):
                    if not isinstance(s.node, ast.Call):
                        continue
                    for callee in s.callees:
                        cs = self.sum[callee]
                        cff = self.cg.funcs[callee]
                        binds = self._bind(cff, s)
                        # callee mutates a param -> the caller's argument is mutated
                        for p in list(cs.mutated_params):
                            arg = binds.get(p)
                            if arg is None:
                                continue
                            r = self.root(flow, arg)
                            if self._note(k, s.node, arg, f"via {cff.qualname}({p})", r):
                                changed = True
                        # visitor state aliasing ctor args
                        if s.dispatch:
                            ctor = s.node.func.value if isinstance(s.node.func, ast.Attribute) else None
                            for w in cs.state_writes:
                                if w.root[0] == "state" and w.root[1].startswith("self.") and isinstance(ctor, ast.Call):
                                    attr = w.root[1][5:]
                                    p = cs.attr_alias.get(attr)
                                    if p is None:
                                        continue
                                    icf = self.cg._class_from_expr(ff, ctor)
                                    init = self.cg.find_method(icf, "__init__") if icf else None
                                    if init is None:
                                        continue
                                    b2 = self._bind(init, type("S", (), {"node": ctor, "dispatch": False})())
                                    arg = b2.get(p)
                                    if arg is not None:
                                        r = self.root(flow, arg)
                                        if self._note(k, s.node, arg, f"via {cff.qualname} (self.{attr} aliases ctor arg {p})", r):
                                            changed = True
                        elif not cff.qualname.endswith("__init__"):
                            # callee's own state writes are also the caller's (same object when called on self)
                            pass

    def _note(self, key, node, arg, how, r) -> bool:
        s = self.sum[key]
        if r[0] == "param":
            if r[1] not in s.mutated_params:
                s.mutated_params.add(r[1])
                return True
            return False
        if r[0] in ("state", "unknown"):
            if not any(w.node is node and txt(w.receiver) == txt(arg) for w in s.state_writes):
                w = Write(key, node, arg, how, r)
                s.state_writes.append(w)
                return True
        return False

    def _bind(self, cff, site) -> dict:
        """parameter name -> argument expression at a call site (self/cls skipped; for
        visitor dispatch the tree parameter is bound to the visited tree)."""
        c = site.node
        params = list(cff.params)
        if cff.cls is not None and cff.kind in ("method", "class", "property") and params:
            params = params[1:]
        out = {}
        if getattr(site, "dispatch", False):
            if params and c.args and isinstance(c.func, ast.Attribute) and c.func.attr in ("visit", "transform", "visit_topdown"):
                out[params[0]] = c.args[0]
            return out
        for i, a in enumerate(c.args):
            if isinstance(a, ast.Starred):
                break
            if i < len(params):
                out[params[i]] = a
        for kw in c.keywords:
            if kw.arg in params:
                out[kw.arg] = kw.value
        return out

    # -- queries ------------------------------------------------------------------------------------------------
    def transitive_state_writes(self, key: str) -> list[Write]:
        """State / unknown-rooted writes of the function and of everything it calls
        on the same receiver (self methods) or with state passed as argument."""
        out, seen = [], set()
        todo = [key]
        while todo:
            k = todo.pop()
            if k in seen:
                continue
            seen.add(k)
            out += self.sum[k].state_writes
            for s in self.cg.sites.get(k, []):
                for callee in s.callees:
                    cff = self.cg.funcs[callee]
                    # follow self-method calls, nested helpers and property reads: same `self`
                    f = s.node.func if isinstance(s.node, ast.Call) else s.node
                    onself = isinstance(f, ast.Attribute) and isinstance(f.value, ast.Name) and f.value.id in ("self", "cls")
                    if onself or cff.parent_func or cff.cls is None and not s.dispatch:
                        todo.append(callee)
        return out


def _worst(roots: list[tuple]) -> tuple:
    order = {"state": 0, "unknown": 1, "param": 2, "fresh": 3}
    informative = [r for r in roots if not (r[0] == "fresh" and r[1] in ("empty", "literal", "loop"))]
    if informative:
        roots = informative
    return sorted(roots, key=lambda r: order.get(r[0], 1))[0]


def effects(ss: SourceSet) -> Effects:
    return ss.memo(("effects",), lambda: Effects(ss))
