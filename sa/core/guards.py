"""E4 kleene + syntax-directed path conditions.

``path_conditions(fn, stmt)`` lists the tests that must have a given truth value
for ``stmt`` to execute, read off the structured AST: enclosing ``if`` tests, and
earlier sibling ``if c: <always exits>`` statements (=> not c).  The repository
has no goto-like control flow, so this is exact for if/loop/try nests; handlers
contribute an ('exc', handler) marker.

``k3(expr, atom)`` evaluates a guard in three-valued logic: ``atom(e)`` returns
True / False for sub-expressions fixed by the assumption and None otherwise.
"""
from __future__ import annotations

import ast

from .pyfacts import parent_map

EXIT = (ast.Return, ast.Raise, ast.Continue, ast.Break)


def always_exits(block: list[ast.stmt]) -> bool:
    if not block:
        return False
    last = block[-1]
    if isinstance(last, EXIT):
        return True
    if isinstance(last, ast.If):
        return bool(last.orelse) and always_exits(last.body) and always_exits(last.orelse)
    if isinstance(last, ast.Try):
        if last.finalbody and always_exits(last.finalbody):
            return True
        return always_exits(last.body + last.orelse) and all(always_exits(h.body) for h in last.handlers)
    if isinstance(last, ast.With):
        return always_exits(last.body)
    return False


def _blocks_of(st: ast.AST):
    out = []
    for f in ("body", "orelse", "finalbody"):
        v = getattr(st, f, None)
        if isinstance(v, list) and v and isinstance(v[0], ast.stmt):
            out.append((f, v))
    if isinstance(st, ast.Try):
        for h in st.handlers:
            out.append(("handler", h.body))
    return out


def canon_cond(e: ast.AST, pol: bool) -> list[tuple[ast.AST, bool]]:
    """Canonical form of one branch condition: a list of (atom, polarity) whose conjunction is the condition.
    `not x` -> x with flipped polarity; `a is not b`/`a != b`/`a not in b` -> positive comparison, flipped;
    `len(x) > 0`, `len(x) != 0`, `len(x) >= 1`, `bool(x)` -> x; `len(x) == 0`, `len(x) < 1` -> x flipped;
    a conjunction that holds / a disjunction that fails is split into its members."""
    while True:
        if isinstance(e, ast.UnaryOp) and isinstance(e.op, ast.Not):
            e, pol = e.operand, not pol
            continue
        if isinstance(e, ast.Call) and isinstance(e.func, ast.Name) and e.func.id == "bool" and len(e.args) == 1 and not e.keywords:
            e = e.args[0]
            continue
        break
    if isinstance(e, ast.BoolOp) and ((isinstance(e.op, ast.And) and pol) or (isinstance(e.op, ast.Or) and not pol)):
        out = []
        for v in e.values:
            out += canon_cond(v, pol)
        return out
    if isinstance(e, ast.Compare) and len(e.ops) == 1:
        op, l, r = e.ops[0], e.left, e.comparators[0]
        flip = {ast.IsNot: ast.Is, ast.NotEq: ast.Eq, ast.NotIn: ast.In}
        if type(op) in flip:
            ne = ast.copy_location(ast.Compare(left=l, ops=[flip[type(op)]()], comparators=[r]), e)
            return canon_cond(ne, not pol)
        def is_len(x):
            return isinstance(x, ast.Call) and isinstance(x.func, ast.Name) and x.func.id == "len" and len(x.args) == 1
        def num(x):
            return x.value if isinstance(x, ast.Constant) and isinstance(x.value, int) and not isinstance(x.value, bool) else None
        if is_len(l) and num(r) is not None:
            k = num(r)
            if (isinstance(op, ast.Gt) and k == 0) or (isinstance(op, ast.GtE) and k == 1):
                return canon_cond(l.args[0], pol)
            if (isinstance(op, ast.Eq) and k == 0) or (isinstance(op, ast.Lt) and k == 1) or (isinstance(op, ast.LtE) and k == 0):
                return canon_cond(l.args[0], not pol)
        if is_len(r) and num(l) == 0 and isinstance(op, ast.Lt):
            return canon_cond(r.args[0], pol)
    return [(e, pol)]


def path_conditions(fn: ast.AST, stmt: ast.AST, stop_at: ast.AST | None = None, raw: bool = False, skip_raise_guards: bool = False):
    """-> list of (kind, expr_or_node, polarity).  kind in {'if','while','exc','loop'}.
    ``stop_at``: only conditions inside this enclosing statement (e.g. a loop) are returned.
    Unless ``raw``, 'if'/'while' conditions are canonicalised (see canon_cond): several syntactic forms of one test give
    the same (expression, polarity) pairs."""
    cs = _path_conditions_raw(fn, stmt, stop_at, skip_raise_guards)
    if raw:
        return cs
    out = []
    for kind, e, pol in cs:
        if kind in ("if", "while") and isinstance(e, ast.AST):
            out += [(kind, a, p) for a, p in canon_cond(e, pol)]
        else:
            out.append((kind, e, pol))
    return out


def _path_conditions_raw(fn: ast.AST, stmt: ast.AST, stop_at: ast.AST | None = None, skip_raise_guards: bool = False):
    """skip_raise_guards: conditions contributed by an earlier sibling `if c: raise …` (argument validation: having passed it
    says nothing about which alternative is selected afterwards) are left out."""
    global _SKIP_RAISE
    _SKIP_RAISE = skip_raise_guards
    pm = parent_map(fn)
    conds = []
    cur = stmt
    while cur is not fn and id(cur) in pm:
        par = pm[id(cur)]
        if isinstance(par, ast.ExceptHandler):
            tr = pm[id(par)]
            conds.append(("exc", par, True))
            # earlier siblings in handler body
            _siblings(par.body, cur, conds)
            cur = tr
            continue
        blk_name, blk = None, None
        for name, b in _blocks_of(par):
            if any(x is cur for x in b):
                blk_name, blk = name, b
                break
        if blk is None:
            # cur is an expression-level child; climb
            cur = par
            continue
        _siblings(blk, cur, conds)
        if isinstance(par, ast.If):
            conds.append(("if", par.test, blk_name == "body"))
        elif isinstance(par, ast.While):
            if blk_name == "body":
                conds.append(("while", par.test, True))
        elif isinstance(par, ast.For):
            conds.append(("loop", par, blk_name == "body"))
        if stop_at is not None and par is stop_at:
            break
        cur = par
    return conds


_SKIP_RAISE = False


def _ends_in_raise(body) -> bool:
    if not body:
        return False
    last = body[-1]
    if isinstance(last, ast.Raise):
        return True
    if isinstance(last, ast.If):
        return _ends_in_raise(last.body) and bool(last.orelse) and _ends_in_raise(last.orelse)
    return False


def _siblings(blk, cur, conds):
    for s in blk:
        if s is cur:
            break
        if isinstance(s, ast.If):
            b_exit = always_exits(s.body)
            o_exit = bool(s.orelse) and always_exits(s.orelse)
            if _SKIP_RAISE and ((b_exit and not o_exit and _ends_in_raise(s.body)) or (o_exit and not b_exit and _ends_in_raise(s.orelse))):
                continue
            if b_exit and not o_exit:
                conds.append(("if", s.test, False))
            elif o_exit and not b_exit:
                conds.append(("if", s.test, True))


def k3(e: ast.AST, atom) -> bool | None:
    a = atom(e)
    if a is not None:
        return a
    if isinstance(e, ast.Constant):
        return bool(e.value)
    if isinstance(e, ast.UnaryOp) and isinstance(e.op, ast.Not):
        v = k3(e.operand, atom)
        return None if v is None else (not v)
    if isinstance(e, ast.BoolOp):
        vals = [k3(v, atom) for v in e.values]
        if isinstance(e.op, ast.And):
            if any(v is False for v in vals):
                return False
            return True if all(v is True for v in vals) else None
        if any(v is True for v in vals):
            return True
        return False if all(v is False for v in vals) else None
    if isinstance(e, ast.IfExp):
        t = k3(e.test, atom)
        if t is True:
            return k3(e.body, atom)
        if t is False:
            return k3(e.orelse, atom)
        b, o = k3(e.body, atom), k3(e.orelse, atom)
        return b if b == o else None
    if isinstance(e, ast.Call) and isinstance(e.func, ast.Name) and e.func.id == "bool" and len(e.args) == 1:
        return k3(e.args[0], atom)
    if isinstance(e, ast.Call) and isinstance(e.func, ast.Name) and e.func.id == "__phi__":
        vals = {k3(a, atom) for a in e.args}
        return vals.pop() if len(vals) == 1 else None
    return None


def reachable_under(conds, atom, flow=None) -> bool | None:
    """Given path conditions and an assumption, is the statement possibly
    reachable?  False = definitely unreachable; True = all conditions definitely
    satisfied; None = unknown."""
    allt = True
    for kind, e, pol in conds:
        if kind not in ("if", "while"):
            allt = False if kind == "exc" else allt
            continue
        ex = flow.expand(e) if flow is not None else e
        v = k3(ex, atom)
        if v is None:
            allt = False
        elif v != pol:
            return False
    return True if allt else None


def simplify(e: ast.AST, atom) -> ast.AST:
    """Partial evaluation: conditional expressions whose test is decided by the
    assumption are replaced by the taken branch (used to read a value 'under an
    assumption')."""
    class T(ast.NodeTransformer):
        def visit_IfExp(self, n):
            v = k3(n.test, atom)
            if v is True:
                return self.visit(n.body)
            if v is False:
                return self.visit(n.orelse)
            return self.generic_visit(n)

        def visit_Call(self, n):
            if isinstance(n.func, ast.Name) and n.func.id == "__phi__":
                return self.generic_visit(n)
            return self.generic_visit(n)
    import copy
    return T().visit(copy.deepcopy(e))


def self_attr_value(ff, flow, attr: str, at_stmt: ast.AST):
    """Value last stored into self.<attr> by a statement of this function that
    dominates at_stmt (None if there is none or several candidates reach)."""
    from .pyfacts import iter_stmts
    stores = []
    for st in iter_stmts(ff.node.body):
        if isinstance(st, (ast.Assign, ast.AnnAssign)):
            ts = st.targets if isinstance(st, ast.Assign) else [st.target]
            if any(isinstance(t, ast.Attribute) and t.attr == attr and isinstance(t.value, ast.Name) and t.value.id == "self" for t in ts):
                stores.append(st)
    cfg = flow.cfg
    here = cfg.node_of(at_stmt)
    doms = [s for s in stores if cfg.dominates(cfg.node_of(s), here)]
    if len(doms) != 1 or len(stores) != 1:
        return None
    return doms[0].value


def specialise(fn: ast.FunctionDef, flow, atom) -> ast.FunctionDef:
    """Copy of `fn` in which every `if` statement and conditional expression whose test is decided by the assumption is
    replaced by the taken branch.  `atom(expanded_expr) -> True | False | None` gives the assumption on an (expanded,
    canonical) test atom; tests are expanded with `flow` first, so `flag = has_x(v)` … `if flag:` is decided by an
    assumption about `has_x(v)`.  Nested function definitions are left untouched.  The result is straight-line with
    respect to the assumed facts: rules can read 'what happens in the case …' from it with the ordinary engines, whatever
    statement shape (duplicated branches, one branch plus conditional expressions, guard clauses) the source uses."""
    import copy

    def decide(test):
        try:
            e = flow.expand(test)
        except Exception:
            e = test
        # evaluate through canonical atoms
        def reduce_(x):
            """x with the conditional expressions inside it resolved where the assumption decides their test"""
            while isinstance(x, ast.IfExp):
                v = ev(x.test)
                if v is None:
                    break
                x = x.body if v else x.orelse
            return x

        def noneness(x):
            """True: x is None; False: x cannot be None (a literal, or the instance a class call creates); None: unknown"""
            x = reduce_(x)
            if isinstance(x, ast.Constant):
                return x.value is None
            if isinstance(x, (ast.List, ast.Tuple, ast.Dict, ast.Set, ast.JoinedStr, ast.ListComp, ast.DictComp, ast.SetComp)):
                return False
            if isinstance(x, ast.Call):
                f_ = x.func
                nm = f_.id if isinstance(f_, ast.Name) else (f_.attr if isinstance(f_, ast.Attribute) else "")
                if nm[:1].isupper() or nm in ("partial", "list", "dict", "set", "tuple", "str"):
                    return False
            return None

        def ev(x):
            atoms = canon_cond(x, True)
            if len(atoms) == 1 and atoms[0][0] is x and atoms[0][1] is True:
                v = atom(x)
                if v is not None:
                    return v
                if isinstance(x, ast.Compare) and len(x.ops) == 1 and isinstance(x.ops[0], (ast.Is, ast.Eq)) and isinstance(x.comparators[0], ast.Constant) \
                        and x.comparators[0].value is None:
                    return noneness(x.left)
                if isinstance(x, ast.IfExp):
                    r_ = reduce_(x)
                    if r_ is not x:
                        return ev(r_)
                if isinstance(x, ast.BoolOp):
                    vals = [ev(y) for y in x.values]
                    if isinstance(x.op, ast.And):
                        return False if any(v is False for v in vals) else (True if all(v is True for v in vals) else None)
                    return True if any(v is True for v in vals) else (False if all(v is False for v in vals) else None)
                if isinstance(x, ast.Constant):
                    return bool(x.value)
                return None
            vals = []
            for a, p in atoms:
                v = ev(a) if a is not x else atom(a)
                vals.append(None if v is None else (v == p))
            return False if any(v is False for v in vals) else (True if all(v is True for v in vals) else None)
        return ev(e)

    # decide tests on the ORIGINAL nodes (flow knows them), then prune a deep copy: ast.walk visits both in the same order
    root = copy.deepcopy(fn)
    verdict: dict[int, bool | None] = {}
    for o, c in zip(ast.walk(fn), ast.walk(root)):
        if isinstance(o, (ast.If, ast.IfExp)):
            verdict[id(c)] = decide(o.test)

    def decide_at(n):
        return verdict.get(id(n))

    class T2(ast.NodeTransformer):
        def visit_FunctionDef(self, n):
            return n if n is not root else self.generic_visit(n)

        def visit_Lambda(self, n):
            return n

        def visit_IfExp(self, n):
            v = decide_at(n)
            if v is True:
                return self.visit(n.body)
            if v is False:
                return self.visit(n.orelse)
            return self.generic_visit(n)

    def block2(stmts):
        out = []
        for st in stmts:
            if isinstance(st, ast.If):
                v = decide_at(st)
                if v is True or v is False:
                    taken = st.body if v else st.orelse
                    out += block2(taken)
                    if taken and always_exits(taken):
                        return out           # what follows a taken guard clause is dead in this case
                    continue
            for f in ("body", "orelse", "finalbody"):
                b = getattr(st, f, None)
                if isinstance(b, list) and b and isinstance(b[0], ast.stmt) and not isinstance(st, (ast.FunctionDef, ast.ClassDef)):
                    setattr(st, f, block2(b) or ([ast.Pass()] if f == "body" else []))
            if isinstance(st, ast.Try):
                for h in st.handlers:
                    h.body = block2(h.body) or [ast.Pass()]
            out.append(st)
            if isinstance(st, (ast.Return, ast.Raise, ast.Continue, ast.Break)):
                return out
        return out
    root.body = block2(root.body) or [ast.Pass()]
    root = T2().visit(root)
    ast.fix_missing_locations(root)
    return root
