"""E7 larkfacts: grammar facts computed with Lark's own grammar loader and
compiler (no parser is run on any input).

For each tree name we compute its *child words*: the sequences of children a
tree node of that name can have after Lark's tree building, as Lark's
ParseTreeBuilder does it on the compiled BNF rules:
  * a terminal with ``filter_out`` (anonymous string literals, ``_NAMED``) vanishes;
  * a nonterminal whose name starts with ``_`` is inlined (this covers the
    ``__x_star_n`` / ``__x_plus_n`` helpers Lark generates for EBNF operators);
  * a ``?rule`` alternative with exactly one child is replaced by that child;
  * ``-> alias`` names the tree.
Words are enumerated on demand up to a length bound (default 7); ``unbounded``
tells whether longer words exist.  Symbols are ('T', tree_name), ('K', TERMINAL).
"""
from __future__ import annotations

from .source import AnchorMissing, SourceSet

CAP = 50000


class GrammarFacts:
    def __init__(self, text: str, name: str, bound: int):
        self.name, self.text, self.bound = name, text, bound
        try:
            from lark.load_grammar import load_grammar
            g, _ = load_grammar(text, name, [], False)
            terms, rules, ignore = g.compile(["start"], set())
        except Exception as e:
            from .source import GrammarBroken
            raise GrammarBroken(f"grammar {name} does not load: {type(e).__name__}: {str(e)[:200]}") from e
        self.grammar = g
        self.terminals = {t.name: t for t in terms}
        self.rules = rules
        self.ignore = list(ignore)
        self.rule_defs = {rd[0]: (rd[1], rd[2], rd[3]) for rd in g.rule_defs}
        self.by_origin: dict[str, list] = {}
        for r in rules:
            self.by_origin.setdefault(r.origin.name, []).append(r)
        # tree names: rule names that can create a node + aliases
        self.producers: dict[str, list] = {}
        for r in rules:
            nm = r.origin.name
            if nm.startswith("_"):
                continue
            self.producers.setdefault(str(r.alias or nm), []).append(r)
        self._W: dict[str, set] = {}      # inlined-rule name -> child sequences
        self._over: dict[str, bool] = {}
        self._words: dict[str, tuple[set, bool]] = {}
        self._tree_names = None

    # ------------------------------------------------------------------------
    @property
    def tree_names(self) -> set[str]:
        """Names a Tree.data can actually take (``?rule``s that always inline are excluded)."""
        if self._tree_names is None:
            out = set()
            for nm, rs in self.producers.items():
                if nm == "start":
                    out.add(nm)
                    continue
                if all(bool(r.options and r.options.expand1) and not r.alias for r in rs):
                    try:
                        if not self.rule_words(nm) and not self.unbounded(nm):
                            continue
                    except AnchorMissing:
                        pass
                out.add(nm)
            self._tree_names = out
        return self._tree_names

    def _inline_closure(self, nm: str):
        """Fixpoint for a ``_`` rule (possibly recursive)."""
        if nm in self._W:
            return
        # collect the set of mutually reachable inlined rules
        todo, group = [nm], []
        while todo:
            x = todo.pop()
            if x in group or x in self._W:
                continue
            group.append(x)
            for r in self.by_origin.get(x, ()):
                for s in r.expansion:
                    if not s.is_term and s.name.startswith("_") and s.name not in group:
                        todo.append(s.name)
        for x in group:
            self._W[x] = set()
            self._over[x] = False
        changed = True
        it = 0
        while changed:
            changed = False
            it += 1
            if it > 100:
                raise AnchorMissing(f"grammar {self.name}: fixpoint for {nm} did not converge")
            for x in group:
                for r in self.by_origin[x]:
                    ws, ov = self._alt_words(r)
                    if not ws <= self._W[x]:
                        self._W[x] |= ws
                        changed = True
                        if len(self._W[x]) > CAP:
                            raise AnchorMissing(f"grammar {self.name}: child-word set of {x} exceeds cap")
                    if ov and not self._over[x]:
                        self._over[x] = True
                        changed = True

    def _contrib(self, sym):
        if sym.is_term:
            if getattr(sym, "filter_out", False):
                return {()}, False
            return {(("K", str(sym.name)),)}, False
        nm = sym.name
        if nm not in self.by_origin:
            raise AnchorMissing(f"grammar {self.name}: rule {nm} used but not defined")
        if nm.startswith("_"):
            if nm not in self._W:
                self._inline_closure(nm)
            return set(self._W[nm]), self._over[nm]
        out = set()
        for r in self.by_origin[nm]:
            expand1 = bool(r.options and r.options.expand1)
            tname = r.alias or nm
            if expand1 and not r.alias:
                ws, ov = self._alt_words(r)
                for w in ws:
                    out.add(w if len(w) == 1 else (("T", str(tname)),))
                if ov:
                    out.add((("T", str(tname)),))
            else:
                out.add((("T", str(tname)),))
        return out, False

    def _alt_words(self, r):
        seqs = {()}
        ov = False
        for sym in r.expansion:
            c, o = self._contrib(sym)
            ov = ov or o
            new = set()
            for a in seqs:
                for b in c:
                    w = a + b
                    if len(w) <= self.bound:
                        new.add(w)
                    else:
                        ov = True
            seqs = new
            if len(seqs) > CAP:
                raise AnchorMissing(f"grammar {self.name}: child-word set of {r.origin.name} exceeds cap")
        return seqs, ov

    def rule_words(self, tree_name: str) -> set:
        return self._get(tree_name)[0]

    def unbounded(self, tree_name: str) -> bool:
        return self._get(tree_name)[1]

    def _get(self, tree_name: str):
        if tree_name not in self.producers:
            raise AnchorMissing(f"grammar {self.name}: no tree is ever named {tree_name!r}")
        if tree_name not in self._words:
            ws, ov = set(), False
            for r in self.producers[tree_name]:
                expand1 = bool(r.options and r.options.expand1)
                w2, o2 = self._alt_words(r)
                for w in w2:
                    if expand1 and not r.alias and len(w) == 1:
                        continue
                    ws.add(w)
                ov = ov or o2
            self._words[tree_name] = (ws, ov)
        return self._words[tree_name]

    def word_strs(self, tree_name: str) -> list[str]:
        return sorted(symbols_str(w) for w in self.rule_words(tree_name))

    def term_regex(self, name: str) -> str:
        if name not in self.terminals:
            raise AnchorMissing(f"grammar {self.name}: terminal {name} not found")
        return self.terminals[name].pattern.to_regexp()

    def keywords(self, tree_name: str) -> set[str]:
        """Literal texts of the filtered-out (punctuation / keyword) terminals in the productions that create a node
        `tree_name` (through `_inline` rules as well).  A case-insensitive literal is rendered as `text/i`; a filtered
        terminal that is not a single literal (e.g. _NEWLINE) is left out."""
        out: set[str] = set()
        seen: set[str] = set()

        def rule(r):
            for sym in r.expansion:
                if sym.is_term:
                    if getattr(sym, "filter_out", False) and sym.name in self.terminals:
                        pat = self.terminals[sym.name].pattern
                        if type(pat).__name__ == "PatternStr":
                            out.add(pat.value + ("/i" if "i" in (pat.flags or ()) else ""))
                elif sym.name.startswith("_") and sym.name not in seen:
                    seen.add(sym.name)
                    for r2 in self.by_origin.get(sym.name, []):
                        rule(r2)
                elif sym.name.startswith("__") :
                    pass
        prods = list(self.producers.get(tree_name, []))
        # helper rules generated for EBNF groups/repetitions belong to the rule they were generated for
        for r in prods:
            rule(r)
        for nm, rs in self.by_origin.items():
            if nm.startswith(f"__{tree_name}_"):
                for r in rs:
                    rule(r)
        return out

    def terminal_words(self, name: str):
        """Finite language of a terminal (set of strings), None when infinite; case-insensitive literals give `text/i`."""
        from .rx import Rx
        if name not in self.terminals:
            raise AnchorMissing(f"grammar {self.name}: terminal {name} not found")
        pat = self.terminals[name].pattern
        if type(pat).__name__ == "PatternStr":
            return {pat.value + ("/i" if "i" in (pat.flags or ()) else "")}
        flags = 0
        import re as _re
        for f in (pat.flags or ()):
            flags |= {"i": _re.I, "s": _re.S, "m": _re.M}.get(f, 0)
        return Rx(pat.to_regexp(), flags).finite_words()

    def rule_regex(self, name: str, alpha: "SymAlphabet", subst: dict | None = None, _depth: int = 0) -> str:
        """ebnf_regex of rule `name` with its `_inline` sub-rules (names starting with an underscore, which leave no node in
        the tree) substituted by their own expansions: `x : (a | _NL)+` and `x : _item+ ; _item : a | _NL` give the same regex
        language."""
        if name not in self.rule_defs:
            raise AnchorMissing(f"grammar {self.name}: rule {name} not found")
        if _depth > 6:
            raise AnchorMissing(f"grammar {self.name}: inline rules nest too deep / recurse at {name}")
        sub = dict(subst or {})
        tree = self.rule_defs[name][1]
        from lark import Tree as LTree

        def nonterms(t):
            if isinstance(t, LTree):
                for c in t.children:
                    yield from nonterms(c)
            elif getattr(t, "name", None) is not None and not t.is_term:
                yield str(t.name)
        for nt in set(nonterms(tree)):
            if nt.startswith("_") and f"N:{nt}" not in sub and nt in self.rule_defs:
                sub[f"N:{nt}"] = "(?:" + self.rule_regex(nt, alpha, subst, _depth + 1) + ")"
        return ebnf_regex(tree, alpha, sub)

    def reachable_trees(self, root: str) -> set[str]:
        """Tree names that can occur strictly below a node named ``root``."""
        seen: set[str] = set()
        stack = [root]
        while stack:
            r = stack.pop()
            for w in self.rule_words(r):
                for k, v in w:
                    if k == "T" and v not in seen:
                        seen.add(v)
                        stack.append(v)
        return seen

    def line_alternatives(self) -> set[str]:
        """Tree names a top-level statement (`line`) can be."""
        out = set()
        if "line" not in self.by_origin:
            raise AnchorMissing(f"grammar {self.name}: rule 'line' not found")
        for r in self.by_origin["line"]:
            c, _ = self._alt_words(r)
            for w in c:
                for k, v in w:
                    if k == "T":
                        out.add(v)
        return out


def grammar_facts(ss: SourceSet, short: str, bound: int = 7) -> GrammarFacts:
    return ss.memo(("grammar", short, bound), lambda: GrammarFacts(ss.text(short), short, bound))


def symbols_str(w) -> str:
    return " ".join(f"{k}:{v}" for k, v in w) if w else "ε"


# ---- EBNF of a rule as a regular expression over single-character symbols ---------------------
class SymAlphabet:
    """Maps grammar symbols (terminals, nonterminals, string literals) to single letters."""

    def __init__(self):
        self.map: dict[str, str] = {}
        self.pool = list("abcdefghijklmnopqrstuvwxyzABCDEFGHIJKLMNOPQRSTUVWXYZ0123456789")

    def letter(self, key: str) -> str:
        if key not in self.map:
            if not self.pool:
                raise AnchorMissing("too many grammar symbols for the symbol alphabet")
            self.map[key] = self.pool.pop(0)
        return self.map[key]


def ebnf_regex(tree, alpha: SymAlphabet, subst: dict | None = None) -> str:
    """Regex (Python syntax, one letter per grammar symbol) of a rule's EBNF tree.
    ``subst`` maps a symbol key to a replacement regex (e.g. {'T:_NEWLINE': 'n+'})."""
    subst = subst or {}
    from lark import Tree as LTree

    def sym(key):
        if key in subst:
            return subst[key]
        return alpha.letter(key)

    def go(t) -> str:
        if not isinstance(t, LTree):
            # Terminal / NonTerminal symbol objects
            nm = getattr(t, "name", None)
            if nm is not None:
                return sym(("T:" if t.is_term else "N:") + str(nm))
            raise AnchorMissing(f"EBNF leaf {t!r} not understood")
        d = t.data
        if d == "expansions":
            return "(?:" + "|".join(go(c) for c in t.children) + ")"
        if d == "expansion":
            return "".join(go(c) for c in t.children)
        if d == "alias":
            return go(t.children[0])
        if d == "expr":
            inner = go(t.children[0])
            op = str(t.children[1])
            if op in "+*?":
                return f"(?:{inner}){op}"
            if op == "~":
                lo = int(t.children[2])
                hi = int(t.children[3]) if len(t.children) > 3 else lo
                return f"(?:{inner}){{{lo},{hi}}}"
            raise AnchorMissing(f"EBNF operator {op}")
        if d == "maybe":
            return "(?:" + go(t.children[0]) + ")?"
        if d == "value":
            return go(t.children[0])
        if d == "literal":
            return sym("L:" + str(t.children[0]))
        if d == "template_usage":
            raise AnchorMissing("grammar templates not supported")
        raise AnchorMissing(f"EBNF node {d} not understood")

    return go(tree)
