"""Structural pattern matching on (expanded) ASTs.

Patterns are Python expressions; names starting with ``M_`` are metavariables
(bound consistently by text), ``ANY`` matches anything.  A pattern call
``f(M_x)`` matches the same call whether the argument is passed positionally or
by keyword only when the rule says so through ``kwnames``.
"""
from __future__ import annotations

import ast


def pat(src: str) -> ast.AST:
    return ast.parse(src, mode="eval").body


def match(p: ast.AST, n: ast.AST, b: dict | None = None) -> dict | None:
    b = {} if b is None else b
    return b if _m(p, n, b) else None


def _m(p, n, b) -> bool:
    if isinstance(p, ast.Name):
        if p.id == "ANY":
            return True
        if p.id.startswith("M_"):
            t = ast.unparse(n) if isinstance(n, ast.AST) else repr(n)
            if p.id in b:
                return b[p.id][0] == t
            b[p.id] = (t, n)
            return True
    if type(p) is not type(n):
        return False
    for f, pv in ast.iter_fields(p):
        if f in ("ctx", "lineno", "col_offset", "end_lineno", "end_col_offset", "kind", "type_comment"):
            continue
        nv = getattr(n, f, None)
        if isinstance(pv, list):
            if not isinstance(nv, list) or len(pv) != len(nv):
                return False
            for x, y in zip(pv, nv):
                if isinstance(x, ast.AST):
                    if not _m(x, y, b):
                        return False
                elif x != y:
                    return False
        elif isinstance(pv, ast.AST):
            if not isinstance(nv, ast.AST) or not _m(pv, nv, b):
                return False
        else:
            if pv != nv:
                return False
    return True


def find(p: ast.AST, root: ast.AST):
    """All sub-nodes of root matching pattern p -> list of (node, bindings)."""
    out = []
    for n in ast.walk(root):
        b = match(p, n)
        if b is not None:
            out.append((n, b))
    return out


def strip_wrappers(e: ast.AST, names: tuple) -> ast.AST:
    """Peel single-argument calls to the given plain function names."""
    while isinstance(e, ast.Call) and isinstance(e.func, ast.Name) and e.func.id in names \
            and len(e.args) == 1 and not e.keywords:
        e = e.args[0]
    return e


def phi_alts(e: ast.AST) -> list[ast.AST]:
    if isinstance(e, ast.Call) and isinstance(e.func, ast.Name) and e.func.id == "__phi__":
        out = []
        for a in e.args:
            out += phi_alts(a)
        return out
    return [e]


def call_arg(c: ast.Call, pos: int | None, kw: str | None):
    """Argument passed for a parameter given its position and/or keyword name."""
    if kw is not None:
        for k in c.keywords:
            if k.arg == kw:
                return k.value
    if pos is not None and pos < len(c.args) and not any(isinstance(a, ast.Starred) for a in c.args[:pos + 1]):
        return c.args[pos]
    return None


def names_in(e: ast.AST) -> set[str]:
    return {x.id for x in ast.walk(e) if isinstance(x, ast.Name)}


class _Alpha(ast.NodeTransformer):
    """Bound variables of comprehensions and lambdas get positional names (_c1, _c2, … / _l1, …): the text of an expression
    does not depend on what a maintainer called them."""

    def __init__(self):
        self.n = 0
        self.env: list[dict] = []

    def visit_Name(self, n):
        for fr in reversed(self.env):
            if n.id in fr:
                return ast.copy_location(ast.Name(id=fr[n.id], ctx=n.ctx), n)
        return n

    def _comp(self, node):
        fr: dict = {}
        self.env.append(fr)
        gens = []
        for g in node.generators:
            it = self.visit(g.iter)            # the iterable is evaluated before the target is bound
            for t in ast.walk(g.target):
                if isinstance(t, ast.Name) and t.id not in fr:
                    # named by nesting depth and position, so equal sub-expressions get equal texts wherever they occur
                    fr[t.id] = f"_c{len(self.env)}{'abcdefgh'[len(fr) % 8]}"
            gens.append(ast.comprehension(target=self.visit(g.target), iter=it, ifs=[self.visit(i) for i in g.ifs], is_async=g.is_async))
            gens[-1]._bound = {fr[t.id] for t in ast.walk(g.target) if isinstance(t, ast.Name) and t.id in fr}
        if isinstance(node, ast.DictComp):
            new = ast.DictComp(key=self.visit(node.key), value=self.visit(node.value), generators=gens)
        else:
            new = type(node)(elt=self.visit(node.elt), generators=gens)
        # a target none of whose names is used (the usual case after expansion, where uses became __elem__ terms) is
        # written `_`: `for t in xs`, `for i, t in xs`, `for _, t, _ in xs` then read the same
        body_parts = ([new.key, new.value] if isinstance(new, ast.DictComp) else [new.elt])
        for gi, g in enumerate(gens):
            used = set()
            for part in body_parts + [x for g2 in gens for x in g2.ifs] + [g2.iter for g2 in gens[gi + 1:]]:
                used |= {n.id for n in ast.walk(part) if isinstance(n, ast.Name)}
            if not (getattr(g, "_bound", set()) & used):
                g.target = ast.Name(id="_", ctx=ast.Store())
        self.env.pop()
        return ast.copy_location(new, node)
    visit_ListComp = visit_SetComp = visit_GeneratorExp = visit_DictComp = _comp

    def visit_Lambda(self, node):
        fr = {}
        for a in node.args.args:
            fr[a.arg] = f"_l{len(self.env) + 1}{'abcdefgh'[len(fr) % 8]}"
        self.env.append(fr)
        import copy
        args = copy.deepcopy(node.args)
        for a in args.args:
            a.arg = fr[a.arg]
        new = ast.Lambda(args=args, body=self.visit(node.body))
        self.env.pop()
        return ast.copy_location(new, node)


class _FlatF(ast.NodeTransformer):
    """f"{f'{a}::S'}::Min"  ==  f"{a}::S::Min": a piece of text interpolated into text (no conversion, no format
    spec) is spliced in, adjacent constants are merged."""
    def visit_JoinedStr(self, n):
        self.generic_visit(n)
        parts = []
        for p in n.values:
            if isinstance(p, ast.FormattedValue) and p.conversion == -1 and p.format_spec is None and isinstance(p.value, ast.JoinedStr):
                parts += p.value.values
            elif isinstance(p, ast.FormattedValue) and p.conversion == -1 and p.format_spec is None and isinstance(p.value, ast.Constant) and isinstance(p.value.value, str):
                parts.append(p.value)
            else:
                parts.append(p)
        merged = []
        for p in parts:
            if isinstance(p, ast.Constant) and merged and isinstance(merged[-1], ast.Constant):
                merged[-1] = ast.Constant(value=merged[-1].value + p.value)
            else:
                merged.append(p)
        n.values = merged
        return n


def _is_keys(x):
    return isinstance(x, ast.Call) and isinstance(x.func, ast.Attribute) and x.func.attr == "keys" and not x.args and not x.keywords


class _Keys(ast.NodeTransformer):
    """Iterating / testing membership in `d.keys()` is iterating / testing membership in `d`."""
    def visit_Call(self, n):
        self.generic_visit(n)
        if isinstance(n.func, ast.Name) and n.func.id in ("iter", "list", "tuple", "set", "sorted", "len", "frozenset", "enumerate", "reversed") and n.args and _is_keys(n.args[0]) \
                and n.func.id != "reversed":
            n.args[0] = n.args[0].func.value
        return n

    def visit_comprehension(self, n):
        self.generic_visit(n)
        if _is_keys(n.iter):
            n.iter = n.iter.func.value
        return n

    def visit_For(self, n):
        self.generic_visit(n)
        if _is_keys(n.iter):
            n.iter = n.iter.func.value
        return n

    def visit_Compare(self, n):
        self.generic_visit(n)
        if len(n.ops) == 1 and isinstance(n.ops[0], (ast.In, ast.NotIn)) and _is_keys(n.comparators[0]):
            n.comparators[0] = n.comparators[0].func.value
        return n


def txt(e: ast.AST) -> str:
    """Normalised text of an expression / statement (whitespace collapsed, bound variables alpha-renamed)."""
    import copy
    copied = False
    if any(_is_keys(x) for x in ast.walk(e)):
        e = _Keys().visit(copy.deepcopy(e))
        copied = True
    if any(isinstance(x, ast.JoinedStr) and any(isinstance(p, ast.FormattedValue) and isinstance(p.value, (ast.JoinedStr, ast.Constant)) for p in x.values) for x in ast.walk(e)):
        e = _FlatF().visit(e if copied else copy.deepcopy(e))
        copied = True
    if any(isinstance(x, (ast.ListComp, ast.SetComp, ast.GeneratorExp, ast.DictComp, ast.Lambda)) for x in ast.walk(e)):
        e = _Alpha().visit(e if copied else copy.deepcopy(e))
    return " ".join(ast.unparse(e).split())


def canon(s: str) -> str:
    """txt() of a source string (lets rules write expected forms with readable variable names)."""
    try:
        return txt(ast.parse(s, mode="eval").body)
    except SyntaxError:
        return s
