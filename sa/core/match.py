"""Structural pattern matching on (expanded) ASTs.

Patterns are Python expressions; names starting with ``M_`` are metavariables
(bound consistently by text), ``ANY`` matches anything.  A pattern call
``f(M_x)`` matches the same call whether the argument is passed positionally or
by keyword only when the rule says so through ``kwnames``.
"""
from __future__ import annotations

import ast


def pat(src: str) -> ast.AST:
    return ast.parse(src, mode="eval").body


def match(p: ast.AST, n: ast.AST, b: dict | None = None) -> dict | None:
    b = {} if b is None else b
    return b if _m(p, n, b) else None


def _m(p, n, b) -> bool:
    if isinstance(p, ast.Name):
        if p.id == "ANY":
            return True
        if p.id.startswith("M_"):
            t = ast.unparse(n) if isinstance(n, ast.AST) else repr(n)
            if p.id in b:
                return b[p.id][0] == t
            b[p.id] = (t, n)
            return True
    if type(p) is not type(n):
        return False
    for f, pv in ast.iter_fields(p):
        if f in ("ctx", "lineno", "col_offset", "end_lineno", "end_col_offset", "kind", "type_comment"):
            continue
        nv = getattr(n, f, None)
        if isinstance(pv, list):
            if not isinstance(nv, list) or len(pv) != len(nv):
                return False
            for x, y in zip(pv, nv):
                if isinstance(x, ast.AST):
                    if not _m(x, y, b):
                        return False
                elif x != y:
                    return False
        elif isinstance(pv, ast.AST):
            if not isinstance(nv, ast.AST) or not _m(pv, nv, b):
                return False
        else:
            if pv != nv:
                return False
    return True


def find(p: ast.AST, root: ast.AST):
    """All sub-nodes of root matching pattern p -> list of (node, bindings)."""
    out = []
    for n in ast.walk(root):
        b = match(p, n)
        if b is not None:
            out.append((n, b))
    return out


def strip_wrappers(e: ast.AST, names: tuple) -> ast.AST:
    """Peel single-argument calls to the given plain function names."""
    while isinstance(e, ast.Call) and isinstance(e.func, ast.Name) and e.func.id in names \
            and len(e.args) == 1 and not e.keywords:
        e = e.args[0]
    return e


def phi_alts(e: ast.AST) -> list[ast.AST]:
    if isinstance(e, ast.Call) and isinstance(e.func, ast.Name) and e.func.id == "__phi__":
        out = []
        for a in e.args:
            out += phi_alts(a)
        return out
    return [e]


def call_arg(c: ast.Call, pos: int | None, kw: str | None):
    """Argument passed for a parameter given its position and/or keyword name."""
    if kw is not None:
        for k in c.keywords:
            if k.arg == kw:
                return k.value
    if pos is not None and pos < len(c.args) and not any(isinstance(a, ast.Starred) for a in c.args[:pos + 1]):
        return c.args[pos]
    return None


def names_in(e: ast.AST) -> set[str]:
    return {x.id for x in ast.walk(e) if isinstance(x, ast.Name)}


def txt(e: ast.AST) -> str:
    return " ".join(ast.unparse(e).split())
