"""Analysis-only normalisation of a module: single-use helpers the rules do not know by name are inlined at their
call site (DESIGN.md §13.5).  "Extract function" is the commonest behaviour-preserving refactoring; a rule anchored on
`print_decay_modes` must keep seeing the normalisation arithmetic after a maintainer moves it into `_bf_divisor(...)`.

What is inlined: a module-level function or a method that
  * has a name no rule mentions (VOCAB = identifiers occurring in string literals of sa/rules/*.py),
  * is called at exactly one site of its module and referenced nowhere else, is not recursive, has no decorator other
    than staticmethod / classmethod, no *args / **kwargs, no yield, no nested def, no global / nonlocal,
  * has a body whose returns form a tree (returns only at the end of straight-line code / if-branches, none in loops),
and whose call site is the whole value of an assignment to a plain name, the whole value of a return, or a
sub-expression of a simple statement outside comprehensions / lambdas / loop headers (then the value is bound to a
fresh local just before the statement).

How: parameters are bound by assignments (`p = arg`, defaults for absent ones), callee locals get a suffix so they cannot
clash, `return X` becomes `target = X` (or stays a return when the call was in tail position).  The callee definition stays in
the module.  Evaluation order of sibling sub-expressions may differ from the source — the result is for static rules only,
never executed."""
from __future__ import annotations

import ast
import copy
import glob
import os
import re

_VOCAB: set[str] | None = None


def vocab() -> set[str]:
    global _VOCAB
    if _VOCAB is None:
        out: set[str] = set()
        here = os.path.dirname(os.path.dirname(os.path.abspath(__file__)))
        for p in glob.glob(os.path.join(here, "rules", "*.py")):
            try:
                t = ast.parse(open(p, encoding="utf-8").read())
            except Exception:
                continue
            for n in ast.walk(t):
                if isinstance(n, ast.Constant) and isinstance(n.value, str):
                    out.update(re.findall(r"[A-Za-z_][A-Za-z_0-9]*", n.value))
        _VOCAB = out
    return _VOCAB


def _returns_tree(body) -> bool:
    """every path through `body` ends in a return, and returns occur only in tail position of if-trees"""
    if not body:
        return False
    for st in body[:-1]:
        if any(isinstance(x, ast.Return) for x in ast.walk(st)):
            # an if whose branch returns, followed by more code: allowed when that branch always returns (guard clause)
            if isinstance(st, ast.If) and _no_loop_returns(st):
                continue
            return False
    last = body[-1]
    if isinstance(last, ast.Return):
        return True
    if isinstance(last, ast.If):
        return _returns_tree(last.body) and bool(last.orelse) and _returns_tree(last.orelse)
    if isinstance(last, ast.Raise):
        return True
    if isinstance(last, ast.Try) and not last.finalbody and not last.orelse:
        return _returns_tree(last.body) and all(_returns_tree(h.body) for h in last.handlers)
    return False


def _no_loop_returns(st) -> bool:
    for x in ast.walk(st):
        if isinstance(x, (ast.For, ast.While, ast.Try, ast.With)) and any(isinstance(y, ast.Return) for y in ast.walk(x)):
            return False
    return True


def _always_returns(body) -> bool:
    if not body:
        return False
    last = body[-1]
    if isinstance(last, (ast.Return, ast.Raise)):
        return True
    if isinstance(last, ast.If):
        return _always_returns(last.body) and bool(last.orelse) and _always_returns(last.orelse)
    if isinstance(last, ast.Try) and not last.finalbody and not last.orelse:
        return _always_returns(last.body) and all(_always_returns(h.body) for h in last.handlers)
    return False


def _convert(body, make_ret):
    """rewrite a returns-tree body so that `return X` becomes make_ret(X) and code after a guard clause moves into the else"""
    out = []
    for i, st in enumerate(body):
        if isinstance(st, ast.Return):
            out += make_ret(st)
            return out
        if isinstance(st, ast.If) and any(isinstance(x, ast.Return) for x in ast.walk(st)):
            rest = body[i + 1:]
            b = _convert(st.body, make_ret) if _always_returns(st.body) else _convert(st.body + rest, make_ret)
            if st.orelse:
                o = _convert(st.orelse, make_ret) if _always_returns(st.orelse) else _convert(st.orelse + rest, make_ret)
            else:
                o = _convert(rest, make_ret)
            new = ast.copy_location(ast.If(test=st.test, body=b or [ast.Pass()], orelse=o), st)
            out.append(new)
            return out
        if isinstance(st, ast.Try) and any(isinstance(x, ast.Return) for x in ast.walk(st)) and i == len(body) - 1:
            nt = ast.copy_location(ast.Try(body=_convert(st.body, make_ret) or [ast.Pass()],
                                           handlers=[ast.copy_location(ast.ExceptHandler(type=h.type, name=h.name, body=_convert(h.body, make_ret) or [ast.Pass()]), h) for h in st.handlers],
                                           orelse=[], finalbody=[]), st)
            out.append(nt)
            return out
        out.append(st)
    return out


def _eligible(fn: ast.FunctionDef) -> bool:
    a = fn.args
    if a.vararg or a.kwarg or a.posonlyargs:
        return False
    for d in fn.decorator_list:
        if not (isinstance(d, ast.Name) and d.id in ("staticmethod", "classmethod")):
            return False
    body = fn.body[1:] if fn.body and isinstance(fn.body[0], ast.Expr) and isinstance(fn.body[0].value, ast.Constant) and isinstance(fn.body[0].value.value, str) else fn.body
    if not body:
        return False
    for x in ast.walk(ast.Module(body=body, type_ignores=[])):
        if isinstance(x, (ast.Yield, ast.YieldFrom, ast.FunctionDef, ast.AsyncFunctionDef, ast.Lambda, ast.Global, ast.Nonlocal, ast.ClassDef, ast.Await)):
            return False
    if not any(isinstance(x, ast.Return) for x in ast.walk(ast.Module(body=body, type_ignores=[]))):
        return True          # a procedure (works by side effect): inlined where it is called as a statement
    return _returns_tree(body)


def _is_procedure(fn) -> bool:
    return not any(isinstance(x, ast.Return) for x in ast.walk(fn))


def _body(fn):
    return fn.body[1:] if fn.body and isinstance(fn.body[0], ast.Expr) and isinstance(fn.body[0].value, ast.Constant) and isinstance(fn.body[0].value.value, str) else fn.body


class _Rename(ast.NodeTransformer):
    def __init__(self, mapping):
        self.m = mapping

    def visit_Name(self, n):
        if n.id in self.m:
            v = self.m[n.id]
            if isinstance(v, ast.AST):           # a parameter standing for a simple argument expression (self.decays, …)
                return ast.copy_location(copy.deepcopy(v), n) if isinstance(n.ctx, ast.Load) else n
            return ast.copy_location(ast.Name(id=v, ctx=n.ctx), n)
        return n

    def visit_arg(self, n):
        return n


def _locals_of(fn) -> set[str]:
    out = {a.arg for a in fn.args.args + fn.args.kwonlyargs}
    for x in ast.walk(fn):
        if isinstance(x, ast.Name) and isinstance(x.ctx, (ast.Store, ast.Del)):
            out.add(x.id)
    return out


def _empty_container(e) -> bool:
    return (isinstance(e, ast.Dict) and not e.keys) or (isinstance(e, (ast.List, ast.Tuple)) and not e.elts) or \
        (isinstance(e, ast.Call) and isinstance(e.func, ast.Name) and e.func.id in ("dict", "list", "set") and not e.args and not e.keywords)


def group_aliases(tree: ast.Module) -> ast.Module:
    """`g = D.setdefault(K, {})` … uses of g   ==>   `D.setdefault(K, {})` … uses of D[K]
    (the local that names a group of a two-level dictionary is replaced by the subscript it stands for).  Applied per block:
    the uses rewritten are those in the statements that follow the binding in the same block (a loop body usually), up to a
    rebinding of g; D is a plain name, the default an empty container, K a name / attribute chain / constant (repeating it
    has no effect of its own).  If g is also read anywhere else in the function, nothing is changed."""
    changed = False

    def simple(e):
        return isinstance(e, (ast.Name, ast.Constant)) or (isinstance(e, ast.Attribute) and simple(e.value)) or \
            (isinstance(e, ast.Subscript) and simple(e.value) and isinstance(e.slice, ast.Constant))

    def is_binding(st):
        if not (isinstance(st, ast.Assign) and len(st.targets) == 1 and isinstance(st.targets[0], ast.Name)):
            return None
        v = st.value
        if isinstance(v, ast.Call) and isinstance(v.func, ast.Attribute) and v.func.attr == "setdefault" and isinstance(v.func.value, ast.Name) \
                and len(v.args) == 2 and not v.keywords and _empty_container(v.args[1]) and simple(v.args[0]):
            return st.targets[0].id
        return None

    def process(fn):
        nonlocal changed
        # candidate names: every binding of the name in the function is a setdefault-group binding
        stores: dict[str, list] = {}
        for n in ast.walk(fn):
            if isinstance(n, ast.Name) and isinstance(n.ctx, (ast.Store, ast.Del)):
                stores.setdefault(n.id, []).append(n)
        bind_stmts = [st for st in ast.walk(fn) if isinstance(st, ast.Assign) and is_binding(st)]
        names = {is_binding(st) for st in bind_stmts}
        names = {g for g in names if len(stores.get(g, [])) == sum(1 for st in bind_stmts if is_binding(st) == g)}
        if not names:
            return
        handled_loads: set[int] = set()
        plan = []      # (block list, index of binding, name, subscript)

        def scan(block):
            for i, st in enumerate(block):
                g = is_binding(st)
                if g in names:
                    sub = ast.Subscript(value=ast.Name(id=st.value.func.value.id, ctx=ast.Load()), slice=copy.deepcopy(st.value.args[0]), ctx=ast.Load())
                    j = i + 1
                    while j < len(block) and not any(is_binding(x) == g for x in ast.walk(block[j]) if isinstance(x, ast.Assign)):
                        j += 1
                    for later in block[i + 1:j]:
                        for x in ast.walk(later):
                            if isinstance(x, ast.Name) and x.id == g and isinstance(x.ctx, ast.Load):
                                handled_loads.add(id(x))
                    plan.append((block, i, j, g, sub))
                for f in ("body", "orelse", "finalbody"):
                    b = getattr(st, f, None)
                    if isinstance(b, list) and b and isinstance(b[0], ast.stmt) and not isinstance(st, (ast.FunctionDef, ast.ClassDef)):
                        scan(b)
                if isinstance(st, ast.Try):
                    for h in st.handlers:
                        scan(h.body)
        scan(fn.body)
        # every read of a candidate name must be covered by some binding's region
        for g in list(names):
            loads = [x for x in ast.walk(fn) if isinstance(x, ast.Name) and x.id == g and isinstance(x.ctx, ast.Load)]
            if any(id(x) not in handled_loads for x in loads):
                names.discard(g)
        for block, i, j, g, sub in plan:
            if g not in names:
                continue

            class R(ast.NodeTransformer):
                def visit_Name(self, n, g=g, sub=sub):
                    if n.id == g and isinstance(n.ctx, ast.Load):
                        return ast.copy_location(copy.deepcopy(sub), n)
                    return n
            for k in range(i + 1, j):
                block[k] = R().visit(block[k])
            block[i] = ast.copy_location(ast.Expr(value=block[i].value), block[i])
            changed = True

    t2 = copy.deepcopy(tree)
    for n in ast.walk(t2):
        if isinstance(n, ast.FunctionDef):
            process(n)
    if changed:
        ast.fix_missing_locations(t2)
        return t2
    return tree


def extend_generators(tree: ast.Module) -> ast.Module:
    """`xs.extend(E for v in IT if c)`  ==>  `for v in IT:` / `if c:` / `xs.append(E)`   (statement form only)."""
    changed = False

    def block(stmts):
        nonlocal changed
        out = []
        for st in stmts:
            for f in ("body", "orelse", "finalbody"):
                b = getattr(st, f, None)
                if isinstance(b, list) and b and isinstance(b[0], ast.stmt):
                    setattr(st, f, block(b))
            if isinstance(st, ast.Try):
                for h in st.handlers:
                    h.body = block(h.body)
            if isinstance(st, ast.Expr) and isinstance(st.value, ast.Call) and isinstance(st.value.func, ast.Attribute) and st.value.func.attr == "extend" \
                    and len(st.value.args) == 1 and not st.value.keywords and isinstance(st.value.args[0], (ast.GeneratorExp, ast.ListComp)):
                comp = st.value.args[0]
                body = [ast.Expr(value=ast.Call(func=ast.Attribute(value=st.value.func.value, attr="append", ctx=ast.Load()), args=[comp.elt], keywords=[]))]
                for g in reversed(comp.generators):
                    for cond in reversed(g.ifs):
                        body = [ast.If(test=cond, body=body, orelse=[])]
                    body = [ast.For(target=g.target, iter=g.iter, body=body, orelse=[])]
                for n_ in body:
                    ast.copy_location(n_, st)
                    ast.fix_missing_locations(n_)
                out += body
                changed = True
                continue
            out.append(st)
        return out
    t2 = copy.deepcopy(tree)
    for n in ast.walk(t2):
        if isinstance(n, (ast.FunctionDef, ast.AsyncFunctionDef)):
            n.body = block(n.body)
    if changed:
        ast.fix_missing_locations(t2)
        return t2
    return tree


def plain_assignments(tree: ast.Module) -> ast.Module:
    """`x: T = v`  ==>  `x = v`   (an annotated assignment with a value is an assignment; the annotation is not evaluated for
    the rules' purposes).  Bare declarations `x: T` are kept."""
    class T(ast.NodeTransformer):
        def visit_AnnAssign(self, n):
            self.generic_visit(n)
            if n.value is None:
                return n
            return ast.copy_location(ast.Assign(targets=[n.target], value=n.value, lineno=n.lineno), n)
    t2 = T().visit(copy.deepcopy(tree))

    # `a = b[k] = v`  ==>  `a = v` ; `b[k] = a`   (v is evaluated once, targets are assigned left to right)
    def split(stmts):
        out = []
        for st in stmts:
            for f_ in ("body", "orelse", "finalbody"):
                b = getattr(st, f_, None)
                if isinstance(b, list) and b and isinstance(b[0], ast.stmt):
                    setattr(st, f_, split(b))
            if isinstance(st, ast.Try):
                for h in st.handlers:
                    h.body = split(h.body)
            if isinstance(st, ast.Assign) and len(st.targets) > 1 and isinstance(st.targets[0], ast.Name):
                first = st.targets[0]
                out.append(ast.copy_location(ast.Assign(targets=[first], value=st.value), st))
                for t_ in st.targets[1:]:
                    out.append(ast.copy_location(ast.Assign(targets=[t_], value=ast.Name(id=first.id, ctx=ast.Load())), st))
                continue
            out.append(st)
        return out
    for n in ast.walk(t2):
        if isinstance(n, (ast.FunctionDef, ast.AsyncFunctionDef)):
            n.body = split(n.body)
    ast.fix_missing_locations(t2)
    return t2


def ctor_kwargs(tree: ast.Module) -> ast.Module:
    """`d = OrderedDict(a=x, b=y)` / `d = dict(a=x, b=y)`  ==>  `d = OrderedDict()` ; `d["a"] = x` ; `d["b"] = y`
    (a mapping created with its first entries as keyword arguments is the same as one filled by item stores, in order)."""
    changed = False

    def block(stmts):
        nonlocal changed
        out = []
        for st in stmts:
            for f in ("body", "orelse", "finalbody"):
                b = getattr(st, f, None)
                if isinstance(b, list) and b and isinstance(b[0], ast.stmt):
                    setattr(st, f, block(b))
            if isinstance(st, ast.Try):
                for h in st.handlers:
                    h.body = block(h.body)
            tg = st.targets[0] if isinstance(st, ast.Assign) and len(st.targets) == 1 else (st.target if isinstance(st, ast.AnnAssign) else None)
            v = getattr(st, "value", None)
            if isinstance(tg, ast.Name) and isinstance(v, ast.Call) and not v.args and v.keywords and all(k.arg is not None for k in v.keywords) \
                    and ((isinstance(v.func, ast.Name) and v.func.id in ("OrderedDict", "dict")) or (isinstance(v.func, ast.Attribute) and v.func.attr == "OrderedDict")):
                empty = ast.copy_location(ast.Call(func=v.func, args=[], keywords=[]), v)
                first = ast.copy_location(ast.Assign(targets=[ast.Name(id=tg.id, ctx=ast.Store())], value=empty, lineno=st.lineno), st)
                out.append(first)
                for k in v.keywords:
                    out.append(ast.copy_location(ast.Assign(targets=[ast.Subscript(value=ast.Name(id=tg.id, ctx=ast.Load()), slice=ast.Constant(value=k.arg), ctx=ast.Store())],
                                                            value=k.value, lineno=st.lineno), st))
                changed = True
                continue
            # `d = OrderedDict([("a", x), ("b", y)])` / `dict([...])`: the same, from a literal list of (constant key, value) pairs
            if isinstance(tg, ast.Name) and isinstance(v, ast.Call) and len(v.args) == 1 and not v.keywords and isinstance(v.args[0], (ast.List, ast.Tuple)) \
                    and v.args[0].elts and all(isinstance(e_, ast.Tuple) and len(e_.elts) == 2 and isinstance(e_.elts[0], ast.Constant) for e_ in v.args[0].elts) \
                    and ((isinstance(v.func, ast.Name) and v.func.id in ("OrderedDict", "dict")) or (isinstance(v.func, ast.Attribute) and v.func.attr == "OrderedDict")):
                empty = ast.copy_location(ast.Call(func=v.func, args=[], keywords=[]), v)
                out.append(ast.copy_location(ast.Assign(targets=[ast.Name(id=tg.id, ctx=ast.Store())], value=empty, lineno=st.lineno), st))
                for e_ in v.args[0].elts:
                    out.append(ast.copy_location(ast.Assign(targets=[ast.Subscript(value=ast.Name(id=tg.id, ctx=ast.Load()), slice=e_.elts[0], ctx=ast.Store())],
                                                            value=e_.elts[1], lineno=st.lineno), st))
                changed = True
                continue
            # `if K not in D: D[K] = {}`  ==>  `D.setdefault(K, {})`   (open the group if it is not there yet)
            if isinstance(st, ast.If) and not st.orelse and len(st.body) == 1 and isinstance(st.test, ast.Compare) and len(st.test.ops) == 1 \
                    and isinstance(st.test.ops[0], ast.NotIn) and isinstance(st.body[0], ast.Assign) and len(st.body[0].targets) == 1:
                a_ = st.body[0]
                t_ = a_.targets[0]
                if isinstance(t_, ast.Subscript) and ast.dump(t_.value) == ast.dump(st.test.comparators[0]) and _empty_container(a_.value):
                    k_dump = ast.dump(t_.slice)
                    left = st.test.left
                    same_key = ast.dump(left) == k_dump
                    if not same_key and isinstance(left, ast.Name) and isinstance(t_.slice, ast.Name) and left.id == t_.slice.id:
                        same_key = True
                    if same_key:
                        call = ast.Call(func=ast.Attribute(value=t_.value, attr="setdefault", ctx=ast.Load()), args=[t_.slice, a_.value], keywords=[])
                        out.append(ast.copy_location(ast.Expr(value=ast.copy_location(call, st)), st))
                        changed = True
                        continue
            out.append(st)
        return out
    t2 = copy.deepcopy(tree)
    for n in ast.walk(t2):
        if isinstance(n, (ast.FunctionDef, ast.AsyncFunctionDef)):
            n.body = block(n.body)
    if changed:
        ast.fix_missing_locations(t2)
        return t2
    return tree


def format_calls(tree: ast.Module) -> ast.Module:
    """`"… {name:15} {p.mass:<10.8g} …".format(name=E, p=P)`  ==>  f"… {E:15} {P.mass:<10.8g} …"
    (a constant format string with named / numbered / automatic fields, attribute and index paths, conversions and literal
    format specs).  Generated-text rules then see one form only.  Calls the transformation cannot express exactly (a starred
    argument, a field without a matching argument, nested replacement fields in a spec) are left as they are."""
    import string

    class T(ast.NodeTransformer):
        def visit_Call(self, n):
            self.generic_visit(n)
            f = n.func
            if not (isinstance(f, ast.Attribute) and f.attr == "format" and isinstance(f.value, ast.Constant) and isinstance(f.value.value, str)):
                return n
            if any(isinstance(a, ast.Starred) for a in n.args) or any(k.arg is None for k in n.keywords):
                return n
            kw = {k.arg: k.value for k in n.keywords}
            try:
                parts = list(string.Formatter().parse(f.value.value))
            except ValueError:
                return n
            values = []
            auto = 0
            for lit, field, spec, conv in parts:
                if lit:
                    values.append(ast.Constant(value=lit))
                if field is None:
                    continue
                if spec and "{" in spec:
                    return n
                m = re.match(r"^([A-Za-z_][A-Za-z_0-9]*|\d*)(.*)$", field)
                base, rest = m.group(1), m.group(2)
                if base == "":
                    if auto >= len(n.args):
                        return n
                    be = n.args[auto]
                    auto += 1
                elif base.isdigit():
                    if int(base) >= len(n.args):
                        return n
                    be = n.args[int(base)]
                elif base in kw:
                    be = kw[base]
                else:
                    return n
                expr = copy.deepcopy(be)
                # attribute / index path: .a  [0]  [key]
                for tok in re.findall(r"\.[A-Za-z_][A-Za-z_0-9]*|\[[^\]]*\]", rest):
                    if tok.startswith("."):
                        expr = ast.Attribute(value=expr, attr=tok[1:], ctx=ast.Load())
                    else:
                        key = tok[1:-1]
                        expr = ast.Subscript(value=expr, slice=ast.Constant(value=int(key) if key.isdigit() else key), ctx=ast.Load())
                if "".join(re.findall(r"\.[A-Za-z_][A-Za-z_0-9]*|\[[^\]]*\]", rest)) != rest:
                    return n
                fv = ast.FormattedValue(value=expr, conversion={None: -1, "s": 115, "r": 114, "a": 97}[conv],
                                        format_spec=ast.JoinedStr(values=[ast.Constant(value=spec)]) if spec else None)
                values.append(fv)
            if not any(isinstance(v, ast.FormattedValue) for v in values):
                return n
            return ast.copy_location(ast.JoinedStr(values=values), n)
    t2 = T().visit(copy.deepcopy(tree))
    ast.fix_missing_locations(t2)
    return t2


def builder_loops(tree: ast.Module) -> ast.Module:
    """`L = []` immediately followed by `for x in IT: [if C:] L.append(E)` (or `L.extend(E)`, or nested loops of that shape)
    ==>  `L = [E for x in IT if C]`  (`[y for x in IT if C for y in E]` for extend).
    The loop form and the comprehension form of one collection are the same to every rule."""
    changed = False

    def uses(e, name):
        return any(isinstance(n, ast.Name) and n.id == name for n in ast.walk(e))

    host = [None]

    def fold_locals(body):
        """`t = E; L.append(t)` inside the loop == `L.append(E)` when t lives only there (one store, every load in this body)"""
        body = list(body)
        while len(body) > 1 and isinstance(body[0], ast.Assign) and len(body[0].targets) == 1 and isinstance(body[0].targets[0], ast.Name) and host[0] is not None:
            t = body[0].targets[0].id
            stores = [n for n in ast.walk(host[0]) if isinstance(n, ast.Name) and n.id == t and isinstance(n.ctx, (ast.Store, ast.Del))]
            loads_all = [n for n in ast.walk(host[0]) if isinstance(n, ast.Name) and n.id == t and isinstance(n.ctx, ast.Load)]
            loads_here = [n for b in body[1:] for n in ast.walk(b) if isinstance(n, ast.Name) and n.id == t and isinstance(n.ctx, ast.Load)]
            if len(stores) != 1 or len(loads_all) != len(loads_here) or not 1 <= len(loads_here) <= 2:
                break
            import copy as _c0
            val = body[0].value

            class _S(ast.NodeTransformer):
                def visit_Name(self, n):
                    return _c0.deepcopy(val) if n.id == t and isinstance(n.ctx, ast.Load) else n
            body = [_S().visit(b) for b in body[1:]]
        return body

    def shape(st, name, gens):
        """-> (elt, generators) when `st` is a loop nest that only feeds `name`; else None"""
        if isinstance(st, ast.For) and not st.orelse and len(st.body) > 1:
            st.body = fold_locals(st.body)
        if isinstance(st, ast.For) and not st.orelse and len(st.body) == 1 and not uses(st.iter, name):
            g = ast.comprehension(target=st.target, iter=st.iter, ifs=[], is_async=0)
            return shape(st.body[0], name, gens + [g])
        if isinstance(st, ast.If) and not st.orelse and len(st.body) == 1 and gens and not uses(st.test, name):
            gens[-1].ifs.append(st.test)
            return shape(st.body[0], name, gens)
        if isinstance(st, ast.Expr) and isinstance(st.value, ast.Call) and isinstance(st.value.func, ast.Attribute) and isinstance(st.value.func.value, ast.Name) \
                and st.value.func.value.id == name and len(st.value.args) == 1 and not st.value.keywords and gens and not uses(st.value.args[0], name):
            if st.value.func.attr == "append":
                return st.value.args[0], gens
            if st.value.func.attr == "extend":
                v = f"_x{len(gens)}"
                return ast.Name(id=v, ctx=ast.Load()), gens + [ast.comprehension(target=ast.Name(id=v, ctx=ast.Store()), iter=st.value.args[0], ifs=[], is_async=0)]
        # D[k] = v  (dictionary builder)
        if isinstance(st, ast.Assign) and len(st.targets) == 1 and isinstance(st.targets[0], ast.Subscript) and isinstance(st.targets[0].value, ast.Name) \
                and st.targets[0].value.id == name and gens and not uses(st.value, name) and not uses(st.targets[0].slice, name):
            return ("dict", st.targets[0].slice, st.value), gens
        return None

    def block(stmts):
        nonlocal changed
        out = []
        i = 0
        while i < len(stmts):
            st = stmts[i]
            for f in ("body", "orelse", "finalbody"):
                b = getattr(st, f, None)
                if isinstance(b, list) and b and isinstance(b[0], ast.stmt):
                    setattr(st, f, block(b))
            if isinstance(st, ast.Try):
                for h in st.handlers:
                    h.body = block(h.body)
            tgt = None
            is_d = False

            def empty_l(v):
                return isinstance(v, ast.List) and not v.elts

            def empty_d(v):
                return isinstance(v, ast.Dict) and not v.keys
            if isinstance(st, ast.Assign) and len(st.targets) == 1 and isinstance(st.targets[0], ast.Name) and (empty_l(st.value) or empty_d(st.value)):
                tgt, is_d = st.targets[0].id, empty_d(st.value)
            elif isinstance(st, ast.AnnAssign) and isinstance(st.target, ast.Name) and st.value is not None and (empty_l(st.value) or empty_d(st.value)):
                tgt, is_d = st.target.id, empty_d(st.value)
            if tgt is not None and i + 1 < len(stmts) and isinstance(stmts[i + 1], ast.For):
                import copy as _c
                sh = shape(_c.deepcopy(stmts[i + 1]), tgt, [])
                if sh is not None and (isinstance(sh[0], tuple) == is_d):
                    elt, gens = sh
                    comp = ast.DictComp(key=elt[1], value=elt[2], generators=gens) if is_d else ast.ListComp(elt=elt, generators=gens)
                    new = ast.copy_location(ast.Assign(targets=[ast.Name(id=tgt, ctx=ast.Store())], value=ast.copy_location(comp, stmts[i + 1]), lineno=st.lineno), st)
                    out.append(new)
                    changed = True
                    i += 2
                    continue
            out.append(st)
            i += 1
        return out

    import copy as _c2
    t2 = _c2.deepcopy(tree)
    for n in ast.walk(t2):
        if isinstance(n, (ast.FunctionDef, ast.AsyncFunctionDef)):
            host[0] = n
            n.body = block(n.body)
    if changed:
        ast.fix_missing_locations(t2)
        return t2
    return tree


def suppress_blocks(tree: ast.Module) -> ast.Module:
    """`with contextlib.suppress(E1, E2): BODY`  ==>  `try: BODY` / `except (E1, E2): pass`  (that is what it does)"""
    changed = False

    class T(ast.NodeTransformer):
        def visit_With(self, n):
            nonlocal changed
            self.generic_visit(n)
            if len(n.items) == 1 and n.items[0].optional_vars is None and isinstance(n.items[0].context_expr, ast.Call):
                c = n.items[0].context_expr
                if ast.unparse(c.func) in ("contextlib.suppress", "suppress") and c.args and not c.keywords:
                    typ = c.args[0] if len(c.args) == 1 else ast.Tuple(elts=list(c.args), ctx=ast.Load())
                    h = ast.ExceptHandler(type=typ, name=None, body=[ast.copy_location(ast.Pass(), n)])
                    changed = True
                    return ast.copy_location(ast.Try(body=n.body, handlers=[ast.copy_location(h, n)], orelse=[], finalbody=[]), n)
            return n
    t2 = T().visit(copy.deepcopy(tree))
    if changed:
        ast.fix_missing_locations(t2)
        return t2
    return tree


def loop_guards(tree: ast.Module) -> ast.Module:
    """Two loop idioms are brought to the form the rules read:
       for x in xs:                          for x in xs:
           if c: continue        ==>             if not c:
           REST                                      REST
    (a guard clause at the top level of a loop body is the nested `if` with the negated test), and
       while True:                           _again = True
           BODY                  ==>         while _again:
           if not C: break                       BODY
                                                 _again = C
    (a loop that tests at the end of each iteration).  Only when the body has no other break / continue at that level."""
    changed = False
    counter = [0]

    def own_exits(stmts, kinds):
        """break/continue statements that belong to THIS loop (not to a nested loop or function)"""
        out = []

        def go(n):
            if isinstance(n, kinds):
                out.append(n)
            if isinstance(n, (ast.For, ast.While, ast.FunctionDef, ast.AsyncFunctionDef, ast.Lambda, ast.ClassDef)):
                return
            for c in ast.iter_child_nodes(n):
                go(c)
        for st in stmts:
            if isinstance(st, (ast.For, ast.While)):
                for c in st.orelse:
                    go(c)
                continue
            go(st)
        return out

    def fold_continue(body):
        nonlocal changed
        for i, st in enumerate(body):
            if isinstance(st, ast.Try) and not st.orelse and not st.finalbody and st.handlers and body[i + 1:] \
                    and all(h.body and isinstance(h.body[-1], ast.Continue) for h in st.handlers):
                # `try: A except E: B; continue` + REST  ==>  `try: A except E: B else: REST`
                rest = fold_continue(body[i + 1:])
                hs = [ast.copy_location(ast.ExceptHandler(type=h.type, name=h.name, body=(h.body[:-1] or [ast.copy_location(ast.Pass(), h)])), h) for h in st.handlers]
                new = ast.copy_location(ast.Try(body=st.body, handlers=hs, orelse=rest, finalbody=[]), st)
                changed = True
                return body[:i] + [new]
            if isinstance(st, ast.If) and not st.orelse and len(st.body) > 1 and isinstance(st.body[-1], ast.Continue) and body[i + 1:]:
                # `if c: A; continue` + REST  ==>  `if c: A else: REST`
                rest = fold_continue(body[i + 1:])
                new = ast.copy_location(ast.If(test=st.test, body=st.body[:-1], orelse=rest), st)
                changed = True
                return body[:i] + [new]
            if isinstance(st, ast.If) and not st.orelse and len(st.body) == 1 and isinstance(st.body[0], ast.Continue) and body[i + 1:]:
                rest = fold_continue(body[i + 1:])
                neg = st.test.operand if isinstance(st.test, ast.UnaryOp) and isinstance(st.test.op, ast.Not) else ast.UnaryOp(op=ast.Not(), operand=st.test)
                if isinstance(st.test, ast.Compare) and len(st.test.ops) == 1:
                    flip = {ast.In: ast.NotIn, ast.NotIn: ast.In, ast.Is: ast.IsNot, ast.IsNot: ast.Is, ast.Eq: ast.NotEq, ast.NotEq: ast.Eq}
                    for a_, b_ in flip.items():
                        if isinstance(st.test.ops[0], a_):
                            neg = ast.Compare(left=st.test.left, ops=[b_()], comparators=st.test.comparators)
                            break
                new = ast.copy_location(ast.If(test=ast.copy_location(neg, st.test), body=rest, orelse=[]), st)
                changed = True
                return body[:i] + [new]
        return body

    def visit_block(stmts):
        nonlocal changed
        out = []
        for st in stmts:
            for f_ in ("body", "orelse", "finalbody"):
                b = getattr(st, f_, None)
                if isinstance(b, list) and b and isinstance(b[0], ast.stmt) and not isinstance(st, ast.ClassDef):
                    setattr(st, f_, visit_block(b))
            if isinstance(st, ast.Try):
                for h in st.handlers:
                    h.body = visit_block(h.body)
            if isinstance(st, (ast.For, ast.While)):
                # guard clauses: only `continue`s that are the guards themselves
                conts = own_exits(st.body, (ast.Continue,))
                guards_ = [x for x in st.body if isinstance(x, ast.If) and not x.orelse and isinstance(x.body[-1], ast.Continue)]
                tguards = [x for x in st.body if isinstance(x, ast.Try) and not x.orelse and not x.finalbody and x.handlers
                           and all(h.body and isinstance(h.body[-1], ast.Continue) for h in x.handlers)]
                tconts = [h.body[-1] for x in tguards for h in x.handlers]
                if conts and len(conts) == len(guards_) + len(tconts) and all(any(c is g.body[-1] for g in guards_) or any(c is tc for tc in tconts) for c in conts) \
                        and st.body[-1] not in guards_ and st.body[-1] not in tguards:
                    st.body = fold_continue(st.body)
            if isinstance(st, ast.While) and isinstance(st.test, ast.Constant) and st.test.value is True and not st.orelse and len(st.body) >= 2:
                last = st.body[-1]
                brks = own_exits(st.body, (ast.Break,))
                conts = own_exits(st.body, (ast.Continue,))
                if isinstance(last, ast.If) and not last.orelse and len(last.body) == 1 and isinstance(last.body[0], ast.Break) and len(brks) == 1 and not conts \
                        and not any(isinstance(x, ast.Return) for b in st.body for x in ast.walk(b)):
                    counter[0] += 1
                    flag = f"_again{counter[0]}"
                    t = last.test
                    cont = t.operand if isinstance(t, ast.UnaryOp) and isinstance(t.op, ast.Not) else ast.UnaryOp(op=ast.Not(), operand=t)
                    init = ast.copy_location(ast.Assign(targets=[ast.Name(id=flag, ctx=ast.Store())], value=ast.Constant(value=True)), st)
                    upd = ast.copy_location(ast.Assign(targets=[ast.Name(id=flag, ctx=ast.Store())], value=cont), last)
                    st.test = ast.copy_location(ast.Name(id=flag, ctx=ast.Load()), st.test)
                    st.body = st.body[:-1] + [upd]
                    out.append(init)
                    changed = True
            out.append(st)
        return out

    def fold_return_guards(fn):
        """a procedure whose only returns are bare guard clauses at its top level: `if c: return` + REST ==> `if not c: REST`
        (after which it has no return left and inline_helpers can write it out where it is called)"""
        nonlocal changed
        rets = [x for x in ast.walk(fn) if isinstance(x, ast.Return)]
        nested = [x for st in fn.body for x in ast.walk(st) if isinstance(x, (ast.FunctionDef, ast.AsyncFunctionDef, ast.Lambda))]
        if not rets or nested or any(r.value is not None and not (isinstance(r.value, ast.Constant) and r.value.value is None) for r in rets):
            return
        guards_ = [st for st in fn.body if isinstance(st, ast.If) and not st.orelse and len(st.body) == 1 and isinstance(st.body[0], ast.Return)]
        tail_ret = [st for st in fn.body[-1:] if isinstance(st, ast.Return)]
        if len(guards_) + len(tail_ret) != len(rets) or not guards_:
            return

        def fold(body):
            for i, st in enumerate(body):
                if st in guards_:
                    rest = fold(body[i + 1:])
                    if not rest:
                        return body[:i]
                    t = st.test
                    neg = t.operand if isinstance(t, ast.UnaryOp) and isinstance(t.op, ast.Not) else ast.UnaryOp(op=ast.Not(), operand=t)
                    if isinstance(t, ast.Compare) and len(t.ops) == 1:
                        flip = {ast.In: ast.NotIn, ast.NotIn: ast.In, ast.Is: ast.IsNot, ast.IsNot: ast.Is, ast.Eq: ast.NotEq, ast.NotEq: ast.Eq}
                        for a_, b_ in flip.items():
                            if isinstance(t.ops[0], a_):
                                neg = ast.Compare(left=t.left, ops=[b_()], comparators=t.comparators)
                                break
                    return body[:i] + [ast.copy_location(ast.If(test=ast.copy_location(neg, t), body=rest, orelse=[]), st)]
            return [st for st in body if not isinstance(st, ast.Return)]
        new = fold(list(fn.body))
        if new and new != fn.body:
            fn.body = new
            changed = True

    t2 = copy.deepcopy(tree)
    for n in ast.walk(t2):
        if isinstance(n, (ast.FunctionDef, ast.AsyncFunctionDef)):
            n.body = visit_block(n.body)
            if n.name not in vocab() and not n.name.startswith("__"):
                fold_return_guards(n)
    if changed:
        ast.fix_missing_locations(t2)
        return t2
    return tree


def search_helpers(tree: ast.Module) -> ast.Module:
    """A helper (a name no rule knows) whose whole body is a first-match search
           for T in IT:  if P: return E          [return D]
    ==> `return next((E for T in IT if P), D)`: an expression helper, which inline_helpers then writes out at its call
    sites, where core/search.py reads it as the `next(...)` form of the search."""
    voc = vocab()
    changed = False
    t2 = copy.deepcopy(tree)
    for n in ast.walk(t2):
        if not isinstance(n, ast.FunctionDef) or n.name in voc or n.name.startswith("__"):
            continue
        body = _body(n)
        if not (1 <= len(body) <= 2 and isinstance(body[0], ast.For) and not body[0].orelse and len(body[0].body) == 1):
            continue
        lp = body[0]
        inner = lp.body[0]
        if not (isinstance(inner, ast.If) and not inner.orelse and len(inner.body) == 1 and isinstance(inner.body[0], ast.Return) and inner.body[0].value is not None):
            continue
        dflt = ast.Constant(value=None)
        if len(body) == 2:
            if not (isinstance(body[1], ast.Return)):
                continue
            dflt = body[1].value if body[1].value is not None else dflt
        if sum(1 for x in ast.walk(n) if isinstance(x, (ast.Return, ast.For, ast.While, ast.Break, ast.Continue, ast.Yield, ast.YieldFrom))) != 1 + len(body):
            continue
        gen = ast.GeneratorExp(elt=inner.body[0].value, generators=[ast.comprehension(target=lp.target, iter=lp.iter, ifs=[inner.test], is_async=0)])
        new = ast.Return(value=ast.Call(func=ast.Name(id="next", ctx=ast.Load()), args=[gen, dflt], keywords=[]))
        ast.copy_location(new, lp)
        doc = n.body[:len(n.body) - len(body)]
        n.body = doc + [new]
        changed = True
    if changed:
        ast.fix_missing_locations(t2)
        return t2
    return tree


def inline_helpers(tree: ast.Module, force: frozenset = frozenset()) -> ast.Module:
    """`force`: helper names inlined although the rules know them by name -- used by rules that read ONE normal form (the
    inlined one) of a host function, so that 'helper present' and 'helper written out in the host' are the same to them."""
    voc = vocab() - set(force)
    # candidates: module-level functions and methods of module-level classes
    cands: dict[tuple[str | None, str], ast.FunctionDef] = {}
    for n in tree.body:
        if isinstance(n, ast.FunctionDef) and n.name not in voc and not n.name.startswith("__"):
            cands[(None, n.name)] = n
        if isinstance(n, ast.ClassDef):
            for m in n.body:
                if isinstance(m, ast.FunctionDef) and m.name not in voc and not m.name.startswith("__"):
                    cands[(n.name, m.name)] = m
    cands = {k: f for k, f in cands.items() if _eligible(f)}
    if not cands:
        return tree
    # reference counts by simple name (a name used as a value, or called, anywhere in the module)
    names = {k[1] for k in cands}
    refs: dict[str, int] = {nm: 0 for nm in names}
    for x in ast.walk(tree):
        if isinstance(x, ast.Name) and x.id in refs and isinstance(x.ctx, ast.Load):
            refs[x.id] += 1
        elif isinstance(x, ast.Attribute) and x.attr in refs:
            refs[x.attr] += 1
    def small(f):
        # (no try / loops: helpers built around them are idioms the engines read at the function boundary)
        return sum(1 for x in ast.walk(f) if isinstance(x, ast.stmt)) <= 12 and not any(isinstance(x, (ast.Try, ast.For, ast.While)) for x in ast.walk(f))
    single = {k: f for k, f in cands.items() if (refs[k[1]] == 1 or (2 <= refs[k[1]] <= 3 and small(f))) and sum(1 for kk in cands if kk[1] == k[1]) == 1}
    # expression helpers (`def h(a, b): return <expr>`) are substituted at every call site, wherever it is
    exprh = {k: f for k, f in cands.items() if k not in single and len(_body(f)) == 1 and isinstance(_body(f)[0], ast.Return) and _body(f)[0].value is not None
             and sum(1 for kk in cands if kk[1] == k[1]) == 1 and 1 <= refs[k[1]] <= 6}
    if not single and not exprh:
        return tree
    tree = copy.deepcopy(tree)
    if exprh:
        by_name = {k[1]: (k[0], f) for k, f in exprh.items()}

        class Sub(ast.NodeTransformer):
            def visit_Call(self, n):
                self.generic_visit(n)
                f = n.func
                nm = None
                if isinstance(f, ast.Name) and f.id in by_name and by_name[f.id][0] is None:
                    nm = f.id
                elif isinstance(f, ast.Attribute) and f.attr in by_name and by_name[f.attr][0] is not None and isinstance(f.value, ast.Name) \
                        and (f.value.id in ("self", "cls") or f.value.id == by_name[f.attr][0]):
                    nm = f.attr
                if nm is None:
                    return n
                cls_name, fn = by_name[nm]
                params = [a.arg for a in fn.args.args]
                is_method = cls_name is not None and not any(isinstance(d, ast.Name) and d.id == "staticmethod" for d in fn.decorator_list)
                mapping: dict[str, ast.AST] = {}
                if is_method and params:
                    mapping[params[0]] = f.value
                    params = params[1:]
                if len(n.args) > len(params) or any(isinstance(a, ast.Starred) for a in n.args):
                    return n
                for p_, a in zip(params, n.args):
                    mapping[p_] = a
                for kw in n.keywords:
                    if kw.arg is None or kw.arg not in params:
                        return n
                    mapping[kw.arg] = kw.value
                dflt = dict(zip([a.arg for a in fn.args.args][len(fn.args.args) - len(fn.args.defaults):], fn.args.defaults))
                for p_ in params:
                    if p_ not in mapping:
                        if p_ not in dflt:
                            return n
                        mapping[p_] = dflt[p_]

                class P(ast.NodeTransformer):
                    def visit_Name(self, m):
                        if m.id in mapping and isinstance(m.ctx, ast.Load):
                            return copy.deepcopy(mapping[m.id])
                        return m
                e = P().visit(copy.deepcopy(_body(fn)[0].value))
                return ast.copy_location(e, n)
        # do not rewrite inside the helpers' own definitions
        for top in tree.body:
            targets = [top] if not isinstance(top, ast.ClassDef) else list(top.body)
            for t in targets:
                if isinstance(t, ast.FunctionDef) and any(t.name == k[1] for k in exprh):
                    continue
                idx_owner = tree.body if not isinstance(top, ast.ClassDef) else top.body
                idx_owner[idx_owner.index(t)] = Sub().visit(t)
        ast.fix_missing_locations(tree)
    if not single:
        return tree
    # re-find definitions in the copy
    defs: dict[str, tuple[str | None, ast.FunctionDef]] = {}
    for n in tree.body:
        if isinstance(n, ast.FunctionDef) and (None, n.name) in single:
            defs[n.name] = (None, n)
        if isinstance(n, ast.ClassDef):
            for m in n.body:
                if isinstance(m, ast.FunctionDef) and (n.name, m.name) in single:
                    defs[m.name] = (n.name, m)
    counter = [0]
    RESULT_ALIAS = [None]

    # A multi-statement helper called once per element of a list comprehension cannot be inlined inside the comprehension:
    # the comprehension statement is first unfolded into its loop form (`L = []` / `for …: L.append(E)`), where it can.
    def _calls_helper(e):
        # (helpers built around try/except are left as functions: the type engine reads the token-or-tree idiom
        #  `try: x.children… except AttributeError: x.value` per argument alternative, which needs the function boundary)
        def plain(fn_):
            return not any(isinstance(y, ast.Try) for y in ast.walk(fn_))
        for x in ast.walk(e):
            if isinstance(x, ast.Call):
                f = x.func
                if isinstance(f, ast.Name) and f.id in defs and defs[f.id][0] is None and plain(defs[f.id][1]):
                    return True
                if isinstance(f, ast.Attribute) and f.attr in defs and defs[f.attr][0] is not None and isinstance(f.value, ast.Name) \
                        and (f.value.id in ("self", "cls") or f.value.id == defs[f.attr][0]) and plain(defs[f.attr][1]):
                    return True
        return False

    def unfold_block(stmts):
        out = []
        for st in stmts:
            for f_ in ("body", "orelse", "finalbody"):
                b = getattr(st, f_, None)
                if isinstance(b, list) and b and isinstance(b[0], ast.stmt) and not isinstance(st, (ast.FunctionDef, ast.ClassDef)):
                    setattr(st, f_, unfold_block(b))
            if isinstance(st, ast.Try):
                for h in st.handlers:
                    h.body = unfold_block(h.body)
            comp = None
            if isinstance(st, ast.Return) and isinstance(st.value, ast.ListComp):
                comp, tname = st.value, None
            elif isinstance(st, ast.Assign) and len(st.targets) == 1 and isinstance(st.targets[0], ast.Name) and isinstance(st.value, ast.ListComp):
                comp, tname = st.value, st.targets[0].id
            if comp is not None and _calls_helper(comp.elt) and not any(_calls_helper(g.iter) or any(_calls_helper(i) for i in g.ifs) for g in comp.generators):
                counter[0] += 1
                lname = tname or f"items{counter[0]}"
                body = [ast.Expr(value=ast.Call(func=ast.Attribute(value=ast.Name(id=lname, ctx=ast.Load()), attr="append", ctx=ast.Load()), args=[comp.elt], keywords=[]))]
                for g in reversed(comp.generators):
                    for cond in reversed(g.ifs):
                        body = [ast.If(test=cond, body=body, orelse=[])]
                    body = [ast.For(target=g.target, iter=g.iter, body=body, orelse=[])]
                init = ast.Assign(targets=[ast.Name(id=lname, ctx=ast.Store())], value=ast.List(elts=[], ctx=ast.Load()))
                new = [init] + body + ([ast.Return(value=ast.Name(id=lname, ctx=ast.Load()))] if tname is None else [])
                for n_ in new:
                    ast.copy_location(n_, st)
                    ast.fix_missing_locations(n_)
                out += new
                continue
            out.append(st)
        return out
    for n_ in ast.walk(tree):
        if isinstance(n_, ast.FunctionDef) and not any(n_ is d[1] for d in defs.values()):
            n_.body = unfold_block(n_.body)

    def call_of(e):
        """(name, callee, receiver-kind) when e is a call of an inlinable helper"""
        if not isinstance(e, ast.Call):
            return None
        f = e.func
        if isinstance(f, ast.Name) and f.id in defs and defs[f.id][0] is None:
            return f.id
        if isinstance(f, ast.Attribute) and f.attr in defs and defs[f.attr][0] is not None and isinstance(f.value, ast.Name) \
                and (f.value.id in ("self", "cls") or f.value.id == defs[f.attr][0]):
            return f.attr
        return None

    def expand_call(call: ast.Call, name: str, make_ret, host_locals: set[str]):
        cls_name, fn = defs[name]
        counter[0] += 1
        sfx = f"__{name.strip('_')}{counter[0]}"
        params = [a.arg for a in fn.args.args]
        is_method = cls_name is not None and not any(isinstance(d, ast.Name) and d.id == "staticmethod" for d in fn.decorator_list)
        recv = None
        if is_method and params:
            recv = params[0]
            params = params[1:]
        defaults = dict(zip([a.arg for a in fn.args.args][len(fn.args.args) - len(fn.args.defaults):], fn.args.defaults))
        kwdefaults = {a.arg: d for a, d in zip(fn.args.kwonlyargs, fn.args.kw_defaults) if d is not None}
        allp = params + [a.arg for a in fn.args.kwonlyargs]
        given: dict[str, ast.AST] = {}
        for p, a in zip(params, call.args):
            if isinstance(a, ast.Starred):
                return None
            given[p] = a
        if len(call.args) > len(params):
            return None
        for kw in call.keywords:
            if kw.arg is None or kw.arg not in allp:
                return None
            given[kw.arg] = kw.value
        for p in allp:
            if p not in given:
                d = defaults.get(p, kwdefaults.get(p))
                if d is None:
                    return None
                given[p] = copy.deepcopy(d)
        mapping = {l: l + sfx for l in _locals_of(fn) if l != recv}
        if RESULT_ALIAS[0] is not None:
            mapping[RESULT_ALIAS[0][0]] = RESULT_ALIAS[0][1]
        if recv is not None:
            # the receiver is the caller's own self / cls (or the class itself): keep the name when it is the same, else map it
            r = call.func.value.id
            mapping[recv] = r
        # a parameter that the callee never rebinds and that receives a plain name needs no binding: use the caller's name
        stored = {x.id for x in ast.walk(fn) if isinstance(x, ast.Name) and isinstance(x.ctx, (ast.Store, ast.Del))}
        def simple(e):
            return isinstance(e, (ast.Name, ast.Constant)) or (isinstance(e, ast.Attribute) and simple(e.value))
        direct = [p for p in allp if simple(given[p]) and p not in stored]
        for p in direct:
            mapping[p] = given[p].id if isinstance(given[p], ast.Name) else given[p]
        pre = [ast.copy_location(ast.Assign(targets=[ast.Name(id=mapping[p], ctx=ast.Store())], value=given[p], lineno=call.lineno), call) for p in allp if p not in direct]
        body = copy.deepcopy(_body(fn))
        body = [_Rename(mapping).visit(st) for st in body]
        conv = _convert(body, make_ret)
        out = pre + conv
        for st in out:
            ast.fix_missing_locations(st)
        return out

    def process_block(block: list, host: ast.FunctionDef) -> list:
        out = []
        for st in block:
            # recurse into compound statements first
            for f in ("body", "orelse", "finalbody"):
                b = getattr(st, f, None)
                if isinstance(b, list) and b and isinstance(b[0], ast.stmt) and not isinstance(st, (ast.FunctionDef, ast.ClassDef)):
                    setattr(st, f, process_block(b, host))
            if isinstance(st, ast.Try):
                for h in st.handlers:
                    h.body = process_block(h.body, host)
            done = False
            if isinstance(st, ast.Expr) and (nm := call_of(st.value)) and defs[nm][1] is not host and _is_procedure(defs[nm][1]):
                new = expand_call(st.value, nm, lambda r: [], set())
                if new is not None:
                    out += new
                    done = True
            elif isinstance(st, ast.Return) and st.value is not None and (nm := call_of(st.value)) and defs[nm][1] is not host:
                new = expand_call(st.value, nm, lambda r: [r], set())
                if new is not None:
                    out += new
                    done = True
            elif isinstance(st, (ast.Assign, ast.AnnAssign)) and st.value is not None and (nm := call_of(st.value)) and defs[nm][1] is not host:
                tg = st.targets[0] if isinstance(st, ast.Assign) else st.target
                def _simple_target(e):
                    return isinstance(e, ast.Name) or (isinstance(e, ast.Attribute) and _simple_target(e.value))
                if isinstance(tg, ast.Attribute) and _simple_target(tg) and (not isinstance(st, ast.Assign) or len(st.targets) == 1):
                    # obj.attr = helper(...): every `return X` becomes `obj.attr = X`
                    new = expand_call(st.value, nm, lambda r, tg=tg: [ast.copy_location(ast.Assign(targets=[copy.deepcopy(tg)], value=r.value, lineno=r.lineno), r)], set())
                    if new is not None:
                        out += new
                        done = True
                        continue
                if isinstance(tg, ast.Name) and (not isinstance(st, ast.Assign) or len(st.targets) == 1):
                    rets_ = [r_ for r_ in ast.walk(defs[nm][1]) if isinstance(r_, ast.Return)]
                    plist = [a.arg for a in defs[nm][1].args.args + defs[nm][1].args.kwonlyargs]
                    if len(rets_) == 1 and isinstance(rets_[0].value, ast.Name) and rets_[0].value.id not in plist and (tg.id == rets_[0].value.id or tg.id not in _locals_of(defs[nm][1])) \
                            and not any(isinstance(x, ast.Name) and x.id == tg.id for x in ast.walk(st.value)):
                        # the helper builds its result in one local and returns it: that local IS the caller's target
                        RESULT_ALIAS[0] = (rets_[0].value.id, tg.id)
                        new = expand_call(st.value, nm, lambda r: [], set())
                        RESULT_ALIAS[0] = None
                        if new is not None:
                            out += new
                            done = True
                            continue
                    new = expand_call(st.value, nm, lambda r, tg=tg, st=st: [ast.copy_location(ast.Assign(targets=[ast.Name(id=tg.id, ctx=ast.Store())], value=r.value, lineno=r.lineno), r)],
                                      set())
                    if new is not None:
                        out += new
                        done = True
            if not done and isinstance(st, ast.Assign) and len(st.targets) == 1 and isinstance(st.targets[0], ast.Tuple) and (nm := call_of(st.value)) \
                    and defs[nm][1] is not host:
                # a, b = helper(...) where the helper ends in `return x, y` of already computed locals: a = x ; b = y
                rets_ = [r_ for r_ in ast.walk(defs[nm][1]) if isinstance(r_, ast.Return)]
                tg = st.targets[0]
                tnames = {x.id for x in tg.elts if isinstance(x, ast.Name)}          # names REBOUND by the assignment (item stores rebind nothing)
                if rets_ and all(isinstance(r_.value, ast.Tuple) and len(r_.value.elts) == len(tg.elts)
                                 and not any(isinstance(e_, ast.Starred) for e_ in r_.value.elts) for r_ in rets_) \
                        and not any(isinstance(e_, ast.Starred) for e_ in tg.elts) \
                        and not any(isinstance(a_, ast.Name) and a_.id in tnames for a_ in list(st.value.args) + [k_.value for k_ in st.value.keywords]):
                    # (callee locals are renamed with a suffix, so only caller names passed as arguments could clash with the targets)
                    def mk(r, tg=tg):
                        return [ast.copy_location(ast.Assign(targets=[t_], value=v_, lineno=r.lineno), r) for t_, v_ in zip(tg.elts, r.value.elts)]
                    new = expand_call(st.value, nm, mk, set())
                    if new is not None:
                        out += new
                        done = True
            if not done and isinstance(st, (ast.Assign, ast.AnnAssign, ast.AugAssign, ast.Expr, ast.Return, ast.For, ast.If)):
                # a helper call nested in the statement's expression (not under a comprehension / lambda): hoist to a temp.
                # For a loop / an if only the header expression (evaluated once, before the body) is considered.
                target_call = None
                blocked: set[int] = set()
                if isinstance(st, (ast.For, ast.If)):
                    for f_ in ("body", "orelse"):
                        for sub in getattr(st, f_, []):
                            for y in ast.walk(sub):
                                blocked.add(id(y))
                    if isinstance(st, ast.For):
                        for y in ast.walk(st.target):
                            blocked.add(id(y))
                for x in ast.walk(st):
                    if isinstance(x, (ast.ListComp, ast.SetComp, ast.DictComp, ast.GeneratorExp, ast.Lambda, ast.IfExp, ast.BoolOp)):
                        for y in ast.walk(x):
                            if y is not x:
                                blocked.add(id(y))
                for x in ast.walk(st):
                    if id(x) not in blocked and (nm := call_of(x)) and defs[nm][1] is not host and not _is_procedure(defs[nm][1]):
                        target_call = (x, nm)
                        break
                if target_call is not None:
                    x, nm = target_call
                    counter[0] += 1
                    tmp = f"{nm.strip('_')}_value{counter[0]}"
                    rets_ = [r_ for r_ in ast.walk(defs[nm][1]) if isinstance(r_, ast.Return)]
                    if len(rets_) == 1 and isinstance(rets_[0].value, ast.Name) and rets_[0].value.id in _locals_of(defs[nm][1]) \
                            and rets_[0].value.id not in [a.arg for a in defs[nm][1].args.args]:
                        # the helper returns one of its own locals: use that (renamed) local directly instead of a temporary
                        tmp = rets_[0].value.id + f"__{nm.strip('_')}{counter[0] + 1}"
                        new = expand_call(x, nm, lambda r: [], set())
                    else:
                        new = expand_call(x, nm, lambda r, tmp=tmp: [ast.copy_location(ast.Assign(targets=[ast.Name(id=tmp, ctx=ast.Store())], value=r.value, lineno=r.lineno), r)], set())
                    if new is not None:
                        class Rep(ast.NodeTransformer):
                            def visit_Call(self, n):
                                if n is x:
                                    return ast.copy_location(ast.Name(id=tmp, ctx=ast.Load()), n)
                                return self.generic_visit(n)
                        st2 = Rep().visit(st)
                        ast.fix_missing_locations(st2)
                        out += new + [st2]
                        done = True
            if not done:
                out.append(st)
        return out

    def visit_funcs(nodes):
        for n in nodes:
            if isinstance(n, ast.FunctionDef):
                counter[0] = 0          # generated names are numbered per host function (sibling functions get the same names)
                n.body = process_block(n.body, n)
                visit_funcs([x for x in n.body if isinstance(x, (ast.FunctionDef, ast.ClassDef))])
            elif isinstance(n, ast.ClassDef):
                visit_funcs(n.body)
    visit_funcs(tree.body)
    ast.fix_missing_locations(tree)
    return tree
