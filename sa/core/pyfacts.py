"""E1 pyfacts: modules, classes, functions (incl. nested), imports, parent maps."""
from __future__ import annotations

import ast
from dataclasses import dataclass, field

from .source import PKG, AnchorMissing, SourceSet

FuncNode = (ast.FunctionDef, ast.AsyncFunctionDef)


@dataclass
class FuncFacts:
    module: str            # short path, e.g. 'dec/dec.py'
    qualname: str          # 'DecFileParser.parse', 'get_jetset_definitions.to_int_or_float'
    node: ast.FunctionDef
    cls: str | None        # enclosing class name if a method
    parent_func: str | None
    decorators: list[str] = field(default_factory=list)

    @property
    def key(self) -> str:
        return f"{self.module}:{self.qualname}"

    @property
    def params(self) -> list[str]:
        a = self.node.args
        names = [x.arg for x in a.posonlyargs + a.args]
        if a.vararg:
            names.append(a.vararg.arg)
        names += [x.arg for x in a.kwonlyargs]
        if a.kwarg:
            names.append(a.kwarg.arg)
        return names

    @property
    def kind(self) -> str:
        if "staticmethod" in self.decorators:
            return "static"
        if "classmethod" in self.decorators:
            return "class"
        if "property" in self.decorators:
            return "property"
        return "method" if self.cls else "function"


@dataclass
class ClassFacts:
    module: str
    name: str
    node: ast.ClassDef
    bases: list[str]
    methods: dict[str, FuncFacts] = field(default_factory=dict)
    class_attrs: dict[str, ast.AST] = field(default_factory=dict)  # name -> value expr (or None)


@dataclass
class ModuleFacts:
    short: str
    tree: ast.Module
    funcs: dict[str, FuncFacts]
    classes: dict[str, ClassFacts]
    imports: dict[str, tuple[str, str | None]]   # local name -> (module dotted (may be relative-resolved), attr)
    globals_: dict[str, ast.AST]                 # module-level simple assignments name -> value


def _dec_name(d: ast.AST) -> str:
    if isinstance(d, ast.Call):
        d = d.func
    if isinstance(d, ast.Attribute):
        return d.attr
    if isinstance(d, ast.Name):
        return d.id
    return ast.unparse(d)


def _resolve_relative(short: str, level: int, module: str | None) -> str:
    # short like 'dec/dec.py' -> package parts ['decaylanguage','dec']
    parts = ["decaylanguage"] + short.split("/")[:-1]
    if short.endswith("__init__.py"):
        pass
    if level:
        parts = parts[: len(parts) - (level - 1)]
        if module:
            parts = parts + module.split(".")
        return ".".join(parts)
    return module or ""


def module_facts(ss: SourceSet, short: str) -> ModuleFacts:
    def build() -> ModuleFacts:
        tree = ss.tree(short)
        funcs: dict[str, FuncFacts] = {}
        classes: dict[str, ClassFacts] = {}
        imports: dict[str, tuple[str, str | None]] = {}
        globals_: dict[str, ast.AST] = {}

        def visit(body, prefix: str, cls: str | None, parent_func: str | None):
            for st in body:
                if isinstance(st, FuncNode):
                    qn = f"{prefix}{st.name}"
                    ff = FuncFacts(short, qn, st, cls if parent_func is None else None,
                                   parent_func, [_dec_name(d) for d in st.decorator_list])
                    funcs[qn] = ff
                    if cls and parent_func is None:
                        classes[cls].methods[st.name] = ff
                    visit_nested(st.body, qn + ".", qn)
                elif isinstance(st, ast.ClassDef) and parent_func is None and cls is None:
                    cf = ClassFacts(short, st.name, st, [ast.unparse(b) for b in st.bases])
                    classes[st.name] = cf
                    for s2 in st.body:
                        if isinstance(s2, ast.Assign):
                            for t in s2.targets:
                                if isinstance(t, ast.Name):
                                    cf.class_attrs[t.id] = s2.value
                        elif isinstance(s2, ast.AnnAssign) and isinstance(s2.target, ast.Name):
                            cf.class_attrs[s2.target.id] = s2.value
                    visit(st.body, st.name + ".", st.name, None)
                elif isinstance(st, (ast.If, ast.Try)) and cls is not None and parent_func is None:
                    # e.g. `if graphviz:` inside a class body
                    for blk in _blocks(st):
                        visit(blk, prefix, cls, None)

        def visit_nested(body, prefix: str, parent: str):
            # nested defs at any statement depth inside the function body
            for st in _iter_stmts(body):
                if isinstance(st, FuncNode):
                    qn = f"{prefix}{st.name}"
                    funcs[qn] = FuncFacts(short, qn, st, None, parent,
                                          [_dec_name(d) for d in st.decorator_list])
                    visit_nested(st.body, qn + ".", qn)

        for st in tree.body:
            if isinstance(st, ast.Import):
                for a in st.names:
                    imports[a.asname or a.name.split(".")[0]] = (a.name, None)
            elif isinstance(st, ast.ImportFrom):
                mod = _resolve_relative(short, st.level, st.module)
                for a in st.names:
                    imports[a.asname or a.name] = (mod, a.name)
            elif isinstance(st, ast.Assign):
                for t in st.targets:
                    if isinstance(t, ast.Name):
                        globals_[t.id] = st.value
            elif isinstance(st, ast.AnnAssign) and isinstance(st.target, ast.Name) and st.value is not None:
                globals_[st.target.id] = st.value
        visit(tree.body, "", None, None)
        return ModuleFacts(short, tree, funcs, classes, imports, globals_)

    return ss.memo(("modfacts", short), build)


def _blocks(st):
    if isinstance(st, ast.If):
        return [st.body, st.orelse]
    if isinstance(st, ast.Try):
        return [st.body, st.orelse, st.finalbody] + [h.body for h in st.handlers]
    return []


def _iter_stmts(body):
    """All statements nested in ``body`` at any depth, not descending into nested
    function or class definitions (those are yielded, not entered)."""
    for st in body:
        yield st
        if isinstance(st, FuncNode + (ast.ClassDef,)):
            continue
        for fld in ("body", "orelse", "finalbody"):
            sub = getattr(st, fld, None)
            if isinstance(sub, list) and sub and isinstance(sub[0], ast.stmt):
                yield from _iter_stmts(sub)
        if isinstance(st, ast.Try):
            for h in st.handlers:
                yield from _iter_stmts(h.body)


def iter_stmts(body):
    return _iter_stmts(body)


def all_modules(ss: SourceSet) -> list[str]:
    out = []
    for r in ss.py_modules():
        out.append(r[len(PKG) + 1:])
    return out


def func(ss: SourceSet, short: str, qualname: str) -> FuncFacts:
    mf = module_facts(ss, short)
    if qualname not in mf.funcs:
        raise AnchorMissing(f"function {short}:{qualname} not found")
    return mf.funcs[qualname]


def klass(ss: SourceSet, short: str, name: str) -> ClassFacts:
    mf = module_facts(ss, short)
    if name not in mf.classes:
        raise AnchorMissing(f"class {short}:{name} not found")
    return mf.classes[name]


def parent_map(node: ast.AST) -> dict[int, ast.AST]:
    pm: dict[int, ast.AST] = {}
    for p in ast.walk(node):
        for c in ast.iter_child_nodes(p):
            pm[id(c)] = p
    return pm


def walk_no_nested(node: ast.AST):
    """ast.walk that does not enter nested function/class/lambda bodies (the node
    itself is yielded even if it is a def)."""
    stack = [node]
    first = True
    while stack:
        n = stack.pop()
        yield n
        if not first and isinstance(n, FuncNode + (ast.ClassDef, ast.Lambda)):
            continue
        first = False
        stack.extend(reversed(list(ast.iter_child_nodes(n))))


def calls_in(node: ast.AST, nested: bool = True):
    it = ast.walk(node) if nested else walk_no_nested(node)
    return [n for n in it if isinstance(n, ast.Call)]


def call_name(c: ast.Call) -> str:
    """Dotted text of the callee ('self._find_decay_modes', 'copy.deepcopy', 'float')."""
    try:
        return ast.unparse(c.func)
    except Exception:  # pragma: no cover
        return "?"


def norm(node: ast.AST) -> str:
    """Normalised statement/expression text: used in construct keys (never line numbers)."""
    s = ast.unparse(node)
    return " ".join(s.split())


def loc(ff: FuncFacts | None, node: ast.AST | None, ss: SourceSet | None = None, short: str | None = None) -> str:
    m = ff.module if ff else short
    ln = getattr(node, "lineno", None) if node is not None else None
    base = f"{PKG}/{m}" if m else "?"
    return f"{base}:{ln}" if ln else base
