"""Verdict discipline, evidence files, known findings, exit codes (DESIGN.md §3)."""
from __future__ import annotations

import json
import os
import time
import traceback
from dataclasses import dataclass, field

from .source import AnchorMissing, GrammarBroken

VERIF = os.path.dirname(os.path.dirname(os.path.dirname(os.path.abspath(__file__))))
# When the analysed tree is not /repo (trial runs against a scratch worktree with a seeded change),
# evidence and replay files go to a scratch directory so that the committed evidence always
# describes a run against /repo itself.
_ALT = os.environ.get("VERIF_REPO", "/repo") != "/repo"
OUTBASE = os.environ.get("VERIF_SCRATCH", "/tmp/verif-trial") if _ALT else VERIF
HOLDS, VIOLATION, UNDECIDED = "HOLDS", "VIOLATION", "UNDECIDED"


@dataclass
class Result:
    rule: str                 # 'C09.3'
    verdict: str
    construct: str            # stable key: qualified name + normalised statement (no line numbers)
    where: str                # file:line (diagnostic only)
    detail: str
    inspected: int = 1        # AST / grammar nodes or table entries inspected for this obligation

    def key(self) -> str:
        return f"{self.rule}|{self.construct}"


class Ctx:
    """Collects results for one property run."""

    def __init__(self, prop: str, tier: str):
        self.prop = prop
        self.tier = tier
        self.results: list[Result] = []
        self.analysed: dict[str, int] = {}
        self.notes: list[str] = []

    def holds(self, rule, construct, where, detail, inspected=1):
        self.results.append(Result(rule, HOLDS, construct, where, detail, inspected))

    def violation(self, rule, construct, where, detail, inspected=1):
        self.results.append(Result(rule, VIOLATION, construct, where, detail, inspected))

    def undecided(self, rule, construct, where, detail):
        self.results.append(Result(rule, UNDECIDED, construct, where, detail, 0))

    def count(self, what: str, n: int = 1):
        self.analysed[what] = self.analysed.get(what, 0) + n

    def floor(self, rule: str, what: str, got: int, need: int):
        """Instance floor: fewer inspected sites than confirmed by hand => UNDECIDED."""
        if got < need:
            self.undecided(rule, f"floor:{what}", "-", f"instance floor not met for {what}: inspected {got} < {need} confirmed by hand")

    def guard(self, rule: str, fn, *a, **k):
        """Run one rule function; an AnchorMissing or an internal error becomes UNDECIDED."""
        try:
            return fn(self, *a, **k)
        except GrammarBroken as e:
            self.violation(rule, "grammar-loads", "src/decaylanguage/data", f"{e}: no input can be parsed with this grammar")
        except AnchorMissing as e:
            self.undecided(rule, "anchor", "-", f"anchor missing / vocabulary not understood: {e}")
        except Exception as e:  # analyser bug: never a silent pass, never a violation
            tb = traceback.format_exc(limit=4).strip().splitlines()
            self.undecided(rule, "analyser", "-", f"analyser raised {type(e).__name__}: {e} [{' | '.join(tb[-3:])}]")
        return None


def load_known() -> list[dict]:
    p = os.path.join(VERIF, "known_findings.json")
    if not os.path.exists(p):
        return []
    with open(p) as f:
        return json.load(f).get("findings", [])


def finish(ctx: Ctx, *, explanation: str, not_decided: list[str], trusted: list[str],
           digest: str, t0: float, seed: int, extra: dict | None = None) -> int:
    """Print the report, write the evidence file, return the exit code."""
    known = [k for k in load_known() if k.get("property") == ctx.prop and k.get("status") == "open"]
    viol = [r for r in ctx.results if r.verdict == VIOLATION]
    und = [r for r in ctx.results if r.verdict == UNDECIDED]
    listed, unlisted = [], []
    for r in viol:
        hit = None
        for k in known:
            if k.get("rule") == r.rule and k.get("construct") == r.construct:
                hit = k
                break
        (listed if hit else unlisted).append((r, hit))

    for r in ctx.results:
        if r.verdict == HOLDS and os.environ.get("VERIF_VERBOSE"):
            print(f"HOLDS {r.rule} {r.where} {r.construct} :: {r.detail}")
    for r, k in listed:
        print(f"KNOWN-FINDING: property={ctx.prop} {k.get('id', '')} {k.get('what', r.detail)} [{r.rule} at {r.where}]")
    os.makedirs(os.path.join(OUTBASE, "out"), exist_ok=True)
    for i, (r, _) in enumerate(unlisted):
        rp = os.path.join(OUTBASE, "out", f"{ctx.prop}-{r.rule}-{i}.json")
        with open(rp, "w") as f:
            json.dump({"property": ctx.prop, "rule": r.rule, "construct": r.construct,
                       "where": r.where, "detail": r.detail, "tier": ctx.tier}, f, indent=1)
        print(f"{r.rule} {r.where}: {r.detail}\n    construct: {r.construct}")
        print(f"VIOLATION property={ctx.prop} replay={rp}")
    for r in und:
        print(f"ANALYSIS-ERROR property={ctx.prop} rule={r.rule} {r.construct}: {r.detail}")

    obligations = len(ctx.results)
    discharged = sum(1 for r in ctx.results if r.verdict == HOLDS)
    distinct = len({r.key() for r in ctx.results if r.inspected > 0})
    samples = [{"rule": r.rule, "verdict": r.verdict, "where": r.where,
                "construct": r.construct[:200], "detail": r.detail[:300]} for r in ctx.results]
    ev = {
        "property_id": ctx.prop,
        "tier": ctx.tier,
        "seed": seed,
        "level": "other",
        "coverage": {
            "explanation": explanation,
            "rule": "one obligation per (rule instance, construct) found in /repo's current source; "
                    "an obligation is non-trivial when it inspected at least one AST / grammar node or table entry; "
                    "distinct = distinct (rule, construct) keys",
            "obligations": obligations,
            "discharged": discharged,
            "evaluations": obligations,
            "distinct_nontrivial": distinct,
            "samples": samples,
            "analysed": ctx.analysed,
            "not_decided": not_decided,
            "known_findings_listed": [k.get("id") for _, k in listed],
            "undecided": len(und),
            "trusted_base": trusted,
            "checker_cmd": f"./check {ctx.prop} {ctx.tier}",
            "source_digest": digest,
            "exhaustive": False,
            **(extra or {}),
        },
        "assumptions": trusted,
        "wall_s": round(time.time() - t0, 3),
        "violations": len(unlisted),
    }
    os.makedirs(os.path.join(OUTBASE, "evidence"), exist_ok=True)
    evp = os.path.join(OUTBASE, "evidence", f"{ctx.prop}.json")
    _validate(ev)
    with open(evp, "w") as f:
        json.dump(ev, f, indent=1)
    print(f"{ctx.prop} [{ctx.tier}]: obligations={obligations} discharged={discharged} "
          f"violations={len(unlisted)} known={len(listed)} undecided={len(und)} "
          f"analysed={ctx.analysed} wall={ev['wall_s']}s")
    if unlisted:
        return 1
    if und:
        return 2
    return 0


def _validate(ev: dict):
    schema_p = "/root/.vp/EVIDENCE.schema.json"
    try:
        import jsonschema
        if os.path.exists(schema_p):
            with open(schema_p) as f:
                jsonschema.validate(ev, json.load(f))
    except ImportError:
        pass
