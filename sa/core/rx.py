"""E8 rx: regular expressions -> NFA -> DFA over a finite representative alphabet;
language inclusion / emptiness / disjointness with shortest witness strings.

Alphabet: the 128 ASCII code points plus representatives of the non-ASCII
classes that matter for the rules (a letter, a digit, a space, a line
separator, U+FEFF, one 'other').  A trailing ``\\b`` is recorded as a flag (it is a
one-character look-around, handled by the rules that need it), any other
zero-width assertion makes the regex unsupported (AnchorMissing).
"""
from __future__ import annotations

try:
    import re._parser as sre_parse          # 3.11+
    import re._constants as sre_c
except ImportError:  # pragma: no cover
    import sre_parse
    import sre_constants as sre_c

from .source import AnchorMissing

NONASCII = ["\u00e9", "\u0660", "\u00a0", "\u2028", "\ufeff", "\u2603"]
ALPHABET = [chr(i) for i in range(128)] + NONASCII
IDX = {c: i for i, c in enumerate(ALPHABET)}
FULL = frozenset(range(len(ALPHABET)))


def _cat(cat) -> frozenset:
    import re
    name = str(cat)
    table = {
        "CATEGORY_DIGIT": r"\d", "CATEGORY_NOT_DIGIT": r"\D",
        "CATEGORY_SPACE": r"\s", "CATEGORY_NOT_SPACE": r"\S",
        "CATEGORY_WORD": r"\w", "CATEGORY_NOT_WORD": r"\W",
    }
    for k, v in table.items():
        if name.endswith(k):
            rx = re.compile(v)
            return frozenset(i for i, c in enumerate(ALPHABET) if rx.fullmatch(c))
    raise AnchorMissing(f"regex category {name} not supported")


class NFA:
    def __init__(self):
        self.n = 0
        self.eps: dict[int, set[int]] = {}
        self.tr: dict[int, list[tuple[frozenset, int]]] = {}

    def new(self) -> int:
        self.n += 1
        return self.n - 1

    def e(self, a, b):
        self.eps.setdefault(a, set()).add(b)

    def t(self, a, cs, b):
        self.tr.setdefault(a, []).append((cs, b))


class Rx:
    """Compiled regular language."""

    def __init__(self, pattern: str, flags: int = 0):
        self.pattern = pattern
        self.trailing_boundary = False
        try:
            parsed = sre_parse.parse(pattern, flags)
        except Exception as e:
            raise AnchorMissing(f"regex does not parse: {pattern!r}: {e}") from e
        items = list(parsed)
        # ^ … $ : the automaton describes the full-match language; the anchors are recorded, not modelled
        self.anchored_start = self.anchored_end = False
        if items and items[0][0] is sre_c.AT and str(items[0][1]).split(".")[-1] in ("AT_BEGINNING", "AT_BEGINNING_STRING"):
            self.anchored_start = True
            items = items[1:]
        if items and items[-1][0] is sre_c.AT and str(items[-1][1]).split(".")[-1] in ("AT_END", "AT_END_STRING"):
            self.anchored_end = True
            items = items[:-1]
        if items and items[-1][0] is sre_c.AT and str(items[-1][1]).endswith("AT_BOUNDARY"):
            self.trailing_boundary = True
            items = items[:-1]
        self._multiline = bool(flags & 8)
        self.nfa = NFA()
        s = self.nfa.new()
        f = self._seq(items, s, bool(flags & 2))
        self.start, self.final = s, f
        self._dfa = None

    # -- Thompson construction ------------------------------------------------------
    def _seq(self, items, s, icase) -> int:
        cur = s
        for op, av in items:
            cur = self._item(op, av, cur, icase)
        return cur

    def _lit(self, ch: int, icase) -> frozenset:
        c = chr(ch)
        cs = set()
        for x in ({c, c.lower(), c.upper()} if icase else {c}):
            if x in IDX:
                cs.add(IDX[x])
            elif len(x) == 1 and ord(x) >= 128:
                cs.add(IDX["\u2603"])  # unknown non-ASCII literal -> 'other' representative
        return frozenset(cs)

    def _set(self, av, icase) -> frozenset:
        neg = False
        cs: set[int] = set()
        for op, a in av:
            if op is sre_c.NEGATE:
                neg = True
            elif op is sre_c.LITERAL:
                cs |= self._lit(a, icase)
            elif op is sre_c.RANGE:
                lo, hi = a
                for i, c in enumerate(ALPHABET):
                    if lo <= ord(c) <= hi:
                        cs.add(i)
                    if icase and (lo <= ord(c.lower()) <= hi or lo <= ord(c.upper()) <= hi):
                        cs.add(i)
            elif op is sre_c.CATEGORY:
                cs |= _cat(a)
            else:
                raise AnchorMissing(f"regex set item {op} not supported")
        return frozenset(FULL - cs) if neg else frozenset(cs)

    def _item(self, op, av, s, icase) -> int:
        n = self.nfa
        if op is sre_c.LITERAL:
            f = n.new()
            n.t(s, self._lit(av, icase), f)
            return f
        if op is sre_c.NOT_LITERAL:
            f = n.new()
            n.t(s, frozenset(FULL - self._lit(av, icase)), f)
            return f
        if op is sre_c.ANY:
            f = n.new()
            n.t(s, frozenset(FULL - {IDX["\n"]}), f)
            return f
        if op is sre_c.IN:
            f = n.new()
            n.t(s, self._set(av, icase), f)
            return f
        if op is sre_c.BRANCH:
            f = n.new()
            for alt in av[1]:
                a = n.new()
                n.e(s, a)
                n.e(self._seq(list(alt), a, icase), f)
            return f
        if op is sre_c.SUBPATTERN:
            group, add_flags, del_flags, p = av
            ic = (icase or bool(add_flags & 2)) and not bool(del_flags & 2)
            return self._seq(list(p), s, ic)
        if op in (sre_c.MAX_REPEAT, sre_c.MIN_REPEAT, getattr(sre_c, "POSSESSIVE_REPEAT", None)):
            lo, hi, p = av
            cur = s
            for _ in range(lo):
                cur = self._seq(list(p), cur, icase)
            if hi is sre_c.MAXREPEAT or hi >= 65535:
                a = n.new()
                n.e(cur, a)
                b = self._seq(list(p), a, icase)
                n.e(b, a)
                return a
            if hi - lo > 64:
                raise AnchorMissing("regex bounded repeat too large")
            f = n.new()
            n.e(cur, f)
            for _ in range(hi - lo):
                cur = self._seq(list(p), cur, icase)
                n.e(cur, f)
            return f
        if op is sre_c.AT and str(av).split(".")[-1] in ("AT_BEGINNING", "AT_BEGINNING_STRING") and not getattr(self, "_multiline", False):
            # `^` after something was consumed (it is not the leading item, which the constructor strips) never matches
            return n.new()       # a fresh state nothing leads to: the rest of this sequence is unreachable
        if op is sre_c.AT:
            raise AnchorMissing(f"regex assertion {av} not supported except a trailing \\b")
        raise AnchorMissing(f"regex operator {op} not supported")

    # -- subset construction ------------------------------------------------------------
    def _closure(self, states) -> frozenset:
        st = list(states)
        seen = set(states)
        while st:
            x = st.pop()
            for y in self.nfa.eps.get(x, ()):
                if y not in seen:
                    seen.add(y)
                    st.append(y)
        return frozenset(seen)

    def dfa(self):
        if self._dfa is not None:
            return self._dfa
        start = self._closure({self.start})
        states = {start: 0}
        trans: list[dict[int, int]] = [{}]
        accept = [self.final in start]
        work = [start]
        while work:
            S = work.pop()
            si = states[S]
            move: dict[int, set[int]] = {}
            for x in S:
                for cs, y in self.nfa.tr.get(x, ()):
                    for c in cs:
                        move.setdefault(c, set()).add(y)
            for c, ys in move.items():
                T = self._closure(ys)
                if T not in states:
                    states[T] = len(trans)
                    trans.append({})
                    accept.append(self.final in T)
                    work.append(T)
                    if len(trans) > 20000:
                        raise AnchorMissing("DFA too large")
                trans[si][c] = states[T]
        self._dfa = (trans, accept)
        return self._dfa

    # -- queries ------------------------------------------------------------------------
    def accepts(self, s: str) -> bool:
        trans, accept = self.dfa()
        q = 0
        for ch in s:
            c = IDX.get(ch, IDX["\u2603"] if ord(ch) >= 128 else None)
            if c is None or c not in trans[q]:
                return False
            q = trans[q][c]
        return accept[q]

    def charset(self) -> set[str]:
        """Characters that occur on some transition reachable from the start."""
        trans, _ = self.dfa()
        return {ALPHABET[c] for d in trans for c in d}

    def n_states(self) -> int:
        return len(self.dfa()[0])

    def finite_words(self, cap: int = 64):
        """The language as a set of strings when it is finite (at most `cap` words), else None."""
        trans, accept = self.dfa()
        out: set[str] = set()

        def go(q, pref, onpath):
            if len(out) > cap:
                return False
            if accept[q]:
                out.add(pref)
            for c, t in trans[q].items():
                if t in onpath:
                    # a cycle: infinite unless it cannot reach an accepting state; treat as infinite
                    return False
                if not go(t, pref + ALPHABET[c], onpath | {t}):
                    return False
            return True
        ok = go(0, "", {0})
        return out if ok and len(out) <= cap else None

    def is_empty(self) -> bool:
        return witness_not_in(self, None) is None


def witness_not_in(a: Rx, b: Rx | None) -> str | None:
    """Shortest string in L(a) \\ L(b) (b None: shortest string in L(a)); None if
    L(a) ⊆ L(b)."""
    ta, aa = a.dfa()
    if b is None:
        tb, ab = [{}], [False]
    else:
        tb, ab = b.dfa()
    DEAD = -1
    from collections import deque
    start = (0, 0)
    prev = {start: None}
    dq = deque([start])
    while dq:
        qa, qb = dq.popleft()
        if aa[qa] and (qb == DEAD or not ab[qb]):
            out = []
            cur = (qa, qb)
            while prev[cur] is not None:
                cur, c = prev[cur]
                out.append(ALPHABET[c])
            return "".join(reversed(out))
        for c, na in sorted(ta[qa].items()):
            nb = DEAD if qb == DEAD else tb[qb].get(c, DEAD)
            k = (na, nb)
            if k not in prev:
                prev[k] = ((qa, qb), c)
                dq.append(k)
    return None


def witness_common(a: Rx, b: Rx) -> str | None:
    """Shortest string in L(a) ∩ L(b)."""
    ta, aa = a.dfa()
    tb, ab = b.dfa()
    from collections import deque
    prev = {(0, 0): None}
    dq = deque([(0, 0)])
    while dq:
        qa, qb = dq.popleft()
        if aa[qa] and ab[qb]:
            out, cur = [], (qa, qb)
            while prev[cur] is not None:
                cur, c = prev[cur]
                out.append(ALPHABET[c])
            return "".join(reversed(out))
        for c, na in sorted(ta[qa].items()):
            if c in tb[qb]:
                k = (na, tb[qb][c])
                if k not in prev:
                    prev[k] = ((qa, qb), c)
                    dq.append(k)
    return None


def includes(big: Rx, small: Rx) -> str | None:
    """None if L(small) ⊆ L(big), else a witness in small \\ big."""
    return witness_not_in(small, big)
