"""First-match searches, recognised in the forms maintainers write them (DESIGN.md §13.5).

    for x in ITER:                      hit = next((x for x in ITER if P(x)), None)
        if P(x):                        if hit is None:
            return R(x)                     raise E(...)
    raise E(...)                        return R(hit)

Both are reported as the same record: the iterable, the bound variable, the predicate atoms (canonical, in terms of
the variable), the result expression (in terms of the variable), and what happens when nothing matches.  Rules state
their clauses on the record, so rewriting one form into the other changes no verdict."""
from __future__ import annotations

import ast
import copy
from dataclasses import dataclass, field

from . import guards
from . import pyfacts as pf


@dataclass
class Search:
    kind: str                      # 'loop' | 'next'
    iter: ast.AST                  # iterable as written
    var: str                       # bound variable
    preds: list                    # [(expr, polarity)] canonical atoms that select the hit
    result: ast.AST                # returned expression in terms of `var`
    ret: ast.AST                   # the Return node of the hit
    notfound: ast.AST | None       # Raise / Return node reached when nothing matches (None: falls off the end)
    anchor: ast.AST                # loop or assignment statement (for locations)
    extra: list = field(default_factory=list)    # conditions on the hit path that do not mention the variable
    early_exit: bool = False       # break / continue / other exits inside the loop body besides the hit


def _subst(e: ast.AST, name: str, by: ast.AST) -> ast.AST:
    class T(ast.NodeTransformer):
        def visit_Name(self, n):
            if n.id == name and isinstance(n.ctx, ast.Load):
                return copy.deepcopy(by)
            return n
    return T().visit(copy.deepcopy(e))


def _mentions(e: ast.AST, name: str) -> bool:
    return any(isinstance(n, ast.Name) and n.id == name for n in ast.walk(e))


def _after(fn: ast.FunctionDef, st: ast.AST):
    """the statement that follows `st` in its block (None at the end)"""
    for n in ast.walk(fn):
        for f in ("body", "orelse", "finalbody"):
            b = getattr(n, f, None)
            if isinstance(b, list):
                for i, x in enumerate(b):
                    if x is st:
                        return b[i + 1] if i + 1 < len(b) else None
    return None


def searches(fn: ast.FunctionDef) -> list[Search]:
    out: list[Search] = []
    # form A: return inside a for loop
    for lp in [n for n in pf.walk_no_nested(fn) if isinstance(n, ast.For) and isinstance(n.target, ast.Name)]:
        rets = [r for r in ast.walk(lp) if isinstance(r, ast.Return) and r.value is not None]
        inner_loops = [x for x in ast.walk(lp) if isinstance(x, (ast.For, ast.While)) and x is not lp]
        rets = [r for r in rets if not any(r in list(ast.walk(il)) for il in inner_loops)]
        if not rets:
            continue
        var = lp.target.id
        nxt = _after(fn, lp)
        notfound = nxt if isinstance(nxt, (ast.Raise, ast.Return)) else None
        if lp.orelse and isinstance(lp.orelse[-1], (ast.Raise, ast.Return)):
            notfound = lp.orelse[-1]
        for r in rets:
            conds = [(e, pol) for kind, e, pol in guards.path_conditions(lp, r, stop_at=lp) if kind in ("if", "while")]
            preds = [(e, pol) for e, pol in conds if _mentions(e, var)]
            extra = [(e, pol) for e, pol in conds if not _mentions(e, var)]
            early = any(isinstance(x, (ast.Break, ast.Continue)) for x in ast.walk(lp)) or len(rets) > 1
            out.append(Search("loop", lp.iter, var, preds, r.value, r, notfound, lp, extra, early))
    # form B: v = next((G(x) for x in ITER if P(x)), DEFAULT) ; if v is DEFAULT: raise ; return R(v)
    for st in [s for s in pf.iter_stmts(fn.body) if isinstance(s, (ast.Assign, ast.AnnAssign))]:
        tg = st.targets[0] if isinstance(st, ast.Assign) else st.target
        v = st.value
        # next(<local bound once to a generator expression>, default): look through the local
        if isinstance(v, ast.Call) and isinstance(v.func, ast.Name) and v.func.id == "next" and v.args and isinstance(v.args[0], ast.Name):
            binds = [x for x in pf.iter_stmts(fn.body) if isinstance(x, ast.Assign) and len(x.targets) == 1 and isinstance(x.targets[0], ast.Name)
                     and x.targets[0].id == v.args[0].id]
            if len(binds) == 1 and isinstance(binds[0].value, ast.GeneratorExp):
                v = ast.copy_location(ast.Call(func=v.func, args=[binds[0].value] + list(v.args[1:]), keywords=v.keywords), v)
        if not (isinstance(tg, ast.Name) and isinstance(v, ast.Call) and isinstance(v.func, ast.Name) and v.func.id == "next" and v.args
                and isinstance(v.args[0], ast.GeneratorExp) and len(v.args[0].generators) == 1 and isinstance(v.args[0].generators[0].target, ast.Name)):
            continue
        gen = v.args[0]
        g = gen.generators[0]
        var = g.target.id
        hit = tg.id
        default = v.args[1] if len(v.args) > 1 else None
        preds = []
        for c in g.ifs:
            preds += guards.canon_cond(c, True)
        # the not-found exit: a raise / return guarded by `hit is <default>` (canonical: (hit is None, True))
        notfound = None
        for x in pf.iter_stmts(fn.body):
            if isinstance(x, (ast.Raise, ast.Return)):
                cs = [(ast.unparse(e), pol) for kind, e, pol in guards.path_conditions(fn, x) if kind == "if"]
                if default is not None and (f"{hit} is {ast.unparse(default)}", True) in cs or (hit, False) in cs:
                    notfound = x
        for r in [r for r in pf.iter_stmts(fn.body) if isinstance(r, ast.Return) and r.value is not None and _mentions(r.value, hit) and r is not notfound]:
            conds = [(e, pol) for kind, e, pol in guards.path_conditions(fn, r) if kind == "if"]
            extra = []
            for e, pol in conds:
                t = ast.unparse(e)
                if default is not None and t == f"{hit} is {ast.unparse(default)}" and pol is False:
                    continue
                if t == hit and pol is True:
                    continue
                if _mentions(e, hit):
                    preds.append((_subst(e, hit, gen.elt), pol))
                else:
                    extra.append((e, pol))
            # conditions guarding the search statement itself
            extra += [(e, pol) for kind, e, pol in guards.path_conditions(fn, st) if kind == "if"]
            out.append(Search("next", g.iter, var, preds, _subst(r.value, hit, gen.elt), r, notfound, st, extra, False))
    return out
