"""E11 sibling: skeleton comparison of sibling implementations (the C++ and the
Python generators).  Two functions agree when they have the same control
structure (statement kinds, loop sources, branch tests) and the same ordered list
of *data holes* — every non-literal piece that flows into generated text:
f-string interpolations with their format spec and conversion, ``.format``
arguments, non-constant operands of string concatenation, call arguments.
Literal text is ignored (the two target languages differ in syntax only)."""
from __future__ import annotations

import ast
import re


def _norm(t: str, renames: dict) -> str:
    for a, b in renames.items():
        t = re.sub(rf"\b{re.escape(a)}\b", b, t)
    return " ".join(t.split())


def _strip_doc(body):
    if body and isinstance(body[0], ast.Expr) and isinstance(body[0].value, ast.Constant) and isinstance(body[0].value.value, str):
        return body[1:]
    return body


def _literal_only(e: ast.AST) -> bool:
    return all(isinstance(x, (ast.Constant, ast.JoinedStr, ast.BinOp, ast.Add, ast.Load)) and not isinstance(x, ast.FormattedValue)
               for x in ast.walk(e)) and not any(isinstance(x, ast.FormattedValue) for x in ast.walk(e))


def skeleton(fn: ast.FunctionDef, renames: dict | None = None, skip_literal: bool = False) -> list[str]:
    """skip_literal: statements that only add constant text (`x += "…"`, `printer("…")`) are left out."""
    renames = renames or {}
    out: list[str] = []

    def walk(body, depth):
        for st in _strip_doc(body):
            pre = "  " * depth
            if isinstance(st, ast.If):
                out.append(f"{pre}if {_norm(ast.unparse(st.test), renames)}")
                walk(st.body, depth + 1)
                if st.orelse:
                    out.append(f"{pre}else")
                    walk(st.orelse, depth + 1)
            elif isinstance(st, ast.For):
                out.append(f"{pre}for {_norm(ast.unparse(st.target), renames)} in {_norm(ast.unparse(st.iter), renames)}")
                walk(st.body, depth + 1)
            elif isinstance(st, ast.While):
                out.append(f"{pre}while {_norm(ast.unparse(st.test), renames)}")
                walk(st.body, depth + 1)
            elif isinstance(st, ast.Try):
                out.append(f"{pre}try")
                walk(st.body, depth + 1)
                for h in st.handlers:
                    out.append(f"{pre}except {_norm(ast.unparse(h.type), renames) if h.type else ''}")
                    walk(h.body, depth + 1)
            elif isinstance(st, ast.With):
                out.append(f"{pre}with")
                walk(st.body, depth + 1)
            elif isinstance(st, ast.Return):
                out.append(f"{pre}return")
            elif isinstance(st, ast.Raise):
                out.append(f"{pre}raise {_norm(ast.unparse(st.exc.func), renames) if isinstance(st.exc, ast.Call) else ''}")
            elif skip_literal and isinstance(st, ast.AugAssign) and _literal_only(st.value):
                continue
            elif skip_literal and isinstance(st, ast.Expr) and isinstance(st.value, ast.Call) and st.value.args \
                    and all(_literal_only(a) for a in st.value.args) and all(_literal_only(k.value) for k in st.value.keywords):
                continue
            elif isinstance(st, (ast.Assign, ast.AnnAssign, ast.AugAssign)):
                tg = st.targets[0] if isinstance(st, ast.Assign) else st.target
                op = type(st.op).__name__ if isinstance(st, ast.AugAssign) else "="
                out.append(f"{pre}{_norm(ast.unparse(tg), renames)} {op}")
            elif isinstance(st, ast.Expr) and isinstance(st.value, ast.Call):
                out.append(f"{pre}call {_norm(ast.unparse(st.value.func), renames)}")
            elif isinstance(st, (ast.FunctionDef, ast.AsyncFunctionDef)):
                out.append(f"{pre}def {st.name}")
                walk(st.body, depth + 1)
            else:
                out.append(f"{pre}{type(st).__name__}")
    walk(fn.body, 0)
    return out


def holes(fn: ast.FunctionDef, renames: dict | None = None) -> list[str]:
    renames = renames or {}
    out: list[str] = []

    class V(ast.NodeVisitor):
        def visit_JoinedStr(self, n):
            for p in n.values:
                if isinstance(p, ast.FormattedValue):
                    spec = ""
                    if p.format_spec is not None:
                        spec = ":" + "".join(q.value if isinstance(q, ast.Constant) else "{" + ast.unparse(q.value) + "}" for q in p.format_spec.values)
                    conv = {-1: "", 115: "!s", 114: "!r", 97: "!a"}.get(p.conversion, "")
                    out.append("{" + _norm(ast.unparse(p.value), renames) + conv + spec + "}")
                    self.visit(p.value)

        def visit_Call(self, n):
            if isinstance(n.func, ast.Attribute) and n.func.attr == "format" and isinstance(n.func.value, (ast.Constant, ast.BinOp, ast.JoinedStr)):
                import string
                if isinstance(n.func.value, ast.Constant) and isinstance(n.func.value.value, str):
                    fields = [f"{a}:{b or ''}" for _, a, b, _ in string.Formatter().parse(n.func.value.value) if a is not None]
                    out.append("format-fields[" + ",".join(fields) + "]")
                for a in n.args:
                    out.append("format(" + _norm(ast.unparse(a), renames) + ")")
                for k in n.keywords:
                    out.append(f"format({k.arg}=" + _norm(ast.unparse(k.value), renames) + ")")
            self.generic_visit(n)

        def visit_BinOp(self, n):
            if isinstance(n.op, ast.Add):
                for side in (n.left, n.right):
                    if not isinstance(side, (ast.Constant, ast.JoinedStr, ast.BinOp)):
                        out.append("+(" + _norm(ast.unparse(side), renames) + ")")
            self.generic_visit(n)

        def visit_FunctionDef(self, n):
            if n is fn:
                for st in _strip_doc(n.body):
                    self.visit(st)
            else:
                for st in _strip_doc(n.body):
                    self.visit(st)
    V().visit(fn)
    return out


def diff(a: list[str], b: list[str], allowed: set[tuple[str, str]] = frozenset()) -> list[tuple[str, str]]:
    """Positional differences not covered by the allowed divergence table."""
    out = []
    n = max(len(a), len(b))
    for i in range(n):
        x = a[i] if i < len(a) else "<missing>"
        y = b[i] if i < len(b) else "<missing>"
        if x != y and (x, y) not in allowed:
            out.append((x, y))
    return out


def identical(a: ast.FunctionDef, b: ast.FunctionDef, renames: dict | None = None) -> bool:
    ra = _norm(ast.unparse(ast.Module(body=_strip_doc(a.body), type_ignores=[])), renames or {})
    rb = _norm(ast.unparse(ast.Module(body=_strip_doc(b.body), type_ignores=[])), renames or {})
    return ra == rb
