"""E11 sibling: skeleton comparison of sibling implementations (the C++ and the
Python generators).  Two functions agree when they have the same control
structure (statement kinds, loop sources, branch tests) and the same ordered list
of *data holes* — every non-literal piece that flows into generated text:
f-string interpolations with their format spec and conversion, ``.format``
arguments, non-constant operands of string concatenation, call arguments.
Literal text is ignored (the two target languages differ in syntax only)."""
from __future__ import annotations

import ast
import re


def _norm(t: str, renames: dict) -> str:
    for a, b in renames.items():
        t = re.sub(rf"\b{re.escape(a)}\b", b, t)
    return " ".join(t.split())


def _strip_doc(body):
    if body and isinstance(body[0], ast.Expr) and isinstance(body[0].value, ast.Constant) and isinstance(body[0].value.value, str):
        return body[1:]
    return body


def _literal_only(e: ast.AST) -> bool:
    return all(isinstance(x, (ast.Constant, ast.JoinedStr, ast.BinOp, ast.Add, ast.Load)) and not isinstance(x, ast.FormattedValue)
               for x in ast.walk(e)) and not any(isinstance(x, ast.FormattedValue) for x in ast.walk(e))


def skeleton(fn: ast.FunctionDef, renames: dict | None = None, skip_literal: bool = False) -> list[str]:
    """skip_literal: statements that only add constant text (`x += "…"`, `printer("…")`) are left out."""
    renames = renames or {}
    out: list[str] = []

    def walk(body, depth):
        for st in _strip_doc(body):
            pre = "  " * depth
            if isinstance(st, ast.If):
                out.append(f"{pre}if {_norm(ast.unparse(st.test), renames)}")
                walk(st.body, depth + 1)
                if st.orelse:
                    out.append(f"{pre}else")
                    walk(st.orelse, depth + 1)
            elif isinstance(st, ast.For):
                out.append(f"{pre}for {_norm(ast.unparse(st.target), renames)} in {_norm(ast.unparse(st.iter), renames)}")
                walk(st.body, depth + 1)
            elif isinstance(st, ast.While):
                out.append(f"{pre}while {_norm(ast.unparse(st.test), renames)}")
                walk(st.body, depth + 1)
            elif isinstance(st, ast.Try):
                out.append(f"{pre}try")
                walk(st.body, depth + 1)
                for h in st.handlers:
                    out.append(f"{pre}except {_norm(ast.unparse(h.type), renames) if h.type else ''}")
                    walk(h.body, depth + 1)
            elif isinstance(st, ast.With):
                out.append(f"{pre}with")
                walk(st.body, depth + 1)
            elif isinstance(st, ast.Return):
                out.append(f"{pre}return")
            elif isinstance(st, ast.Raise):
                out.append(f"{pre}raise {_norm(ast.unparse(st.exc.func), renames) if isinstance(st.exc, ast.Call) else ''}")
            elif skip_literal and isinstance(st, ast.AugAssign) and _literal_only(st.value):
                continue
            elif skip_literal and isinstance(st, ast.Expr) and isinstance(st.value, ast.Call) and st.value.args \
                    and all(_literal_only(a) for a in st.value.args) and all(_literal_only(k.value) for k in st.value.keywords):
                continue
            elif isinstance(st, (ast.Assign, ast.AnnAssign, ast.AugAssign)):
                tg = st.targets[0] if isinstance(st, ast.Assign) else st.target
                op = type(st.op).__name__ if isinstance(st, ast.AugAssign) else "="
                out.append(f"{pre}{_norm(ast.unparse(tg), renames)} {op}")
            elif isinstance(st, ast.Expr) and isinstance(st.value, ast.Call):
                out.append(f"{pre}call {_norm(ast.unparse(st.value.func), renames)}")
            elif isinstance(st, (ast.FunctionDef, ast.AsyncFunctionDef)):
                out.append(f"{pre}def {st.name}")
                walk(st.body, depth + 1)
            else:
                out.append(f"{pre}{type(st).__name__}")
    walk(fn.body, 0)
    return out


def holes(fn: ast.FunctionDef, renames: dict | None = None) -> list[str]:
    renames = renames or {}
    out: list[str] = []

    class V(ast.NodeVisitor):
        def visit_JoinedStr(self, n):
            for p in n.values:
                if isinstance(p, ast.FormattedValue):
                    spec = ""
                    if p.format_spec is not None:
                        spec = ":" + "".join(q.value if isinstance(q, ast.Constant) else "{" + ast.unparse(q.value) + "}" for q in p.format_spec.values)
                    conv = {-1: "", 115: "!s", 114: "!r", 97: "!a"}.get(p.conversion, "")
                    out.append("{" + _norm(ast.unparse(p.value), renames) + conv + spec + "}")
                    self.visit(p.value)

        def visit_Call(self, n):
            if isinstance(n.func, ast.Attribute) and n.func.attr == "format" and isinstance(n.func.value, (ast.Constant, ast.BinOp, ast.JoinedStr)):
                import string
                if isinstance(n.func.value, ast.Constant) and isinstance(n.func.value.value, str):
                    fields = [f"{a}:{b or ''}" for _, a, b, _ in string.Formatter().parse(n.func.value.value) if a is not None]
                    out.append("format-fields[" + ",".join(fields) + "]")
                for a in n.args:
                    out.append("format(" + _norm(ast.unparse(a), renames) + ")")
                for k in n.keywords:
                    out.append(f"format({k.arg}=" + _norm(ast.unparse(k.value), renames) + ")")
            self.generic_visit(n)

        def visit_BinOp(self, n):
            if isinstance(n.op, ast.Add):
                for side in (n.left, n.right):
                    if not isinstance(side, (ast.Constant, ast.JoinedStr, ast.BinOp)):
                        out.append("+(" + _norm(ast.unparse(side), renames) + ")")
            self.generic_visit(n)

        def visit_FunctionDef(self, n):
            if n is fn:
                for st in _strip_doc(n.body):
                    self.visit(st)
            else:
                for st in _strip_doc(n.body):
                    self.visit(st)
    V().visit(fn)
    return out


def diff(a: list[str], b: list[str], allowed: set[tuple[str, str]] = frozenset()) -> list[tuple[str, str]]:
    """Positional differences not covered by the allowed divergence table."""
    out = []
    n = max(len(a), len(b))
    for i in range(n):
        x = a[i] if i < len(a) else "<missing>"
        y = b[i] if i < len(b) else "<missing>"
        if x != y and (x, y) not in allowed:
            out.append((x, y))
    return out


def identical(a: ast.FunctionDef, b: ast.FunctionDef, renames: dict | None = None) -> bool:
    ra = _norm(ast.unparse(ast.Module(body=_strip_doc(a.body), type_ignores=[])), renames or {})
    rb = _norm(ast.unparse(ast.Module(body=_strip_doc(b.body), type_ignores=[])), renames or {})
    return ra == rb


# ---------------------------------------------------------------------------------------------------------------
# logic_diff: the parts of two sibling functions that are NOT target-language text must be the same expression.
# Statements are aligned exactly as in skeleton(skip_literal=True); for each aligned pair the value / test / iterable /
# call expressions are walked in parallel.  Free: string literals that carry target-language syntax (anything that is not
# a plain word) and the literal text of f-strings.  Compared: every name, attribute, operator, number, keyword name,
# argument count, word-like string constants (case-insensitively: 'true' / 'True'), f-string interpolations.

_WORD = re.compile(r"^[\w:.\- ]*$")


def _wordlike(s: str) -> bool:
    return bool(_WORD.match(s))


def _expr_mismatch(a: ast.AST, b: ast.AST, renames: dict):
    """None when the two expressions agree; else a short (a_text, b_text) of the first disagreeing sub-expression."""
    def txt(x):
        try:
            return _norm(ast.unparse(x), renames)[:90]
        except Exception:
            return type(x).__name__

    def text_like(x):
        return isinstance(x, (ast.JoinedStr,)) or (isinstance(x, ast.Constant) and isinstance(x.value, str)) or \
            (isinstance(x, ast.BinOp) and isinstance(x.op, ast.Add) and (text_like(x.left) or text_like(x.right)))

    def fvals(x):
        out = []
        for n in ast.walk(x):
            if isinstance(n, ast.FormattedValue):
                out.append(n.value)
        return out

    def rec(x, y):
        if isinstance(x, ast.Constant) and isinstance(y, ast.Constant):
            if isinstance(x.value, str) and isinstance(y.value, str):
                if _wordlike(x.value) and _wordlike(y.value):
                    return None if x.value.lower() == y.value.lower() else (txt(x), txt(y))
                if _wordlike(x.value) != _wordlike(y.value) and (x.value.strip() and y.value.strip()):
                    return None      # target-language text on one side, a word on the other: text
                return None
            return None if (type(x.value) is type(y.value) and x.value == y.value) else (txt(x), txt(y))
        if text_like(x) and text_like(y):
            # text: only the interpolated expressions are compared (in order)
            fx, fy = fvals(x), fvals(y)
            nx = [n for n in ast.walk(x) if not isinstance(n, (ast.Constant, ast.JoinedStr, ast.FormattedValue, ast.BinOp, ast.Add, ast.Load)) and not any(n in ast.walk(f) for f in fx)]
            ny = [n for n in ast.walk(y) if not isinstance(n, (ast.Constant, ast.JoinedStr, ast.FormattedValue, ast.BinOp, ast.Add, ast.Load)) and not any(n in ast.walk(f) for f in fy)]
            if len(fx) != len(fy):
                return (txt(x), txt(y))
            for p, q in zip(fx, fy):
                r = rec(p, q)
                if r:
                    return r
            # non-literal operands of a concatenation
            ox = [s for s in _concat_operands(x) if not text_like(s)]
            oy = [s for s in _concat_operands(y) if not text_like(s)]
            if len(ox) != len(oy):
                return (txt(x), txt(y))
            for p, q in zip(ox, oy):
                r = rec(p, q)
                if r:
                    return r
            return None
        if type(x) is not type(y):
            return (txt(x), txt(y))
        if isinstance(x, ast.Name):
            return None if _norm(x.id, renames) == _norm(y.id, renames) else (txt(x), txt(y))
        for f in x._fields:
            if f in ("ctx", "lineno", "col_offset", "end_lineno", "end_col_offset", "type_comment"):
                continue
            u, v = getattr(x, f, None), getattr(y, f, None)
            if isinstance(u, list) and isinstance(v, list):
                if len(u) != len(v):
                    return (txt(x), txt(y))
                for p, q in zip(u, v):
                    if isinstance(p, ast.AST) and isinstance(q, ast.AST):
                        r = rec(p, q)
                        if r:
                            return r
                    elif p != q:
                        return (txt(x), txt(y))
            elif isinstance(u, ast.AST) and isinstance(v, ast.AST):
                r = rec(u, v)
                if r:
                    return r
            elif isinstance(u, ast.AST) or isinstance(v, ast.AST):
                return (txt(x), txt(y))
            elif u != v:
                if isinstance(u, str) and isinstance(v, str) and _norm(u, renames) == _norm(v, renames):
                    continue
                return (txt(x), txt(y))
        return None
    return rec(a, b)


def _concat_operands(x):
    if isinstance(x, ast.BinOp) and isinstance(x.op, ast.Add):
        return _concat_operands(x.left) + _concat_operands(x.right)
    return [x]


def logic_diff(fa: ast.FunctionDef, fb: ast.FunctionDef, renames: dict | None = None) -> list[tuple[str, str]]:
    """Aligned-statement comparison of everything that is not target-language text (see above).  Presupposes equal
    skeletons (the caller reports a skeleton difference first); a misalignment is reported as a difference."""
    renames = renames or {}
    out: list[tuple[str, str]] = []

    def parts(st):
        """sub-expressions of one statement that carry logic"""
        if isinstance(st, ast.If) or isinstance(st, ast.While):
            return [st.test]
        if isinstance(st, ast.For):
            return [st.target, st.iter]
        if isinstance(st, ast.Assign):
            return [st.targets[0], st.value]
        if isinstance(st, ast.AnnAssign):
            return [st.target] + ([st.value] if st.value is not None else [])
        if isinstance(st, ast.AugAssign):
            return [st.target, st.value]
        if isinstance(st, ast.Return):
            return [st.value] if st.value is not None else []
        if isinstance(st, ast.Expr):
            return [st.value]
        if isinstance(st, ast.Raise):
            return []
        return []

    def literal_stmt(st):
        if isinstance(st, ast.AugAssign) and _literal_only(st.value):
            return True
        if isinstance(st, ast.Expr) and isinstance(st.value, ast.Call) and st.value.args and all(_literal_only(a) for a in st.value.args) \
                and all(_literal_only(k.value) for k in st.value.keywords):
            return True
        return False

    def walk(ba, bb):
        la = [s for s in _strip_doc(ba) if not literal_stmt(s)]
        lb = [s for s in _strip_doc(bb) if not literal_stmt(s)]
        if len(la) != len(lb):
            out.append((f"{len(la)} statements", f"{len(lb)} statements"))
            return
        for x, y in zip(la, lb):
            if type(x) is not type(y):
                out.append((type(x).__name__, type(y).__name__))
                continue
            px, py = parts(x), parts(y)
            for p, q in zip(px, py):
                r = _expr_mismatch(p, q, renames)
                if r:
                    out.append(r)
                    break
            for f in ("body", "orelse", "finalbody"):
                u, v = getattr(x, f, None), getattr(y, f, None)
                if isinstance(u, list) and isinstance(v, list) and (u or v) and not isinstance(x, (ast.FunctionDef,)) :
                    walk(u, v)
            if isinstance(x, ast.FunctionDef):
                walk(x.body, y.body)
            if isinstance(x, ast.Try):
                for hx, hy in zip(x.handlers, y.handlers):
                    walk(hx.body, hy.body)
    walk(fa.body, fb.body)
    return out


# ---------------------------------------------------------------------------------------------------------------
# emission_skeleton: what a generator function EMITS, independent of how its code is laid out.
# One-sided behaviour-preserving edits of one of two sibling generators (renamed locals, a hoisted sub-expression,
# .format -> f-string, an explaining variable) leave it unchanged; a change of what is emitted, in which order, under
# which condition or from which data does not.

def emission_skeleton(fn: ast.FunctionDef, flow, renames: dict | None = None) -> list[str]:
    from .match import txt as _txt
    renames = renames or {}
    out: list[str] = []

    accumulators = {n.target.id for n in ast.walk(fn) if isinstance(n, ast.AugAssign) and isinstance(n.target, ast.Name)}
    # loop variables are bound names: call them by the depth and position of their binding
    loop_ren: dict[int, dict[str, str]] = {}

    def loopvars(stack):
        ks = set(accumulators)
        for n in stack:
            if isinstance(n, ast.For):
                ks |= {x.id for x in ast.walk(n.target) if isinstance(x, ast.Name)}
        return ks

    def bound(stack):
        m: dict[str, str] = {}
        d = 0
        for n in stack:
            if isinstance(n, ast.For):
                d += 1
                for i, x in enumerate(y for y in ast.walk(n.target) if isinstance(y, ast.Name)):
                    m[x.id] = f"_v{d}{chr(97 + i)}"
        return m

    class _Ren(ast.NodeTransformer):
        def __init__(self, m):
            self.m = m

        def visit_Name(self, n):
            return ast.copy_location(ast.Name(self.m[n.id], n.ctx), n) if n.id in self.m else n

    def ex(e, stack):
        try:
            e = flow.expand(e, keep=loopvars(stack))
        except Exception:
            pass
        m = bound(stack)
        if m:
            import copy
            e = _Ren(m).visit(copy.deepcopy(e))
        return e

    def holes_of(e, stack):
        """non-literal pieces of an emitted expression, in order (after expansion of locals)"""
        e = ex(e, stack)
        hs: list[str] = []

        def go(x):
            if isinstance(x, ast.JoinedStr):
                for p in x.values:
                    if isinstance(p, ast.FormattedValue):
                        spec = ""
                        if p.format_spec is not None:
                            spec = ":" + "".join(q.value if isinstance(q, ast.Constant) else "{" + _txt(q.value) + "}" for q in p.format_spec.values)
                        conv = {-1: "", 115: "!s", 114: "!r", 97: "!a"}.get(p.conversion, "")
                        inner = p.value
                        if isinstance(inner, (ast.JoinedStr, ast.BinOp)) and _textish(inner):
                            go(inner)          # a piece of text interpolated into text: its own holes
                        else:
                            hs.append("{" + _norm(_txt(inner), renames) + conv + spec + "}")
                return
            if isinstance(x, ast.BinOp) and isinstance(x.op, ast.Add) and (_textish(x.left) or _textish(x.right)):
                go(x.left)
                go(x.right)
                return
            if isinstance(x, ast.Constant):
                return
            if isinstance(x, ast.Call) and isinstance(x.func, ast.Name) and x.func.id == "__phi__":
                hs.append("phi(" + " | ".join(sorted(_norm(_txt(a), renames) for a in x.args)) + ")")
                return
            if isinstance(x, ast.IfExp) and (_textish(x.body) or _textish(x.orelse)):
                hs.append("if " + _norm(_txt(x.test), renames))
                go(x.body)
                hs.append("else")
                go(x.orelse)
                hs.append("fi")
                return
            hs.append("+(" + _norm(_txt(x), renames) + ")")
        go(e)
        return hs

    def _textish(x):
        return isinstance(x, ast.JoinedStr) or (isinstance(x, ast.Constant) and isinstance(x.value, str)) or \
            (isinstance(x, ast.BinOp) and isinstance(x.op, ast.Add) and (_textish(x.left) or _textish(x.right)))

    def conds(test, stack):
        from . import guards
        return " & ".join(sorted(("" if p else "not ") + _norm(_txt(a), renames) for a, p in guards.canon_cond(ex(test, stack), True)))

    def emit(pre, hs):
        if hs:                                   # a literal-only line is syntax of the target language
            out.append(f"{pre}emit " + " ".join(hs))

    def walk(body, depth, stack):
        pre = "  " * depth
        body = _strip_doc(body)
        for i, st in enumerate(body):
            if isinstance(st, ast.Return) and isinstance(st.value, ast.IfExp):
                st = ast.If(st.value.test, [ast.Return(st.value.body)], [ast.Return(st.value.orelse)])
            if isinstance(st, ast.If):
                orelse = st.orelse
                rest = False
                if not orelse and st.body and isinstance(st.body[-1], (ast.Return, ast.Raise)) and body[i + 1:]:
                    orelse, rest = body[i + 1:], True        # guard clause: the remainder of the block is the else branch
                test, then = st.test, st.body
                if orelse and isinstance(test, ast.UnaryOp) and isinstance(test.op, ast.Not):
                    test, then, orelse = test.operand, orelse, then        # `if not c: A else: B` is `if c: B else: A`
                out.append(f"{pre}if {conds(test, stack)}")
                walk(then, depth + 1, stack)
                if orelse:
                    out.append(f"{pre}else")
                    walk(orelse, depth + 1, stack)
                if rest:
                    return
            elif isinstance(st, ast.For):
                out.append(f"{pre}for {_norm(_txt(ex(st.iter, stack)), renames)}")
                walk(st.body, depth + 1, stack + [st])
            elif isinstance(st, ast.While):
                out.append(f"{pre}while {conds(st.test, stack)}")
                walk(st.body, depth + 1, stack)
            elif isinstance(st, ast.Try):
                out.append(f"{pre}try")
                walk(st.body, depth + 1, stack)
                for h in st.handlers:
                    out.append(f"{pre}except {_norm(ast.unparse(h.type), renames) if h.type else ''}")
                    walk(h.body, depth + 1, stack)
            elif isinstance(st, ast.With):
                walk(st.body, depth, stack)
            elif isinstance(st, ast.Return):
                hs = holes_of(st.value, stack) if st.value is not None and not (isinstance(st.value, ast.Constant) and st.value.value is None) else []
                out.append(f"{pre}return " + " ".join(hs) if hs else f"{pre}return")
            elif isinstance(st, ast.Raise):
                out.append(f"{pre}raise {_norm(ast.unparse(st.exc.func), renames) if isinstance(st.exc, ast.Call) else ''}")
            elif isinstance(st, ast.AugAssign) and isinstance(st.op, ast.Add):
                emit(pre, holes_of(st.value, stack))
            elif isinstance(st, ast.Expr) and isinstance(st.value, ast.Call):
                c = st.value
                f = c.func
                name = f.id if isinstance(f, ast.Name) else (f.attr if isinstance(f, ast.Attribute) else "?")
                if name in ("append", "extend", "write", "print") or (isinstance(f, ast.Name) and _is_printer(flow, f)):
                    hs = []
                    for a in c.args:
                        hs += holes_of(a, stack)
                    for k in c.keywords:
                        hs += [f"{k.arg}="] + holes_of(k.value, stack)
                    emit(pre, hs)
                else:
                    out.append(f"{pre}call {_norm(_txt(ex(c, stack)), renames)}")
            elif isinstance(st, (ast.Assign, ast.AnnAssign)):
                tg = st.targets[0] if isinstance(st, ast.Assign) else st.target
                if not isinstance(tg, (ast.Name, ast.Tuple, ast.List)):
                    out.append(f"{pre}store {_norm(_txt(tg), renames)} = " + _norm(_txt(ex(st.value, stack)), renames) if st.value is not None else f"{pre}store")
                # plain locals are consumed through expansion by the statements that use them
            elif isinstance(st, (ast.FunctionDef, ast.AsyncFunctionDef)):
                out.append(f"{pre}def")
                walk(st.body, depth + 1, stack)
            elif isinstance(st, ast.Pass):
                continue
            else:
                out.append(f"{pre}{type(st).__name__}")

    def _is_printer(flow_, f_):
        try:
            ds = flow_.defs_of(f_)
        except Exception:
            return False
        return any(d.value is not None and ("print" in ast.unparse(d.value)) for d in ds)
    walk(fn.body, 0, [])
    return out
