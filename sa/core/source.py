"""SourceSet: the in-memory view of /repo that every engine analyses.

Nothing here imports or executes decaylanguage.  A mutant or a benign variant is
a SourceSet with one entry replaced (``overlay``), so the self-test needs no
scratch copies on disk.
"""
from __future__ import annotations

import ast
import glob
import hashlib
import os

REPO = os.environ.get("VERIF_REPO", "/repo")
PKG = "src/decaylanguage"


class AnchorMissing(Exception):
    """An anchored construct (module, class, function, grammar rule) vanished or
    the recogniser met vocabulary it does not understand.  Always reported as
    UNDECIDED / ANALYSIS-ERROR, never as a violation and never as a pass."""


class GrammarBroken(AnchorMissing):
    """A grammar file of the package does not load: decided (no text can be parsed with it), not an analysis problem."""


class SourceSet:
    def __init__(self, files: dict[str, str], root: str = REPO):
        self.files = dict(files)
        self.root = root
        self._ast: dict[str, ast.Module] = {}
        self._cache: dict = {}

    # -- construction -----------------------------------------------------
    @classmethod
    def load(cls, root: str | None = None) -> "SourceSet":
        root = root or REPO
        files: dict[str, str] = {}
        base = os.path.join(root, PKG)
        if not os.path.isdir(base):
            raise AnchorMissing(f"package directory {base} not found")
        for dirpath, dirnames, filenames in os.walk(base):
            dirnames[:] = [d for d in dirnames if d != "__pycache__"]
            for fn in sorted(filenames):
                if fn.endswith((".py", ".lark", ".csv")):
                    p = os.path.join(dirpath, fn)
                    rel = os.path.relpath(p, root)
                    with open(p, encoding="utf-8") as f:
                        files[rel] = f.read()
        return cls(files, root)

    def overlay(self, repl: dict[str, str]) -> "SourceSet":
        f = dict(self.files)
        f.update(repl)
        return SourceSet(f, self.root)

    # -- access -----------------------------------------------------------
    def rel(self, short: str) -> str:
        """'dec/dec.py' -> 'src/decaylanguage/dec/dec.py'"""
        return short if short.startswith(PKG) else f"{PKG}/{short}"

    def text(self, short: str) -> str:
        r = self.rel(short)
        if r not in self.files:
            raise AnchorMissing(f"file {r} not found")
        return self.files[r]

    def view(self, short: str, force: tuple[str, ...]) -> "SourceSet":
        """The same sources, with module `short` read in the normal form in which the named helpers are written out in
        their callers (see normalise.inline_helpers(force=...))."""
        key = ("view", short, tuple(sorted(force)))
        if key not in self._cache:
            v = SourceSet(self.files, self.root)
            v._force = {self.rel(short): frozenset(force)}
            self._cache[key] = v
        return self._cache[key]

    def tree(self, short: str) -> ast.Module:
        r = self.rel(short)
        if r not in self._ast:
            try:
                t = ast.parse(self.text(short), filename=r)
            except SyntaxError as e:  # pragma: no cover
                raise AnchorMissing(f"{r} does not parse: {e}") from e
            if not os.environ.get("VERIF_NO_INLINE"):
                from .normalise import (builder_loops, ctor_kwargs, extend_generators, format_calls, group_aliases, inline_helpers,
                                        plain_assignments, search_helpers, loop_guards, suppress_blocks)
                forced = getattr(self, "_force", {}).get(r)

                def forced_inline(t_):
                    """write the named methods ("Class.method") out in their callers inside that class"""
                    import copy
                    t_ = copy.deepcopy(t_)
                    for q in sorted(forced or ()):
                        cn, mn = q.split(".")
                        for i, n in enumerate(t_.body):
                            if isinstance(n, ast.ClassDef) and n.name == cn:
                                mini = inline_helpers(ast.Module(body=[n], type_ignores=[]), force=frozenset({mn}))
                                t_.body[i] = mini.body[0]
                    return t_
                steps = (plain_assignments, suppress_blocks, loop_guards, search_helpers, inline_helpers) + ((forced_inline,) if forced else ()) + (group_aliases, ctor_kwargs, extend_generators, builder_loops, format_calls)
                for step in steps:
                    try:
                        t2 = step(t)
                        compile(ast.fix_missing_locations(t2), r, "exec")      # a normal form that is not valid Python is discarded
                        t = t2
                    except Exception:
                        pass            # normalisation is an aid, never a reason to fail: the rules then see the source form
            self._ast[r] = t
        return self._ast[r]

    def py_modules(self) -> list[str]:
        return sorted(k for k in self.files if k.endswith(".py"))

    def digest(self, shorts: list[str] | None = None) -> str:
        h = hashlib.sha256()
        keys = sorted(self.files) if shorts is None else sorted(self.rel(s) for s in shorts)
        for k in keys:
            h.update(k.encode())
            h.update(b"\0")
            h.update(self.files.get(k, "").encode())
            h.update(b"\0")
        return h.hexdigest()[:16]

    def memo(self, key, fn):
        if key not in self._cache:
            self._cache[key] = fn()
        return self._cache[key]


def site_packages_file(relpath: str) -> str | None:
    """Locate a file of the repository environment's site-packages (signatures of
    third-party callees only; never imported)."""
    for sp in sorted(glob.glob("/venv/lib/python3*/site-packages")):
        p = os.path.join(sp, relpath)
        if os.path.isfile(p):
            return p
    return None
