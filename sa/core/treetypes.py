"""E10 treetypes: abstract evaluation of parse-tree accessor expressions against
the child words of the grammar (E7).

Input: an *expanded* expression (E5) whose free names are parameters with a
declared abstract value (e.g. ``decay_mode: Tree(decayline)``).  Output: an
abstract value with a semantic access path ("flow signature") such as
``float(decayline/0:value/0:SIGNED_NUMBER)`` and a list of type errors:
  * ``.children[i]`` out of range on some word of the grammar (IndexError),
  * ``.value`` on a tree / ``.children`` / ``.data`` on a token (AttributeError),
  * ``find_data("r")`` where no tree is ever named r,
  * ``[0]`` on a find_data() result that can be empty without a length guard.
The repo's ``try: t.children[0].value  except AttributeError: t.value`` idiom is
handled as a case split over the alternatives of a union value.
"""
from __future__ import annotations

import ast
from dataclasses import dataclass, field, replace

from .larkfacts import GrammarFacts
from .match import txt
from .source import AnchorMissing


@dataclass(frozen=True)
class V:
    kind: str                      # tree tok children list tuple str float int bool none dict unknown union const
    names: frozenset = frozenset() # tree / tok names; for children: owner tree names
    elem: "V | None" = None        # list / iter element
    items: tuple = ()              # tuple items / union alternatives
    path: str = ""                 # flow signature
    words: frozenset | None = None # children: the (possibly refined) child words
    const: object = None

    def sig(self) -> str:
        if self.kind == "union":
            return "(" + " | ".join(sorted({a.sig() for a in self.items})) + ")"
        if self.kind in ("list",):
            pre = "" if self.path in ("list", "", "items", "keys", "values", "enumerate") else self.path
            return pre + "[" + (self.elem.sig() if self.elem else "?") + "]"
        if self.kind == "tuple":
            return "(" + ", ".join(i.sig() for i in self.items) + ")"
        if self.kind == "dict":
            return ("filtered" if self.path == "filtered-dict" else "") + "{" + ": ".join(i.sig() for i in self.items) + "}"
        if self.kind == "const":
            return repr(self.const)
        return self.path or self.kind


UNKNOWN = V("unknown", path="?")


def union(vals: list[V]) -> V:
    flat: list[V] = []
    for v in vals:
        if v.kind == "union":
            flat += list(v.items)
        else:
            flat.append(v)
    uniq: list[V] = []
    seen = set()
    for v in flat:
        k = (v.kind, v.names, v.path, v.sig())
        if k not in seen:
            seen.add(k)
            uniq.append(v)
    if len(uniq) == 1:
        return uniq[0]
    return V("union", items=tuple(uniq), path="(" + " | ".join(sorted(u.sig() for u in uniq)) + ")")


def alts(v: V) -> list[V]:
    return list(v.items) if v.kind == "union" else [v]


class AttrErr(Exception):
    pass


class TreeTyper:
    def __init__(self, gf: GrammarFacts, resolver=None):
        """resolver(name) -> (FuncFacts, Flow) for calls to functions of the same module."""
        self.gf = gf
        self.resolver = resolver
        self.errors: list[str] = []
        self.unknown: list[str] = []
        self.find_data_literals: list[str] = []
        self.depth = 0

    # -- constructors ----------------------------------------------------------------
    def tree(self, name: str, path: str | None = None) -> V:
        if name != "start" and name not in self.gf.tree_names:
            raise AnchorMissing(f"grammar {self.gf.name}: no tree named {name}")
        return V("tree", frozenset([name]), path=path if path is not None else name)

    def sym(self, s, path: str) -> V:
        k, n = s
        if k == "T":
            return V("tree", frozenset([n]), path=path)
        return V("tok", frozenset([n]), path=path)

    def err(self, msg: str):
        if msg not in self.errors:
            self.errors.append(msg)

    def unk(self, msg: str) -> V:
        if msg not in self.unknown:
            self.unknown.append(msg)
        return UNKNOWN

    def check(self, e: ast.AST, env: dict, facts: tuple = ()) -> V:
        """Top-level evaluation: type errors are recorded, never raised."""
        try:
            return self.ev(e, env, facts)
        except AttrErr:
            return UNKNOWN

    # -- evaluation -------------------------------------------------------------------
    def ev(self, e: ast.AST, env: dict, facts: tuple = ()) -> V:
        m = getattr(self, "ev_" + type(e).__name__, None)
        if m is None:
            return self.unk(f"expression kind {type(e).__name__}: {txt(e)[:60]}")
        return m(e, env, facts)

    def ev_Constant(self, e, env, facts):
        c = e.value
        k = {str: "str", float: "float", int: "int", bool: "bool", type(None): "none"}.get(type(c), "unknown")
        return V("const", const=c, path=repr(c)) if k != "unknown" else UNKNOWN

    def ev_Name(self, e, env, facts):
        if e.id in env:
            return env[e.id]
        return V("unknown", path=e.id)

    def ev_JoinedStr(self, e, env, facts):
        parts = []
        for v in e.values:
            if isinstance(v, ast.Constant):
                parts.append(str(v.value))
            else:
                x = self.ev(v.value, env, facts)
                parts.append("{" + x.sig() + "}")
        return V("str", path='f"' + "".join(parts) + '"')

    def ev_FormattedValue(self, e, env, facts):
        return self.ev(e.value, env, facts)

    def _static_len_test(self, test, env, facts):
        """Decide `len(<find_data list>) OP k` from the grammar's count bounds (None = undecided)."""
        if isinstance(test, ast.Compare) and len(test.ops) == 1 and isinstance(test.left, ast.Call) and isinstance(test.left.func, ast.Name) \
                and test.left.func.id == "len" and len(test.left.args) == 1 and isinstance(test.comparators[0], ast.Constant) \
                and isinstance(test.comparators[0].value, int):
            try:
                v = self.ev(test.left.args[0], env, facts)
            except AttrErr:
                return None
            if v.kind == "list" and isinstance(v.const, tuple) and v.const and v.const[0] == "count":
                lo, hi = v.const[1], v.const[2]
                k, op = test.comparators[0].value, type(test.ops[0])
                poss = [n for n in range(lo, min(hi, lo + 50) + 1)]
                f = {ast.Eq: lambda n: n == k, ast.NotEq: lambda n: n != k, ast.Gt: lambda n: n > k, ast.GtE: lambda n: n >= k,
                     ast.Lt: lambda n: n < k, ast.LtE: lambda n: n <= k}.get(op)
                if f is None:
                    return None
                res = {f(n) for n in poss}
                if hi > lo + 50:
                    return None
                if res == {True}:
                    return True
                if res == {False}:
                    return False
        return None

    def ev_IfExp(self, e, env, facts):
        t = txt(e.test)
        st = self._static_len_test(e.test, env, facts)
        if st is True:
            return self.ev(e.body, env, facts + (("T", t),))
        if st is False:
            self.err(f"`{txt(e)[:90]}`: the test `{t}` can never hold for any tree of the grammar, so the branch `{txt(e.body)[:40]}` is dead")
            return self.ev(e.orelse, env, facts + (("F", t),))
        self.ev(e.test, env, facts)
        a = self.ev(e.body, env, facts + (("T", t),))
        b = self.ev(e.orelse, env, facts + (("F", t),))
        return union([a, b])

    def ev_BoolOp(self, e, env, facts):
        return union([self.ev(v, env, facts) for v in e.values])

    def ev_Compare(self, e, env, facts):
        self.ev(e.left, env, facts)
        for c in e.comparators:
            self.ev(c, env, facts)
        return V("bool", path="bool")

    def ev_UnaryOp(self, e, env, facts):
        v = self.ev(e.operand, env, facts)
        if isinstance(e.op, ast.Not):
            return V("bool", path="bool")
        return replace(v, path=f"-{v.sig()}") if isinstance(e.op, ast.USub) else v

    def ev_BinOp(self, e, env, facts):
        # x * (1 / y)  ==  x / y
        if isinstance(e.op, ast.Mult):
            for l, r in ((e.left, e.right), (e.right, e.left)):
                if isinstance(r, ast.BinOp) and isinstance(r.op, ast.Div) and isinstance(r.left, ast.Constant) and r.left.value in (1, 1.0):
                    return self.ev_BinOp(ast.BinOp(left=l, op=ast.Div(), right=r.right), env, facts)
        a, b = self.ev(e.left, env, facts), self.ev(e.right, env, facts)
        return V("unknown" if a.kind not in ("float", "int", "str") else a.kind,
                 path=f"({a.sig()} {type(e.op).__name__} {b.sig()})")

    def ev_Slice(self, e, env, facts):
        return V("unknown", path=txt(e))

    def ev_Tuple(self, e, env, facts):
        its = tuple(self.ev(x, env, facts) for x in e.elts)
        return V("tuple", items=its, path="(" + ", ".join(i.sig() for i in its) + ")")

    def ev_List(self, e, env, facts):
        its = [self.ev(x, env, facts) for x in e.elts]
        return V("list", elem=union(its) if its else V("none", path="∅"), path="list")

    def ev_Dict(self, e, env, facts):
        ks = [self.ev(k, env, facts) for k in e.keys if k is not None]
        vs = [self.ev(v, env, facts) for v in e.values]
        if not ks:
            return V("dict", items=(V("none", path="∅"), V("none", path="∅")), path="{}")
        return V("dict", items=(union(ks), union(vs)), path="dict")

    def _comp(self, e, env, facts, elt):
        f2 = facts
        for g in e.generators:
            self.ev(g.iter, env, facts)
            for c in g.ifs:
                self.ev(c, env, f2)
                f2 = f2 + (("T", txt(c)),)
        return f2

    def ev_ListComp(self, e, env, facts):
        f2 = self._comp(e, env, facts, e.elt)
        filt = "filtered" if any(g.ifs for g in e.generators) else ""
        kind = "set" if isinstance(e, ast.SetComp) else ""
        # a comprehension over a sliced / sorted / de-duplicated source inherits that marker
        marks = []
        for g in e.generators:
            try:
                src = self.ev(g.iter, env, facts)
            except AttrErr:
                continue
            for a in alts(src):
                if a.kind == "list" and a.path not in ("list", "", "items", "keys", "values", "enumerate"):
                    marks.append(a.path)
        return V("list", elem=self.ev(e.elt, env, f2), path=(kind + filt + "".join(marks)) or "list")

    ev_SetComp = ev_ListComp
    ev_GeneratorExp = ev_ListComp

    def ev_DictComp(self, e, env, facts):
        f2 = self._comp(e, env, facts, e.key)
        k, v = self.ev(e.key, env, f2), self.ev(e.value, env, f2)
        if any(g.ifs for g in e.generators):
            return V("dict", items=(k, v), path="filtered-dict")
        return V("dict", items=(k, v), path="dict")

    def ev_Lambda(self, e, env, facts):
        return V("unknown", path="lambda")

    def ev_Starred(self, e, env, facts):
        return self.ev(e.value, env, facts)

    # attribute ---------------------------------------------------------------------
    def ev_Attribute(self, e, env, facts):
        base = self.ev(e.value, env, facts)
        outs = []
        for a in alts(base):
            outs.append(self._attr(a, e.attr, e))
        return union(outs)

    def _attr(self, a: V, attr: str, e) -> V:
        if a.kind == "unknown":
            return V("unknown", path=f"{a.path}.{attr}")
        if attr == "children":
            if a.kind == "tree":
                words = set()
                for n in a.names:
                    if n == "start":
                        return self.unk("children of start")
                    words |= self.gf.rule_words(n)
                return V("children", a.names, words=frozenset(words), path=a.path)
            self.err(f"`.children` on a {a.kind} ({a.sig()}) in `{txt(e)[:80]}`: AttributeError/wrong node kind")
            raise AttrErr()
        if attr == "value":
            if a.kind == "tok":
                return V("str", path=a.path, names=a.names)
            self.err(f"`.value` on a {a.kind} ({a.sig()}) in `{txt(e)[:80]}`: a tree has no .value")
            raise AttrErr()
        if attr == "data":
            if a.kind == "tree":
                return V("str", path=f"data({a.path})", names=a.names)
            self.err(f"`.data` on a {a.kind} ({a.sig()}) in `{txt(e)[:80]}`")
            raise AttrErr()
        if attr == "type" and a.kind == "tok":
            return V("str", path=f"type({a.path})")
        return self.unk(f"attribute .{attr} on {a.kind}")

    # subscript -----------------------------------------------------------------------
    def ev_Subscript(self, e, env, facts):
        base = self.ev(e.value, env, facts)
        outs = []
        for a in alts(base):
            outs.append(self._sub(a, e, env, facts))
        return union(outs)

    def _refine(self, a: V, e_value: ast.AST, facts) -> V:
        """Apply `len(<same expr>) OP k` facts to a children value."""
        if a.kind != "children" or a.words is None:
            return a
        t = txt(e_value)
        words = set(a.words)
        for pol, f in facts:
            try:
                fe = ast.parse(f, mode="eval").body
            except SyntaxError:
                continue
            if isinstance(fe, ast.Compare) and len(fe.ops) == 1 and isinstance(fe.left, ast.Call) \
                    and isinstance(fe.left.func, ast.Name) and fe.left.func.id == "len" and len(fe.left.args) == 1 \
                    and txt(fe.left.args[0]) == t and isinstance(fe.comparators[0], ast.Constant):
                k = fe.comparators[0].value
                op = type(fe.ops[0])
                test = {ast.Gt: lambda n: n > k, ast.GtE: lambda n: n >= k, ast.Lt: lambda n: n < k,
                        ast.LtE: lambda n: n <= k, ast.Eq: lambda n: n == k, ast.NotEq: lambda n: n != k}.get(op)
                if test:
                    words = {w for w in words if test(len(w)) == (pol == "T")}
        return replace(a, words=frozenset(words))

    def _nonempty_fact(self, e_value: ast.AST, facts) -> bool:
        t = txt(e_value)
        for pol, f in facts:
            if pol == "T" and f == t:
                return True
            if pol == "F" and f == f"not {t}":
                return True
            try:
                fe = ast.parse(f, mode="eval").body
            except SyntaxError:
                continue
            if isinstance(fe, ast.Compare) and len(fe.ops) == 1 and isinstance(fe.left, ast.Call) \
                    and isinstance(fe.left.func, ast.Name) and fe.left.func.id == "len" and fe.left.args \
                    and txt(fe.left.args[0]) == t and isinstance(fe.comparators[0], ast.Constant):
                k, op = fe.comparators[0].value, type(fe.ops[0])
                if pol == "T" and ((op is ast.Eq and k >= 1) or (op is ast.Gt and k >= 0) or (op is ast.GtE and k >= 1) or (op is ast.NotEq and k == 0)):
                    return True
                if pol == "F" and ((op is ast.Eq and k == 0) or (op is ast.Lt and k <= 1) or (op is ast.LtE and k <= 0)):
                    return True
        return False

    def _sub(self, a: V, e: ast.Subscript, env, facts) -> V:
        sl = e.slice
        if a.kind == "unknown":
            return V("unknown", path=f"{a.path}[{txt(sl)}]")
        if a.kind == "children":
            a = self._refine(a, e.value, facts)
            if isinstance(sl, ast.Constant) and isinstance(sl.value, int) or \
                    (isinstance(sl, ast.UnaryOp) and isinstance(sl.op, ast.USub) and isinstance(sl.operand, ast.Constant)):
                i = sl.value if isinstance(sl, ast.Constant) else -sl.operand.value
                lens = {len(w) for w in a.words}
                if i < 0 and len(lens) == 1 and -i <= next(iter(lens)):
                    i = next(iter(lens)) + i
                outs = []
                for w in sorted(a.words):
                    if (i >= 0 and i >= len(w)) or (i < 0 and -i > len(w)):
                        self.err(f"`{txt(e)[:80]}`: index {i} out of range when {'/'.join(sorted(a.names))} has children "
                                 f"[{' '.join(v for _, v in w) or 'ε'}] (IndexError)")
                        continue
                    s = w[i]
                    pos = i if i >= 0 else f"{i}"
                    outs.append(self.sym(s, f"{a.path}/{pos}:{s[1]}"))
                if not outs:
                    return UNKNOWN
                return union(outs)
            if isinstance(sl, ast.Slice):
                lo = _const(sl.lower, 0)
                hi = _const(sl.upper, None)
                if lo is None or (sl.upper is not None and hi is None) or sl.step is not None:
                    return self.unk(f"slice {txt(sl)}")
                elems = []
                for w in sorted(a.words):
                    for j, s in enumerate(w[lo:hi]):
                        elems.append(self.sym(s, f"{a.path}/[{txt(sl)}]:{s[1]}"))
                return V("list", elem=union(elems) if elems else V("none", path="∅"), path="list")   # the slice is part of the element paths
            # dynamic index (loop variable): union of all children
            return self._elem(a)
        if a.kind == "list":
            if isinstance(sl, ast.Slice):
                pre = "" if a.path in ("list", "") else a.path
                return replace(a, path=f"{pre}[{txt(sl)}]")
            # element access: emptiness / count bounds matter
            if isinstance(a.const, tuple) and a.const and a.const[0] == "count":
                lo, hi = a.const[1], a.const[2]
                i = _const(sl, None)
                if i is not None and ((i >= 0 and i >= hi) or (i < 0 and -i > hi)):
                    self.err(f"`{txt(e)[:80]}`: index {i} but a node has at most {hi} such sub-tree(s) (IndexError on every input)")
                elif lo == 0 and not self._nonempty_fact(e.value, facts):
                    self.err(f"`{txt(e)[:80]}`: indexing a find_data() result that can be empty, without a length guard (IndexError)")
                elif i is not None and i > 0 and i >= lo and not self._nonempty_fact(e.value, facts):
                    self.err(f"`{txt(e)[:80]}`: index {i} but only {lo} such sub-tree(s) are guaranteed (IndexError)")
            elif a.const is not None and a.const == "maybe-empty" and not self._nonempty_fact(e.value, facts):
                self.err(f"`{txt(e)[:80]}`: indexing a find_data() result that can be empty, without a length guard (IndexError)")
            return a.elem or UNKNOWN
        if a.kind == "tuple":
            if isinstance(sl, ast.Constant) and isinstance(sl.value, int) and -len(a.items) <= sl.value < len(a.items):
                return a.items[sl.value]
            return union(list(a.items)) if a.items else UNKNOWN
        if a.kind == "dict":
            self.ev(sl, env, facts)
            return a.items[1] if a.items else UNKNOWN
        if a.kind == "str":
            return V("str", path=f"{a.path}[{txt(sl)}]")
        if a.kind == "tree":
            self.err(f"`{txt(e)[:80]}`: subscript on a tree ({a.sig()})")
            return UNKNOWN
        return self.unk(f"subscript on {a.kind}")

    def _elem(self, a: V) -> V:
        if a.kind == "children":
            outs = []
            for w in sorted(a.words or ()):
                for s in w:
                    outs.append(self.sym(s, f"{a.path}/*:{s[1]}"))
            return union(outs) if outs else V("none", path="∅")
        if a.kind in ("list",):
            el = a.elem or UNKNOWN
            mark = "" if a.path in ("list", "", "items", "keys", "values", "enumerate") else a.path
            if mark and el.kind != "none":
                # elements of a sliced / sorted / filtered / de-duplicated sequence: keep the marker
                return union([replace(x, path=f"{x.path}@{mark}") for x in alts(el)])
            return el
        if a.kind == "tuple":
            return union(list(a.items)) if a.items else UNKNOWN
        if a.kind == "dict":
            return a.items[0] if a.items else UNKNOWN
        if a.kind == "union":
            return union([self._elem(x) for x in a.items])
        return UNKNOWN

    # calls ---------------------------------------------------------------------------
    def ev_Call(self, e: ast.Call, env, facts):
        f = e.func
        if isinstance(f, ast.Name):
            nm = f.id
            if nm == "__elem__":
                return self._elem(self.ev(e.args[0], env, facts))
            if nm == "__phi__":
                return union([self.ev(a, env, facts) for a in e.args])
            if nm in ("__loop__", "__rest__", "__enter__"):
                return UNKNOWN
            if nm in ("list", "tuple", "sorted", "reversed", "iter", "set", "frozenset"):
                if not e.args:
                    return V("list", elem=V("none", path="∅"), path="list")
                a = self.ev(e.args[0], env, facts)
                reorder = nm in ("sorted", "reversed", "set", "frozenset")
                if a.kind == "list":
                    pre = "" if a.path in ("list", "") else a.path
                    return replace(a, path=(nm + pre) if reorder else a.path)
                el = self._elem(a)
                return V("list", elem=el, path=nm if reorder else "list")
            if nm == "enumerate":
                a = self.ev(e.args[0], env, facts)
                return V("list", elem=V("tuple", items=(V("int", path="index"), self._elem(a))), path="enumerate")
            if nm in ("float", "int", "str", "bool", "complex"):
                if not e.args:
                    return V(nm, path=nm + "()")
                a = self.ev(e.args[0], env, facts)
                outs = []
                for x in alts(a):
                    if x.kind == "tree" and nm != "bool":
                        self.err(f"`{txt(e)[:80]}`: {nm}() of a tree ({x.sig()})")
                    if nm == "str" and x.kind == "str":
                        outs.append(V("str", path=x.path, names=x.names))   # str of a str
                    elif nm == "str" and x.kind == "tok":
                        # NOT token.value: a Token is a str whose text is fixed at creation, while the conjugation step
                        # rewrites .value; str(token) of a CDecay-created line is still the source line's name
                        outs.append(V("str", path=f"text({x.path})", names=x.names))
                    else:
                        outs.append(V(nm, path=f"{nm}({x.sig()})"))
                return union(outs)
            if nm == "len":
                self.ev(e.args[0], env, facts)
                return V("int", path="len")
            if nm == "next":
                return self._elem(self.ev(e.args[0], env, facts))
            if nm == "isinstance":
                return V("bool", path="bool")
            if self.resolver is not None:
                r = self.resolver(nm)
                if r is not None:
                    return self._call_user(r, e, env, facts)
            args = [self.ev(a, env, facts) for a in e.args]
            return V("unknown", path=f"{nm}({', '.join(a.sig() for a in args)})")
        if isinstance(f, ast.Attribute):
            recv = self.ev(f.value, env, facts)
            if f.attr == "find_data":
                outs = []
                for a in alts(recv):
                    outs.append(self._find_data(a, e))
                return union(outs)
            if f.attr == "scan_values":
                return V("list", elem=V("tok", frozenset(["*"]), path=f"{recv.sig()}//tokens"), path="list")
            if f.attr in ("get",) and recv.kind in ("dict", "unknown"):
                args = [self.ev(a, env, facts) for a in e.args]
                return V("unknown", path=f"{recv.sig()}.get({', '.join(a.sig() for a in args)})")
            if f.attr in ("items",) and recv.kind == "dict":
                return V("list", elem=V("tuple", items=recv.items), path="items")
            if f.attr in ("keys",) and recv.kind == "dict":
                return V("list", elem=recv.items[0], path="keys")
            if f.attr in ("values",) and recv.kind == "dict":
                return V("list", elem=recv.items[1], path="values")
            args = [self.ev(a, env, facts) for a in e.args]
            for k in e.keywords:
                self.ev(k.value, env, facts)
            if args and all(a.kind in ("const", "unknown") and "/" not in a.sig() for a in args) and recv.kind == "unknown":
                return V("unknown", path=f"{recv.sig()}.{f.attr}(…)")    # e.g. re.compile(<constants>)
            return V("unknown", path=f"{recv.sig()}.{f.attr}({', '.join(a.sig() for a in args)})")
        return self.unk(f"call {txt(f)[:40]}")

    def _find_data(self, a: V, e: ast.Call) -> V:
        if not e.args or not (isinstance(e.args[0], ast.Constant) and isinstance(e.args[0].value, str)):
            return self.unk("find_data with a non-literal argument")
        lit = e.args[0].value
        self.find_data_literals.append(lit)
        if lit not in self.gf.tree_names:
            self.err(f"`{txt(e)[:80]}`: no tree is ever named '{lit}' in {self.gf.name} (find_data yields nothing)")
            return V("list", elem=V("none", path="∅"), path="list")
        if a.kind == "unknown":
            return V("list", elem=self.tree(lit, f"?//{lit}"), path="list", const="maybe-empty")
        if a.kind != "tree":
            self.err(f"`{txt(e)[:80]}`: find_data on a {a.kind}")
            return UNKNOWN
        if "start" in a.names:
            return V("list", elem=self.tree(lit, f"{a.path}//{lit}"), path="list", const="maybe-empty")
        lo = min(self.min_count(n, lit) for n in a.names)
        hi = max(self.max_count(n, lit) for n in a.names)
        return V("list", elem=self.tree(lit, f"{a.path}//{lit}"), path="list", const=("count", lo, hi))

    def min_count(self, root: str, target: str, _seen=None) -> int:
        """Minimum number of nodes named target in a subtree rooted at a node named root."""
        _seen = _seen or frozenset()
        if root in _seen:
            return 0
        base = 1 if root == target else 0
        best = None
        for w in self.gf.rule_words(root):
            c = 0
            for k, n in w:
                if k == "T":
                    c += self.min_count(n, target, _seen | {root})
            best = c if best is None else min(best, c)
        return base + (best or 0)

    def max_count(self, root: str, target: str, _seen=None) -> int:
        """Maximum number of nodes named target in a subtree rooted at root (999 = unbounded).
        In an unbounded rule a child symbol counts as repeatable when its multiplicity within the enumerated
        words reaches 3 (a symbol under * / + fills the length bound; a symbol outside it never does)."""
        _seen = _seen or frozenset()
        if root in _seen:
            return 999
        base = 1 if root == target else 0
        best = 0
        words = self.gf.rule_words(root)
        unb = self.gf.unbounded(root)
        for w in words:
            c = 0
            for sym in set(w):
                k, n = sym
                if k != "T":
                    continue
                sub = self.max_count(n, target, _seen | {root})
                if sub == 0:
                    continue
                mult = w.count(sym)
                if sub >= 999 or (unb and mult >= 3):
                    return 999
                c += sub * mult
            best = max(best, c)
        return min(999, base + best)

    def _call_user(self, r, e: ast.Call, env, facts) -> V:
        ff, flow = r
        if self.depth > 4:
            return UNKNOWN
        params = ff.params
        benv = {}
        for i, a in enumerate(e.args):
            if i < len(params):
                benv[params[i]] = self.ev(a, env, facts)
        for k in e.keywords:
            if k.arg in params:
                benv[k.arg] = self.ev(k.value, env, facts)
        self.depth += 1
        try:
            return self.eval_function(ff, flow, benv, outer_env=env)
        finally:
            self.depth -= 1

    def _builder(self, ff, flow, r: ast.Return, env) -> V | None:
        """Initialise-then-fill collections: the returned local is an empty list /
        dict filled by append / item stores / update in loops."""
        from .pyfacts import iter_stmts
        if not isinstance(r.value, ast.Name):
            return None
        ds = flow.defs_of(r.value)
        if len(ds) != 1 or ds[0].kind != "assign" or ds[0].value is None:
            return None
        init = ds[0].value
        is_list = isinstance(init, ast.List) and not init.elts
        is_dict = isinstance(init, ast.Dict) and not init.keys
        if not (is_list or is_dict):
            return None
        name = r.value.id
        elems, pairs = [], []
        for st in iter_stmts(ff.node.body):
            facts = None
            if isinstance(st, ast.Expr) and isinstance(st.value, ast.Call) and isinstance(st.value.func, ast.Attribute):
                c = st.value
                recv = c.func.value
                if isinstance(recv, ast.Name) and recv.id == name and c.args:
                    facts = _facts(ff, flow, st)
                    a = self.check(flow.expand(c.args[0]), env, facts)
                    if c.func.attr == "append":
                        elems.append(a)
                    elif c.func.attr == "extend":
                        elems.append(self._elem(a))
                    elif c.func.attr == "update" and a.kind == "dict":
                        pairs.append(a.items)
                    elif c.func.attr == "setdefault" and len(c.args) == 2 and ((isinstance(c.args[1], ast.Dict) and not c.args[1].keys)
                                                                               or (isinstance(c.args[1], ast.Call) and txt(c.args[1].func) == "dict" and not c.args[1].args)):
                        pass      # opens an (empty) group; the entries come from the d[group][key] = value stores
                    else:
                        return None
                elif isinstance(recv, ast.Subscript) and isinstance(recv.value, ast.Name) and recv.value.id == name \
                        and c.func.attr == "update" and c.args:
                    facts = _facts(ff, flow, st)
                    k = self.check(flow.expand(recv.slice), env, facts)
                    a = self.check(flow.expand(c.args[0]), env, facts)
                    pairs.append((k, a))
            elif isinstance(st, ast.Assign):
                for t in st.targets:
                    if isinstance(t, ast.Subscript) and isinstance(t.value, ast.Name) and t.value.id == name:
                        facts = _facts(ff, flow, st)
                        pairs.append((self.check(flow.expand(t.slice), env, facts), self.check(flow.expand(st.value), env, facts)))
                    elif isinstance(t, ast.Subscript) and isinstance(t.value, ast.Subscript) and isinstance(t.value.value, ast.Name) \
                            and t.value.value.id == name:
                        facts = _facts(ff, flow, st)
                        k = self.check(flow.expand(t.value.slice), env, facts)
                        k2 = self.check(flow.expand(t.slice), env, facts)
                        v = self.check(flow.expand(st.value), env, facts)
                        pairs.append((k, V("dict", items=(k2, v), path="dict")))
            elif isinstance(st, ast.AugAssign) and isinstance(st.target, ast.Name) and st.target.id == name:
                return None
        if is_list:
            return V("list", elem=union(elems) if elems else V("none", path="∅"), path="list")
        if not pairs:
            return V("dict", items=(V("none", path="∅"), V("none", path="∅")), path="{}")
        ks = union([p[0] for p in pairs])
        # merge nested dict values
        vals = [p[1] for p in pairs]
        if all(v.kind == "dict" for v in vals):
            vv = V("dict", items=(union([v.items[0] for v in vals]), union([v.items[1] for v in vals])), path="dict")
        else:
            vv = union(vals)
        return V("dict", items=(ks, vv), path="dict")

    def _static_bool(self, e, env):
        """True / False when the test is decided by the static type of a tree (`x.data == 'rule'`), else None."""
        if isinstance(e, ast.UnaryOp) and isinstance(e.op, ast.Not):
            v = self._static_bool(e.operand, env)
            return None if v is None else (not v)
        if isinstance(e, ast.BoolOp):
            vs = [self._static_bool(x, env) for x in e.values]
            if isinstance(e.op, ast.And):
                return False if any(v is False for v in vs) else (True if all(v is True for v in vs) else None)
            return True if any(v is True for v in vs) else (False if all(v is False for v in vs) else None)
        if isinstance(e, ast.Compare) and len(e.ops) == 1 and isinstance(e.ops[0], (ast.Eq, ast.NotEq)):
            sides = [e.left, e.comparators[0]]
            attr = [x for x in sides if isinstance(x, ast.Attribute) and x.attr == "data"]
            lit = [x for x in sides if isinstance(x, ast.Constant) and isinstance(x.value, str)]
            if len(attr) == 1 and len(lit) == 1:
                try:
                    v = self.ev(attr[0].value, env)
                except AttrErr:
                    return None
                if v.kind == "tree" and len(v.names) == 1:
                    same = next(iter(v.names)) == lit[0].value
                    return same if isinstance(e.ops[0], ast.Eq) else (not same)
        return None

    def eval_function(self, ff, flow, benv: dict, outer_env: dict | None = None) -> V:
        """Union of the function's return values for the given parameter values.
        A union-valued parameter is case-split so that the try/except
        AttributeError idiom types each alternative in the branch it reaches."""
        from .guards import path_conditions
        from .pyfacts import walk_no_nested
        split = [(p, v) for p, v in benv.items() if v.kind == "union"]
        if split:
            p, v = split[0]
            outs = []
            for a in v.items:
                e2 = dict(benv)
                e2[p] = a
                outs.append(self.eval_function(ff, flow, e2, outer_env))
            return union(outs)
        rets = [n for n in walk_no_nested(ff.node) if isinstance(n, ast.Return)]
        env = dict(outer_env or {})
        env.update(benv)
        # a `raise` whose guards are all statically true for a well-typed argument fires on every valid input
        for rz in [n for n in walk_no_nested(ff.node) if isinstance(n, ast.Raise)]:
            conds = path_conditions(ff.node, rz)
            if any(k == "exc" for k, _, _ in conds):
                continue
            vals = [self._static_bool(flow.expand(x), env) == pol for k, x, pol in conds if k == "if"]
            known = [self._static_bool(flow.expand(x), env) for k, x, pol in conds if k == "if"]
            if conds and all(v is not None for v in known) and all(vals):
                self.err(f"{ff.qualname}: `{txt(rz)[:60]}` is raised for every well-formed {'/'.join(sorted(n for v in benv.values() for n in v.names)) or 'input'} "
                         f"(guard `{'; '.join(txt(x)[:50] for k, x, p in conds if k == 'if')}` always holds)")
        outs = []
        attr_failed_trys: set[int] = set()
        # order: returns in try bodies first, handlers after
        def in_handler(r):
            for kind, x, pol in path_conditions(ff.node, r):
                if kind == "exc":
                    return x
            return None
        body_rets = [r for r in rets if in_handler(r) is None]
        hand_rets = [r for r in rets if in_handler(r) is not None]
        for r in body_rets:
            if r.value is None:
                outs.append(V("none", path="None"))
                continue
            b = self._builder(ff, flow, r, env)
            if b is not None:
                outs.append(b)
                continue
            conds = path_conditions(ff.node, r)
            facts = tuple(("T" if pol else "F", flow.text(x)) for kind, x, pol in conds if kind in ("if", "while"))
            ex = flow.expand(r.value)
            saved = list(self.errors)
            try:
                outs.append(self.ev(ex, env, facts))
            except AttrErr:
                # does an `except AttributeError` handler protect this return?
                prot = _protecting_try(ff.node, r)
                if prot is not None:
                    self.errors = saved
                    attr_failed_trys.add(id(prot))
                else:
                    outs.append(UNKNOWN)
        for r in hand_rets:
            h = in_handler(r)
            tr = _try_of_handler(ff.node, h)
            hn = [] if h.type is None else ([txt(t) for t in h.type.elts] if isinstance(h.type, ast.Tuple) else [txt(h.type)])
            if hn == ["AttributeError"] and id(tr) not in attr_failed_trys:
                continue   # handler unreachable for this alternative of the union
            if r.value is None:
                outs.append(V("none", path="None"))
                continue
            ex = flow.expand(r.value)
            try:
                outs.append(self.ev(ex, env, ()))
            except AttrErr:
                outs.append(UNKNOWN)
        if not outs:
            return V("none", path="None")
        return union(outs)


def _facts(ff, flow, st):
    from .guards import path_conditions
    return tuple(("T" if pol else "F", flow.text(x)) for kind, x, pol in path_conditions(ff.node, st) if kind in ("if", "while"))


def _const(e, default):
    if e is None:
        return default
    if isinstance(e, ast.Constant) and isinstance(e.value, int):
        return e.value
    if isinstance(e, ast.UnaryOp) and isinstance(e.op, ast.USub) and isinstance(e.operand, ast.Constant):
        return -e.operand.value
    return None


def _protecting_try(fn, node):
    from .pyfacts import parent_map
    pm = parent_map(fn)
    x = node
    while id(x) in pm:
        p = pm[id(x)]
        if isinstance(p, ast.Try) and any(x is s for s in p.body):
            for h in p.handlers:
                names = [] if h.type is None else ([txt(t) for t in h.type.elts] if isinstance(h.type, ast.Tuple) else [txt(h.type)])
                if h.type is None or any(n in ("AttributeError", "Exception", "BaseException") for n in names):
                    return p
        x = p
    return None


def _try_of_handler(fn, h):
    from .pyfacts import parent_map
    return parent_map(fn).get(id(h))
