"""Command line of the static checker (see DESIGN.md §3 and §9)."""
from __future__ import annotations

import importlib
import json
import os
import sys
import time

from .core import report
from .core.source import AnchorMissing, SourceSet

PROPS = [f"C{i:02d}" for i in range(1, 21)]
TRUSTED = [
    "CPython semantics of the constructs the rules reason about",
    "Lark 1.3.1 grammar loading, LALR construction, contextual lexing, tree building, Visitor/Transformer dispatch",
    "third-party packages (particle, hepunits, pandas, graphviz, plumbum) as data/API providers",
    "the analyser itself; liveness is checked by the mutant/benign self-test (thorough tier)",
]


def evaluate(prop: str, tier: str, ss: SourceSet | None = None, selftest: bool = True):
    """Run the rules of one property on a SourceSet; returns (ctx, module, ss)."""
    ctx = report.Ctx(prop, tier)
    mod = None
    try:
        mod = importlib.import_module(f"sa.rules.{prop.lower()}")
        ss = ss or SourceSet.load()
        mod.run(ctx, ss)
        if tier == "thorough" and hasattr(mod, "thorough"):
            mod.thorough(ctx, ss)
        if tier == "thorough" and selftest:
            from .selftest import harness
            harness.selftest_property(ctx, prop, ss)
    except AnchorMissing as e:
        ctx.undecided(f"{prop}.*", "setup", "-", f"{e}")
    except Exception as e:  # never a traceback-as-exit-1
        import traceback
        ctx.undecided(f"{prop}.*", "analyser", "-", f"{type(e).__name__}: {e} :: " + " | ".join(traceback.format_exc().strip().splitlines()[-4:]))
    return ctx, mod, ss


def run_property(prop: str, tier: str, ss: SourceSet | None = None) -> int:
    t0 = time.time()
    seed = int(os.environ.get("VERIF_SEED", "0") or 0)
    ctx, mod, ss = evaluate(prop, tier, ss)
    digest = ss.digest(getattr(mod, "FILES", None)) if ss is not None else "-"
    return report.finish(
        ctx,
        explanation=getattr(mod, "EXPLANATION", "static rules"),
        not_decided=getattr(mod, "NOT_DECIDED", []),
        trusted=TRUSTED,
        digest=digest,
        t0=t0,
        seed=seed,
    )


def main(argv: list[str]) -> int:
    if not argv:
        print(__doc__)
        return 2
    if argv[0] == "--selfcheck":
        from .core.larkfacts import grammar_facts
        ss = SourceSet.load()
        grammar_facts(ss, "data/decfile.lark").rule_words("decayline")
        grammar_facts(ss, "data/ampgen.lark").rule_words("decay")
        for p in PROPS:
            importlib.import_module(f"sa.rules.{p.lower()}")
        print("selfcheck ok:", len(ss.files), "source files,", ss.digest())
        return 0
    if argv[0] == "--replay":
        with open(argv[1]) as f:
            r = json.load(f)
        return run_property(r["property"], r.get("tier", "quick"))
    if argv[0] == "--all":
        tier = argv[1] if len(argv) > 1 else "quick"
        worst = 0
        for p in PROPS:
            try:
                importlib.import_module(f"sa.rules.{p.lower()}")
            except ModuleNotFoundError:
                continue
            worst = max(worst, run_property(p, tier))
        return worst
    prop = argv[0].upper()
    tier = argv[1] if len(argv) > 1 else os.environ.get("VERIF_TIER", "quick")
    if prop not in PROPS or tier not in ("quick", "thorough"):
        print("usage: ./check Cnn quick|thorough")
        return 2
    return run_property(prop, tier)


if __name__ == "__main__":
    try:
        rc = main(sys.argv[1:])
    except Exception as e:  # last resort: analysis error, never exit 1
        print(f"ANALYSIS-ERROR {type(e).__name__}: {e}")
        rc = 2
    sys.stdout.flush()
    sys.exit(rc)
