"""C01 — decay tables are exactly what the file states (DESIGN.md §4 C01)."""
from __future__ import annotations

import ast
import re

from ..core import guards
from ..core import pyfacts as pf
from ..core.defuse import is_identity
from ..core.larkfacts import grammar_facts, symbols_str
from ..core.match import canon, phi_alts, txt
from ..core.rx import Rx, includes, witness_not_in
from ..core.source import AnchorMissing
from .common import (DEC, DECGRAMMAR, accessor_sig, ckey, enclosing, fn, method_calls, post_replacement_grammar,
                     returns, single_def, stmt_of, where)

PROP = "C01"
FILES = [DEC, DECGRAMMAR]
EXPLANATION = (
    "C01.1 child-word shapes of decay/decayline/value/particle/photos/model/model_options computed from Lark's "
    "compiled grammar; C01.2 regular-language checks of LABEL, SIGNED_NUMBER, INT (alphabet, inclusion in the "
    "reference numeric language and in what float()/int() accept) with witness strings; C01.3 flow signatures of "
    "the decay-line accessors type-checked against every child word; C01.4 the PHOTOS prefix is unreachable for "
    "lines without the flag and the four reported fields are the four accessors of the same line; C01.5 parse() runs "
    "lookup, alias replacement over all tables, parameter replacement over all tables, copies, conjugates in this "
    "order on every normal path; C01.6 duplicate removal runs from the end and removes count-1 per repeated mother; "
    "C01.7 visitor/transformer callbacks name existing grammar rules.")
NOT_DECIDED = ["that Lark's LALR parser builds the tree the grammar denotes (trusted)",
               "float equality of literal and reported number beyond 'it is float(token)'",
               "every published model name (decided under C06)"]

G = DECGRAMMAR


def run(ctx, ss):
    from .common import keyword_vocabulary
    ctx.guard("C01.1", keyword_vocabulary, ss, "C01.1", ('decay', 'photos', 'cdecay', 'copydecay'), ())
    for r, f in (("C01.1", c01_1), ("C01.2", c01_2), ("C01.3", c01_3), ("C01.4", c01_4),
                 ("C01.5", c01_5), ("C01.6", c01_6), ("C01.7", c01_7), ("C01.8", c01_8)):
        ctx.guard(r, f, ss)
    # shared clauses: the lookup of a mother's table (C09.5) and the numeric / Define'd parameter conversion (C05.3)
    from .c05 import _as, c05_3
    from .c09 import c09_5
    ctx.guard("C01.8", lambda c, s: _as(c, s, c09_5, "C01.8"), ss)
    ctx.guard("C01.9", lambda c, s: _as(c, s, c05_3, "C01.9"), ss)
    # C01.10 the reading path file -> text -> tables -> reported table remembers nothing from an earlier input (shared.py)
    from .shared import reading_path
    ctx.guard("C01.10", reading_path, ss, "C01.10", ["DecFileParser.list_decay_modes", "DecFileParser._find_decay_modes", "DecFileParser.list_decay_mother_names",
                                                    "DecFileParser._decay_mode_details", "DecFileParser.print_decay_modes"], "a decay table")
    # what a table query reports depends on this parser's parsed text only: the observation functions write no parser /
    # class / module state (a cache shared between parsers would make one text's tables show up for another)
    from .c09 import no_state_effects
    for q_ in ("DecFileParser._find_decay_modes", "DecFileParser.list_decay_modes", "DecFileParser.list_decay_mother_names", "DecFileParser._decay_mode_details"):
        ff_, _fl = fn(ss, DEC, q_)
        ctx.guard("C01.8", no_state_effects, ss, "C01.8", ff_, True)


# ---------------------------------------------------------------------------------------
SHAPES = {
    # tree name: (regex over the word string, witnesses that must exist, must be unbounded?)
    "decay": (r"T:particle( T:decayline)*", ["T:particle", "T:particle T:decayline", "T:particle T:decayline T:decayline"], True),
    "decayline": (r"T:value( T:particle)*( T:photos)? T:model",
                  ["T:value T:model", "T:value T:particle T:model", "T:value T:photos T:model",
                   "T:value T:particle T:particle T:photos T:model"], True),
    "value": (r"K:SIGNED_NUMBER", ["K:SIGNED_NUMBER"], False),
    "particle": (r"K:LABEL", ["K:LABEL"], False),
    "photos": (r"ε", ["ε"], False),
    "model": (r"(K:MODEL_NAME( T:model_options)?|T:model_label)", ["K:MODEL_NAME", "K:MODEL_NAME T:model_options"], False),
    "model_options": (r"(ε|(T:value|K:LABEL)( (T:value|K:LABEL))*)", ["K:LABEL", "T:value", "K:LABEL T:value", "T:value K:LABEL"], True),
}


def c01_1(ctx, ss):
    gf = grammar_facts(ss, G)
    ctx.count("grammar_rules", len(gf.rule_defs))
    for name, (rx, wit, unb) in SHAPES.items():
        words = set(gf.word_strs(name))
        bad = sorted(w for w in words if not re.fullmatch(rx, w))
        missing = [w for w in wit if w not in words]
        k = f"{G}:{name}"
        if bad:
            ctx.violation("C01.1", k, f"src/decaylanguage/{G}", f"rule `{name}` can have children [{bad[0]}], outside the shape {rx}", len(words))
        elif missing:
            ctx.violation("C01.1", k, f"src/decaylanguage/{G}", f"rule `{name}` can no longer have children [{missing[0]}] (shape {rx})", len(words))
        elif unb and not gf.unbounded(name):
            ctx.violation("C01.1", k, f"src/decaylanguage/{G}", f"rule `{name}` no longer repeats without bound", len(words))
        else:
            ctx.holds("C01.1", k, f"src/decaylanguage/{G}", f"child words of `{name}` ⊆ {rx}, witnesses present ({len(words)} words ≤ len {gf.bound})", len(words))
    for root in ("model", "value", "photos"):
        below = gf.reachable_trees(root)
        if "particle" in below:
            ctx.violation("C01.1", f"{G}:particle-below-{root}", f"src/decaylanguage/{G}",
                          f"a `particle` node can occur below `{root}`: find_data('particle') of a decay line would report it as a daughter")
        else:
            ctx.holds("C01.1", f"{G}:particle-below-{root}", f"src/decaylanguage/{G}", f"no `particle` node below `{root}`", len(below) + 1)
    for a, b in (("decayline", "decayline"), ("decay", "decay"), ("decay", "model_alias")):
        below = gf.reachable_trees(a)
        if b in below:
            ctx.violation("C01.1", f"{G}:{b}-below-{a}", f"src/decaylanguage/{G}", f"`{b}` can nest below `{a}`")
        else:
            ctx.holds("C01.1", f"{G}:{b}-below-{a}", f"src/decaylanguage/{G}", f"`{b}` never nests below `{a}`", len(below) + 1)


REF_NUM = r"[+-]?(?:[0-9]+(?:\.[0-9]*)?|\.[0-9]+)(?:[eE][+-]?[0-9]+)?"
FLOAT_OK = r"[+-]?(?:[0-9]+\.?[0-9]*|\.[0-9]+)(?:[eE][+-]?[0-9]+)?"
INT_OK = r"[+-]?[0-9]+"
LABEL_CHARS = set("abcdefghijklmnopqrstuvwxyzABCDEFGHIJKLMNOPQRSTUVWXYZ0123456789/-+*_().'~")


def c01_2(ctx, ss):
    gf = grammar_facts(ss, G)
    w = f"src/decaylanguage/{G}"
    lab = Rx(gf.term_regex("LABEL"))
    cs = lab.charset()
    miss = sorted(LABEL_CHARS - cs)
    if miss:
        ctx.violation("C01.2", f"{G}:LABEL:alphabet", w, f"LABEL no longer accepts the character(s) {miss}: witness label {miss[0]!r}", lab.n_states())
    else:
        ctx.holds("C01.2", f"{G}:LABEL:alphabet", w, f"LABEL alphabet ⊇ the {len(LABEL_CHARS)} listed characters", lab.n_states())
    # no terminal of the statement language matches the empty string (Lark refuses to build a lexer with a zero-width terminal)
    for tn in ("LABEL", "SIGNED_NUMBER", "_NEWLINE", "COMMENT"):
        okz = not Rx(gf.term_regex(tn)).accepts("")
        (ctx.holds if okz else ctx.violation)("C01.2", f"{G}:{tn}:non-empty", w, f"{tn} never matches the empty string" if okz
                                              else f"{tn} matches the empty string: no parser can be built from the grammar", 1)
    # closure: every non-empty string over the listed alphabet is a LABEL
    cls = "[" + "".join(re.escape(c) for c in sorted(LABEL_CHARS)) + "]+"
    wit = includes(lab, Rx(cls))
    if wit is not None:
        ctx.violation("C01.2", f"{G}:LABEL:closure", w, f"LABEL is not closed over its alphabet: {wit!r} is not a LABEL", lab.n_states())
    else:
        ctx.holds("C01.2", f"{G}:LABEL:closure", w, "every non-empty string over the listed alphabet is one LABEL", lab.n_states())
    sn = Rx(gf.term_regex("SIGNED_NUMBER"))
    wit = includes(sn, Rx(REF_NUM))
    if wit is not None:
        ctx.violation("C01.2", f"{G}:SIGNED_NUMBER:forms", w, f"numeric literal {wit!r} is no longer a SIGNED_NUMBER", sn.n_states())
    else:
        ctx.holds("C01.2", f"{G}:SIGNED_NUMBER:forms", w, "L(SIGNED_NUMBER) ⊇ [+-]?(d+(.d*)?|.d+)([eE][+-]?d+)? (covers 1, 1., .5, -0.8, +3, 20.e12, 2E-4)", sn.n_states())
    wit = includes(Rx(FLOAT_OK), sn)
    if wit is not None:
        ctx.violation("C01.2", f"{G}:SIGNED_NUMBER:float", w, f"SIGNED_NUMBER accepts {wit!r}, which float() rejects", sn.n_states())
    else:
        ctx.holds("C01.2", f"{G}:SIGNED_NUMBER:float", w, "every SIGNED_NUMBER is accepted by float()", sn.n_states())
    it = Rx(gf.term_regex("INT"))
    wit = includes(Rx(INT_OK), it)
    if wit is not None or it.is_empty():
        ctx.violation("C01.2", f"{G}:INT:int", w, f"INT accepts {wit!r}, which int() rejects", it.n_states())
    else:
        ctx.holds("C01.2", f"{G}:INT:int", w, "every INT is accepted by int()", it.n_states())
    ctx.count("dfa_states", lab.n_states() + sn.n_states() + it.n_states())


SPEC3 = {
    # function: (param, tree, expected flow signature, post-replacement view?)
    "get_decay_mother_name": ("decay_tree", "decay", "decay/0:particle/0:LABEL", False),
    "get_branching_fraction": ("decay_mode", "decayline", "float(decayline/0:value/0:SIGNED_NUMBER)", False),
    "get_final_state_particle_names": ("decay_mode", "decayline", "[decayline//particle/0:LABEL]", False),
    "get_final_state_particles": ("decay_mode", "decayline", "[decayline//particle]", False),
    "get_model_name": ("decay_mode", "decayline", "decayline//model/0:MODEL_NAME", True),
    "get_model_parameters": ("decay_mode", "decayline",
                             "('' | [(decayline//model_options/*:LABEL | decayline//model_options/*:value/0:SIGNED_NUMBER)])", True),
    "get_decays": ("parsed_file", "start", "[start//decay]", False),
}


def c01_3(ctx, ss):
    gf = grammar_facts(ss, G)
    gpost = post_replacement_grammar(gf)
    for q, (param, tree, want, post) in SPEC3.items():
        sig, errs, unk, tt = accessor_sig(ss, gpost if post else gf, DEC, q, param, tree)
        ff = pf.func(ss, DEC, q)
        k = f"{DEC}:{q}"
        if errs:
            ctx.violation("C01.3", k + " :: type", where(ff, ff.node), f"{q}: {errs[0]}", len(tt.find_data_literals) + 1)
            continue
        if sig == want:
            ctx.holds("C01.3", k, where(ff, ff.node), f"{q} = {sig}", len(tt.find_data_literals) + 2)
        elif "?" in sig or unk:
            ctx.undecided("C01.3", k, where(ff, ff.node), f"{q}: flow signature not fully understood: {sig} {unk[:2]}")
        else:
            ctx.violation("C01.3", k, where(ff, ff.node), f"{q} reads `{sig}`, the property needs `{want}`", 2)
    ctx.count("accessors", len(SPEC3))


def _photos_test(flow, e, param="decay_mode"):
    """Is e (expanded) a test of 'this line has a photos node'? -> True if positive form."""
    t = txt(e)
    if "find_data('photos')" not in t:
        return None
    calls = [c for c in ast.walk(e) if isinstance(c, ast.Call) and isinstance(c.func, ast.Attribute) and c.func.attr == "find_data"]
    if len(calls) != 1 or not is_identity(calls[0].func.value, param):
        return None
    # accepted positive forms: list(X) / tuple(X) / any(X) / len(list(X)) > 0 / len(...) != 0 / bool(...)
    x = e
    if isinstance(x, ast.Call) and isinstance(x.func, ast.Name) and x.func.id in ("list", "tuple", "any", "bool"):
        return True
    if isinstance(x, ast.Compare) and len(x.ops) == 1 and isinstance(x.left, ast.Call) and txt(x.left.func) == "len" \
            and isinstance(x.comparators[0], ast.Constant):
        k, op = x.comparators[0].value, type(x.ops[0])
        if (op is ast.Gt and k == 0) or (op is ast.GtE and k == 1) or (op is ast.NotEq and k == 0) or (op is ast.Eq and k == 1):
            return True
        if (op is ast.Eq and k == 0) or (op is ast.Lt and k == 1):
            return False
    return None


def c01_4(ctx, ss):
    ff, flow = fn(ss, DEC, "DecFileParser._decay_mode_details")
    ctx.count("functions")
    # statements that put "PHOTOS" into the model string
    sites = []
    for st in pf.iter_stmts(ff.node.body):
        if isinstance(st, ast.Expr) and isinstance(st.value, ast.Constant):
            continue   # docstring
        if isinstance(st, (ast.Assign, ast.AugAssign, ast.Return, ast.Expr)):
            for c in ast.walk(st):
                if isinstance(c, ast.Constant) and isinstance(c.value, str) and "PHOTOS" in c.value:
                    sites.append(st)
                    break
    if not sites:
        ctx.violation("C01.4", ckey(ff, None, "no-prefix"), where(ff, ff.node), "the PHOTOS flag of a decay line is never reported")
        return

    def atom_noflag(e):
        r = _photos_test(flow, e)
        return None if r is None else (not r)

    def atom_flag_and_display(e):
        r = _photos_test(flow, e)
        if r is not None:
            return r
        if isinstance(e, ast.Name) and e.id == "display_photos_keyword":
            return True
        return None

    for st in sites:
        conds = [c for c in guards.path_conditions(ff.node, st) if c[0] in ("if", "while")]
        k = ckey(ff, st)
        inline_ok = None
        if not conds:
            # conditional expression form: model = ("PHOTOS " + m) if test else m
            ife = [x for x in ast.walk(st) if isinstance(x, ast.IfExp)]
            if ife:
                t = flow.expand(ife[0].test)
                v = guards.k3(t, atom_noflag)
                body_has = any(isinstance(c, ast.Constant) and isinstance(c.value, str) and "PHOTOS" in c.value for c in ast.walk(ife[0].body))
                inline_ok = (v is False and body_has) or (v is True and not body_has)
        r = guards.reachable_under(conds, atom_noflag, flow) if inline_ok is None else (False if inline_ok else True)
        if r is False:
            ctx.holds("C01.4", k + " :: noflag", where(ff, st), "assuming the line has no photos node, the PHOTOS prefix is unreachable", len(conds) + 1)
        else:
            ctx.violation("C01.4", k + " :: noflag", where(ff, st), "the PHOTOS prefix can be reported for a decay line that does not carry the flag")
        if inline_ok is None:
            r2 = guards.reachable_under(conds, atom_flag_and_display, flow)
            if r2 is True:
                ctx.holds("C01.4", k + " :: flag", where(ff, st), "with the flag present and display on, the prefix is added", len(conds) + 1)
            else:
                ctx.violation("C01.4", k + " :: flag", where(ff, st), "the PHOTOS prefix additionally depends on something other than the line's flag and the display option")
    dflt = ff.node.args.defaults
    okd = len(dflt) == 1 and isinstance(dflt[0], ast.Constant) and dflt[0].value is True
    (ctx.holds if okd else ctx.violation)("C01.4", ckey(ff, None, "default"), where(ff, ff.node),
                                          "the PHOTOS flag is reported by default" if okd else "display_photos_keyword no longer defaults to True: the PHOTOS flag of a line is not reported by default")
    details_fields(ctx, ss, "C01.4")


def details_fields(ctx, ss, rule):
    """The four reported fields of one decay line are the four accessors applied to that very line
    (shared: C01.4 and C16.9 — the printed rows are built from these fields)."""
    ff, flow = fn(ss, DEC, "DecFileParser._decay_mode_details")
    rets = returns(ff)
    if len(rets) != 1:
        raise AnchorMissing("_decay_mode_details: expected one return")
    rv = rets[0].value
    fields = {}
    if isinstance(rv, ast.Call) and not rv.args:
        fields = {kw.arg: kw.value for kw in rv.keywords}
    elif isinstance(rv, ast.Dict):
        fields = {k.value: v for k, v in zip(rv.keys, rv.values) if isinstance(k, ast.Constant)}
    else:
        raise AnchorMissing("_decay_mode_details: return is neither a keyword call nor a dict literal")
    want = {"bf": "get_branching_fraction", "fs": "get_final_state_particle_names",
            "model": "get_model_name", "model_params": "get_model_parameters"}
    if set(fields) != set(want):
        ctx.violation(rule, ckey(ff, rets[0], "fields"), where(ff, rets[0]), f"reported fields are {sorted(fields)}, expected {sorted(want)}")
        return
    for name, acc in want.items():
        e = flow.expand(fields[name])
        alts_ = phi_alts(e)
        ok = True
        for a in alts_:
            core = a
            if name == "model":
                # the reported model may carry the display prefix "PHOTOS ": strip a textual prefix in any of its spellings
                def _is_prefix(x):
                    return (isinstance(x, ast.Constant) and isinstance(x.value, str)) or \
                        (isinstance(x, ast.IfExp) and _is_prefix(x.body) and _is_prefix(x.orelse))
                for _ in range(4):
                    if isinstance(core, ast.BinOp) and isinstance(core.op, ast.Add) and _is_prefix(core.left):
                        core = core.right
                    elif isinstance(core, ast.IfExp):
                        core = core.orelse
                    elif isinstance(core, ast.JoinedStr) and core.values and isinstance(core.values[-1], ast.FormattedValue) and core.values[-1].format_spec is None \
                            and all((isinstance(v_, ast.Constant)) or (isinstance(v_, ast.FormattedValue) and _is_prefix(v_.value)) for v_ in core.values[:-1]):
                        core = core.values[-1].value
                    else:
                        break
            if not (isinstance(core, ast.Call) and txt(core.func) == acc and len(core.args) == 1 and not core.keywords
                    and is_identity(core.args[0], "decay_mode")):
                # not the accessor call itself: accept an expression that reads the same grammar positions with the same conversions
                if not _same_signature(ss, core, acc):
                    ok = False
        kk = ckey(ff, rets[0], f"field:{name}")
        if ok:
            ctx.holds(rule, kk, where(ff, rets[0]), f"field `{name}` = {acc}(decay_mode)", len(alts_))
        else:
            ctx.violation(rule, kk, where(ff, rets[0]), f"field `{name}` is `{txt(e)[:120]}`, not {acc}(<this decay line>)")


def _same_signature(ss, expr, acc) -> bool:
    from ..core.treetypes import TreeTyper
    from .common import module_resolver
    try:
        gp = post_replacement_grammar(grammar_facts(ss, G))
        want, errs, unk, _ = accessor_sig(ss, gp, DEC, acc, "decay_mode", "decayline")
        tt = TreeTyper(gp, module_resolver(ss, DEC))
        got = tt.ev(expr, {"decay_mode": tt.tree("decayline")}, ())
        return not errs and not tt.errors and not tt.unknown and "?" not in got.sig() and got.sig() == want
    except Exception:
        return False


def _self_attr_store(st, attr):
    if isinstance(st, (ast.Assign, ast.AnnAssign)):
        ts = st.targets if isinstance(st, ast.Assign) else [st.target]
        for t in ts:
            if isinstance(t, ast.Attribute) and t.attr == attr and isinstance(t.value, ast.Name) and t.value.id == "self":
                return True
    return False


def c01_5(ctx, ss):
    ff, flow = fn(ss, DEC, "DecFileParser.parse")
    cfg = flow.cfg
    ctx.count("functions")
    stmts = list(pf.iter_stmts(ff.node.body))
    steps = {}
    multi = {"copy": [], "cc": [], "param": []}
    # 1 parse
    for st in stmts:
        if _self_attr_store(st, "_parsed_dec_file") and isinstance(st.value, ast.Call) and isinstance(st.value.func, ast.Attribute) \
                and st.value.func.attr == "parse":
            steps["parse"] = st
            a = st.value.args[0] if st.value.args else None
            if a is None or flow.text(a) != "self._dec_file":
                ctx.violation("C01.5", ckey(ff, st, "input"), where(ff, st), f"the parser is run on `{flow.text(a) if a is not None else None}`, not on self._dec_file")
            else:
                ctx.holds("C01.5", ckey(ff, st, "input"), where(ff, st), "parser.parse(self._dec_file) stored in self._parsed_dec_file", 2)
    for st in stmts:
        if isinstance(st, ast.Expr) and isinstance(st.value, ast.Call) and txt(st.value.func) == "self._find_parsed_decays":
            steps["find"] = st
        if isinstance(st, ast.Expr) and isinstance(st.value, ast.Call) and txt(st.value.func) == "self._add_decays_to_be_copied":
            steps["copy"] = st
            multi["copy"].append(st)
        if isinstance(st, ast.Expr) and isinstance(st.value, ast.Call) and txt(st.value.func) == "self._add_charge_conjugate_decays":
            steps["cc"] = st
            multi["cc"].append(st)
    # 3 alias replacement over all tables
    for st in stmts:
        if _self_attr_store(st, "_parsed_decays") and "DecayModelAliasReplacement" in flow.text(st.value):    # (expanded: the transformer may be built once before)
            steps["alias"] = st
            v = st.value
            if isinstance(v, ast.Name):
                # the new list built under a local name first, then stored
                ds_ = flow.defs_of(v)
                if len(ds_) == 1 and ds_[0].kind == "assign" and isinstance(ds_[0].value, ast.ListComp):
                    v = ds_[0].value
            ok = isinstance(v, ast.ListComp) and len(v.generators) == 1 and not v.generators[0].ifs \
                and txt(v.generators[0].iter) == "self._parsed_decays"
            if ok:
                elt = v.elt
                ok = isinstance(elt, ast.Call) and isinstance(elt.func, ast.Attribute) and elt.func.attr == "transform" \
                    and len(elt.args) == 1 and isinstance(elt.args[0], ast.Name) and elt.args[0].id == txt(v.generators[0].target)
            if ok:
                ctx.holds("C01.5", ckey(ff, None, "alias-all"), where(ff, st), "alias replacement maps over the whole self._parsed_decays (no filter, no slice)", 3)
            else:
                ctx.violation("C01.5", ckey(ff, None, "alias-all"), where(ff, st),
                              f"alias replacement does not cover every table: `{txt(v)[:140]}`")
    # 4 parameter replacement loop
    for st in stmts:
        if isinstance(st, ast.For) and any("DecayModelParamValueReplacement" in flow.text(c.func) for c in pf.calls_in(st)):
            steps["param"] = st
            multi["param"].append(st)
            okit = flow.text(st.iter) in ("self._parsed_decays",) or txt(st.iter) == "self._parsed_decays"
            exits = [x for x in ast.walk(st) if isinstance(x, (ast.Break, ast.Continue, ast.Return))]
            visit = [c for c in pf.calls_in(st) if isinstance(c.func, ast.Attribute) and c.func.attr == "visit"]
            okv = len(visit) == 1 and len(visit[0].args) == 1 and isinstance(visit[0].args[0], ast.Name) \
                and isinstance(st.target, ast.Name) and visit[0].args[0].id == st.target.id
            conds = [c for c in guards.path_conditions(st, stmt_of(ff, visit[0])) if c[0] == "if"] if visit else []
            if okit and not exits and okv and not conds:
                ctx.holds("C01.5", ckey(ff, None, "param-all"), where(ff, st), "parameter replacement visits every tree of self._parsed_decays", 4)
            else:
                ctx.violation("C01.5", ckey(ff, None, "param-all"), where(ff, st),
                              f"parameter replacement does not visit every table unconditionally (iter `{txt(st.iter)}`, early exits {len(exits)}, guards {len(conds)})")
    need = ["parse", "find", "alias", "param", "copy", "cc"]
    for n in need:
        if n not in steps:
            ctx.violation("C01.5", ckey(ff, None, f"step:{n}"), where(ff, ff.node), f"parse() has no `{n}` step any more")
    if any(n not in steps for n in need):
        return
    nodes = {n: cfg.node_of(steps[n]) for n in need}
    # mandatory steps are on every normal path; order by dominance
    for n in ("parse", "find", "alias", "param"):
        if cfg.must_pass({nodes[n]}):
            ctx.holds("C01.5", ckey(ff, None, f"mpt:{n}"), where(ff, steps[n]), f"every normal path of parse() runs the `{n}` step", 1)
        else:
            ctx.violation("C01.5", ckey(ff, None, f"mpt:{n}"), where(ff, steps[n]), f"some normal path of parse() skips the `{n}` step")
    order = [("parse", "find"), ("find", "alias"), ("alias", "param"), ("param", "copy"), ("param", "cc"), ("copy", "cc")]
    for a, b in order:
        if cfg.dominates(nodes[a], nodes[b]) and not cfg.reachable(nodes[b], nodes[a]):
            ctx.holds("C01.5", ckey(ff, None, f"order:{a}<{b}"), where(ff, steps[b]), f"`{a}` always precedes `{b}`", 2)
        elif a == "copy" and not cfg.reachable(nodes[b], nodes[a]) and cfg.reachable(nodes[a], nodes[b]):
            ctx.holds("C01.5", ckey(ff, None, f"order:{a}<{b}"), where(ff, steps[b]), f"`{a}` (conditional) is never after `{b}`", 2)
        else:
            ctx.violation("C01.5", ckey(ff, None, f"order:{a}<{b}"), where(ff, steps[b]), f"`{b}` can run before / without `{a}`")
    for n, sts in multi.items():
        for st in sts:
            if st is steps[n]:
                continue
            nd = cfg.node_of(st)
            if n == "param":
                if not cfg.dominates(nodes["alias"], nd):
                    ctx.violation("C01.5", ckey(ff, None, "order:alias<param#extra"), where(ff, st),
                                  "a parameter-replacement pass runs before alias replacement: aliased models are visited in their shared definition, not per use")
                continue
            if not cfg.dominates(nodes["param"], nd):
                ctx.violation("C01.5", ckey(ff, None, f"order:param<{n}#extra"), where(ff, st),
                              f"an additional `{n}` step runs before parameter replacement has covered all tables")
    # _find_parsed_decays = get_decays(self._parsed_dec_file) then the duplicate check
    gf_, gflow = fn(ss, DEC, "DecFileParser._find_parsed_decays")
    st_assign = [s for s in pf.iter_stmts(gf_.node.body) if _self_attr_store(s, "_parsed_decays")]
    st_check = [s for s in pf.iter_stmts(gf_.node.body) if isinstance(s, ast.Expr) and isinstance(s.value, ast.Call)
                and txt(s.value.func) == "self._check_parsed_decays"]
    if len(st_assign) == 1 and txt(st_assign[0].value) == "get_decays(self._parsed_dec_file)" and len(st_check) == 1 \
            and gflow.cfg.dominates(gflow.cfg.node_of(st_assign[0]), gflow.cfg.node_of(st_check[0])) \
            and gflow.cfg.must_pass({gflow.cfg.node_of(st_check[0])}):
        ctx.holds("C01.5", ckey(gf_, None, "find"), where(gf_, gf_.node), "_parsed_decays = get_decays(self._parsed_dec_file), then duplicates are checked on every path", 3)
    else:
        ctx.violation("C01.5", ckey(gf_, None, "find"), where(gf_, gf_.node), "_find_parsed_decays no longer stores get_decays(self._parsed_dec_file) followed by the duplicate check")


def _removal_sites(ff):
    """(kind, node, loop) for every removal from self._parsed_decays: 'by-value' = .remove(x),
    'by-position' = del self._parsed_decays[i] / .pop(i)."""
    out = []
    for n in pf.walk_no_nested(ff.node):
        if isinstance(n, ast.Call) and isinstance(n.func, ast.Attribute) and txt(n.func.value) == "self._parsed_decays":
            if n.func.attr == "remove":
                out.append(("by-value", n))
            elif n.func.attr == "pop" and n.args:
                out.append(("by-position", n))
        elif isinstance(n, ast.Delete):
            for t in n.targets:
                if isinstance(t, ast.Subscript) and txt(t.value) == "self._parsed_decays":
                    out.append(("by-position", n))
    return out


def c01_6(ctx, ss):
    ff, flow = fn(ss, DEC, "DecFileParser._check_parsed_decays")
    ctx.count("functions")
    sites = _removal_sites(ff)
    if not sites:
        raise AnchorMissing("_check_parsed_decays: no removal from self._parsed_decays found (other de-duplication algorithm)")
    for kind, c in sites:
        loops = enclosing(ff, c, (ast.For,))
        if not loops:
            raise AnchorMissing("removal outside a loop")
        lp = loops[0]
        it = flow.expand(lp.iter)
        t = txt(it)
        k = ckey(ff, None, "direction")
        backwards = ("reversed(self._parsed_decays)", "self._parsed_decays[::-1]", "reversed(list(self._parsed_decays))", "list(reversed(self._parsed_decays))",
                     "reversed(range(len(self._parsed_decays)))", "range(len(self._parsed_decays) - 1, -1, -1)", "reversed(list(enumerate(self._parsed_decays)))")
        forwards = ("self._parsed_decays", "list(self._parsed_decays)", "tuple(self._parsed_decays)", "self._parsed_decays[:]", "range(len(self._parsed_decays))",
                    "enumerate(self._parsed_decays)", "list(enumerate(self._parsed_decays))")
        if t in backwards:
            ctx.holds("C01.6", k, where(ff, lp), "removal loop walks the tables from the end, so the first block of a repeated mother is kept", 2)
        elif t in forwards:
            ctx.violation("C01.6", k, where(ff, lp), "removal loop walks the tables from the front: the first block of a repeated mother is dropped (a later one kept)")
        else:
            raise AnchorMissing(f"removal loop iterates `{t}`: direction not understood")
        # WHICH element is removed: the visited one, by position or identity — never by value equality
        kk = ckey(ff, None, "removes-visited")
        st = stmt_of(ff, c) if isinstance(c, ast.Call) else c
        if kind == "by-value":
            ctx.violation("C01.6", kk, where(ff, c),
                          "`self._parsed_decays.remove(tree)` removes the FIRST element that compares equal, and Lark trees compare by content: when a mother is "
                          "repeated with an identical block the first block is removed instead of the visited later one, so the table moves to the later position "
                          "(tables no longer in file order: A, B, A → B, A)")
        else:
            idx = c.args[0] if isinstance(c, ast.Call) else c.targets[0].slice
            tv = lp.target.elts[0] if isinstance(lp.target, ast.Tuple) else lp.target
            if isinstance(idx, ast.Name) and isinstance(tv, ast.Name) and idx.id == tv.id:
                ctx.holds("C01.6", kk, where(ff, c), "the visited table is removed by its position", 2)
            else:
                ctx.violation("C01.6", kk, where(ff, c), f"the removed position `{txt(idx)}` is not the position being visited")
        conds = [cd for cd in guards.path_conditions(lp, st) if cd[0] == "if"]
        oktest = False
        lst = None
        if len(conds) == 1 and conds[0][2]:
            e = conds[0][1]
            if isinstance(e, ast.Compare) and len(e.ops) == 1 and isinstance(e.ops[0], ast.In) and isinstance(e.comparators[0], ast.Name):
                lst = e.comparators[0].id
                lhs = txt(flow.expand(e.left))
                visited = "__elem__(" in lhs or f"self._parsed_decays[{txt(lp.target)}]" in lhs
                oktest = ("children[0].children[0].value" in lhs or "get_decay_mother_name" in lhs) and visited
        if oktest:
            ctx.holds("C01.6", ckey(ff, None, "what"), where(ff, c), "a table is removed when ITS mother name is still pending removal", 3)
        else:
            ctx.violation("C01.6", ckey(ff, None, "what"), where(ff, c), "the removal is not guarded by the visited table's own mother name being pending")
            continue
        # bookkeeping: the pending list loses one entry per removal and was built with count-1 entries per name
        book = [x for x in pf.calls_in(lp) if isinstance(x.func, ast.Attribute) and x.func.attr == "remove" and txt(x.func.value) == lst]
        if not book or stmt_of(ff, book[0]) not in [s_ for s_ in pf.iter_stmts(lp.body)]:
            ctx.violation("C01.6", ckey(ff, None, "bookkeeping"), where(ff, lp), "a removed name is not taken off the pending list: every block of a repeated mother is removed")
        else:
            ctx.holds("C01.6", ckey(ff, None, "bookkeeping"), where(ff, lp), "one pending entry consumed per removal", 1)
        ext = [x for x in pf.calls_in(ff.node) if isinstance(x.func, ast.Attribute) and x.func.attr in ("extend", "append", "update", "add") and txt(x.func.value) == lst]
        okc = False
        for x in ext:
            a = flow.expand(x.args[0]) if x.args else None
            if x.func.attr == "extend" and isinstance(a, ast.BinOp) and isinstance(a.op, ast.Mult):
                lst_side, n_side = (a.left, a.right) if isinstance(a.left, ast.List) else (a.right, a.left)
                if isinstance(lst_side, ast.List) and len(lst_side.elts) == 1 and isinstance(n_side, ast.BinOp) and isinstance(n_side.op, ast.Sub) \
                        and isinstance(n_side.right, ast.Constant) and n_side.right.value == 1 and ".count(" in txt(n_side.left):
                    okc = True
        # the schedule covers EVERY repeated mother: loop over all duplicated names, guard only `count > 1`
        for x in ext:
            lps = enclosing(ff, x, (ast.For,))
            kk2 = ckey(ff, None, "all-duplicates")
            if not lps:
                ctx.violation("C01.6", kk2, where(ff, x), "removals are not scheduled in a loop over the repeated mothers")
                continue
            src = txt(flow.expand(lps[0].iter))
            names_src = "self.list_decay_mother_names()"
            want_src = {canon(f"__phi__(set(), {{__elem__({names_src}) for n in {names_src} if {names_src}.count(__elem__({names_src})) > 1}})"),
                        canon(f"{{__elem__({names_src}) for n in {names_src} if {names_src}.count(__elem__({names_src})) > 1}}"), f"set({names_src})", names_src}
            conds = [(txt(flow.expand(e, keep={txt(lps[0].target)})), pol) for kind, e, pol in guards.path_conditions(lps[0], stmt_of(ff, x)) if kind == "if"]
            okg = conds in ([], [(f"{names_src}.count({txt(lps[0].target)}) > 1", True)])
            exits = any(isinstance(y, (ast.Break, ast.Continue)) for y in ast.walk(lps[0]))
            if src in want_src and okg and not exits:
                ctx.holds("C01.6", kk2, where(ff, lps[0]), "removals are scheduled for every mother that occurs more than once", 3)
            else:
                ctx.violation("C01.6", kk2, where(ff, lps[0]),
                              f"removals are scheduled over `{src[:120]}` under {conds}: some repeated mothers keep all their blocks")
            # the set of duplicated names must be computed whenever there are duplicates
            dd = [d for d in flow.defs if isinstance(lps[0].iter, ast.Name) and d.name == lps[0].iter.id and d.kind == "assign" and isinstance(d.value, ast.SetComp)]
            for d in dd:
                c2 = [(txt(flow.expand(e)), pol) for kind, e, pol in guards.path_conditions(ff.node, d.stmt) if kind == "if"]
                okd = c2 in ([], [(f"self.number_of_decays == len(set({names_src}))", False)], [(f"len({names_src}) == len(set({names_src}))", False)],
                             [(f"len(self._parsed_decays) == len(set({names_src}))", False)])
                (ctx.holds if okd else ctx.violation)("C01.6", ckey(ff, None, "duplicates-computed"), where(ff, d.stmt),
                                                      "the duplicated names are computed whenever the number of tables exceeds the number of distinct mothers" if okd
                                                      else f"the duplicated names are only computed under {c2}")
        # comprehension form of the schedule: [name for name in <duplicated names> for _ in range(<names>.count(name) - 1)]
        init = [d for d in flow.defs if d.name == lst and d.kind == "assign"]
        if not ext and len(init) == 1 and isinstance(init[0].value, ast.ListComp) and len(init[0].value.generators) == 2:
            lc = init[0].value
            g1, g2 = lc.generators
            names_src = "self.list_decay_mother_names()"
            src = txt(flow.expand(g1.iter))
            want_src = {canon(f"__phi__(set(), {{__elem__({names_src}) for n in {names_src} if {names_src}.count(__elem__({names_src})) > 1}})"),
                        canon(f"{{__elem__({names_src}) for n in {names_src} if {names_src}.count(__elem__({names_src})) > 1}}"), f"set({names_src})", names_src}
            r_ = g2.iter
            okr = isinstance(r_, ast.Call) and txt(r_.func) == "range" and len(r_.args) == 1 and isinstance(r_.args[0], ast.BinOp) and isinstance(r_.args[0].op, ast.Sub) \
                and isinstance(r_.args[0].right, ast.Constant) and r_.args[0].right.value == 1 \
                and txt(flow.expand(r_.args[0].left, keep={txt(g1.target)})) == f"{names_src}.count({txt(g1.target)})"
            okc = okr and not g2.ifs and isinstance(lc.elt, ast.Name) and lc.elt.id == txt(g1.target)
            # ... or [x for name in <names> [if count(name) > 1] for x in [name] * (count(name) - 1)]
            m_ = flow.expand(r_, keep={txt(g1.target)})
            if isinstance(m_, ast.BinOp) and isinstance(m_.op, ast.Mult):
                l_, n_ = (m_.left, m_.right) if isinstance(m_.left, ast.List) else (m_.right, m_.left)
                okc = isinstance(l_, ast.List) and [txt(e_) for e_ in l_.elts] == [txt(g1.target)] and txt(n_) == f"{names_src}.count({txt(g1.target)}) - 1" \
                    and not g2.ifs and isinstance(lc.elt, ast.Name) and lc.elt.id == txt(g2.target)
            ifs1 = [txt(flow.expand(i_, keep={txt(g1.target)})) for i_ in g1.ifs]
            okall = src in want_src and ifs1 in ([], [f"{names_src}.count({txt(g1.target)}) > 1"])
            (ctx.holds if okall else ctx.violation)("C01.6", ckey(ff, None, "all-duplicates"), where(ff, init[0].stmt),
                                                    "removals are scheduled for every mother that occurs more than once" if okall
                                                    else f"removals are scheduled over `{src[:120]}`: some repeated mothers keep all their blocks")
            # the set of duplicated names must be computed whenever there are duplicates (same clause as in the loop form above)
            dd = [d for d in flow.defs if isinstance(g1.iter, ast.Name) and d.name == g1.iter.id and d.kind == "assign" and isinstance(d.value, ast.SetComp)]
            for d in dd:
                c2 = [(txt(flow.expand(e)), pol) for kind, e, pol in guards.path_conditions(ff.node, d.stmt) if kind == "if"]
                okd = c2 in ([], [(f"self.number_of_decays == len(set({names_src}))", False)], [(f"len({names_src}) == len(set({names_src}))", False)],
                             [(f"len(self._parsed_decays) == len(set({names_src}))", False)])
                (ctx.holds if okd else ctx.violation)("C01.6", ckey(ff, None, "duplicates-computed"), where(ff, d.stmt),
                                                      "the duplicated names are computed whenever the number of tables exceeds the number of distinct mothers" if okd
                                                      else f"the duplicated names are only computed under {c2}")
        multi = bool(init) and all(isinstance(d.value, ast.List) or (isinstance(d.value, ast.Call) and txt(d.value.func) in ("list", "Counter", "collections.Counter")) or isinstance(d.value, ast.ListComp) for d in init)
        if okc and multi:
            ctx.holds("C01.6", ckey(ff, None, "count-1"), where(ff, ff.node), "count-1 removals are scheduled per repeated mother (in a list, which keeps multiplicities)", 2)
        else:
            ctx.violation("C01.6", ckey(ff, None, "count-1"), where(ff, ff.node),
                          "the number of scheduled removals per repeated mother is not count-1 (a set / wrong count loses the multiplicity: a mother in three blocks keeps two tables)")


CALLBACKS = {"DecayModelAliasReplacement": {"model"}, "DecayModelParamValueReplacement": {"model_options"},
             "ChargeConjugateReplacement": {"particle"}}


def c01_7(ctx, ss):
    gf = grammar_facts(ss, G)
    names = gf.tree_names
    mf = pf.module_facts(ss, DEC)
    n = 0
    for cname, need in CALLBACKS.items():
        if cname not in mf.classes:
            raise AnchorMissing(f"class {cname} not found")
        cf = mf.classes[cname]
        pub = {m for m in cf.methods if not m.startswith("_")}
        for m in sorted(need):
            n += 1
            k = f"{DEC}:{cname}.{m}"
            if m not in pub:
                ctx.violation("C01.7", k, where(None, cf.node, short=DEC) if False else f"src/decaylanguage/{DEC}:{cf.node.lineno}",
                              f"{cname} has no callback `{m}`: the replacement silently becomes a no-op")
            elif m not in names:
                ctx.violation("C01.7", k, f"src/decaylanguage/{DEC}:{cf.methods[m].node.lineno}", f"callback {cname}.{m} names no rule of {G}: it is never invoked")
            else:
                ctx.holds("C01.7", k, f"src/decaylanguage/{DEC}:{cf.methods[m].node.lineno}", f"callback `{m}` names a grammar rule", 1)
        for m in sorted(pub - need):
            if m not in names and m not in ("transform", "visit", "visit_topdown"):
                ctx.violation("C01.7", f"{DEC}:{cname}.{m}", f"src/decaylanguage/{DEC}:{cf.methods[m].node.lineno}",
                              f"callback {cname}.{m} names no rule of {G} (dead callback after a rule rename?)")
    ctx.floor("C01.7", "callbacks", n, 3)


def c01_8(ctx, ss):
    """Observation points: the public wrappers report every table / every line."""
    from .common import comp_over_all
    ff, flow = fn(ss, DEC, "DecFileParser.list_decay_mother_names")
    r = returns(ff)
    ok, why = (False, "no single return")
    if len(r) == 1:
        ok, why = comp_over_all(flow, r[0].value, lambda it: txt(it) == "self._parsed_decays",
                                lambda elt, b: isinstance(elt, ast.Call) and txt(elt.func) == "get_decay_mother_name"
                                and len(elt.args) == 1 and isinstance(elt.args[0], ast.Name) and elt.args[0].id == b)
    (ctx.holds if ok else ctx.violation)("C01.8", ckey(ff, None, "all-mothers"), where(ff, ff.node),
                                         "list_decay_mother_names maps get_decay_mother_name over all of self._parsed_decays" if ok
                                         else f"list_decay_mother_names does not report every table in order: {why}")
    ff, flow = fn(ss, DEC, "DecFileParser.number_of_decays")
    r = returns(ff)
    ok = len(r) == 1 and r[0].value is not None and flow.text(r[0].value) == "len(self._parsed_decays)"
    (ctx.holds if ok else ctx.violation)("C01.8", ckey(ff, None, "count"), where(ff, ff.node),
                                         "number_of_decays = len(self._parsed_decays)" if ok else
                                         f"number_of_decays returns `{flow.text(r[0].value) if r and r[0].value is not None else None}`")
    ff, flow = fn(ss, DEC, "DecFileParser.list_decay_modes")
    r = returns(ff)
    ok, why = (False, "no single return")
    if len(r) == 1:
        def iter_ok(it):
            return isinstance(it, ast.Call) and txt(it.func) == "self._find_decay_modes" and len(it.args) == 1 and \
                all(is_identity(a, "mother") or "PDG2EvtGenNameMap[mother]" == txt(a) for a in phi_alts(it.args[0]))
        ok, why = comp_over_all(flow, r[0].value, iter_ok,
                                lambda elt, b: isinstance(elt, ast.Call) and txt(elt.func) == "get_final_state_particle_names"
                                and len(elt.args) == 1 and isinstance(elt.args[0], ast.Name) and elt.args[0].id == b)
    (ctx.holds if ok else ctx.violation)("C01.8", ckey(ff, None, "all-modes"), where(ff, ff.node),
                                         "list_decay_modes maps the daughters accessor over every decay line of the mother" if ok
                                         else f"list_decay_modes does not report every decay line in order: {why}")
    # the mother name is taken verbatim unless PDG naming was asked for (default: EvtGen names, as written in the file)
    conv = [st for st in pf.iter_stmts(ff.node.body) if isinstance(st, ast.Assign) and "PDG2EvtGenNameMap" in txt(st.value)]
    okc = True
    whyc = ""
    for st in conv:
        conds = [(txt(e), pol) for kind, e, pol in guards.path_conditions(ff.node, st) if kind == "if"]
        if conds != [("pdg_name", True)]:
            okc, whyc = False, f"the PDG-to-EvtGen conversion of the mother name runs under {conds}, not exactly when pdg_name is set"
    d = ff.node.args.defaults
    if not (len(d) == 1 and isinstance(d[0], ast.Constant) and d[0].value is False):
        okc, whyc = False, "pdg_name no longer defaults to False: the mother name given as written in the file is looked up as a PDG name"
    (ctx.holds if okc else ctx.violation)("C01.8", ckey(ff, None, "mother-verbatim"), where(ff, conv[0] if conv else ff.node),
                                          "the mother name is used as given unless pdg_name is set" if okc else whyc)
    ctx.count("functions", 3)
