"""C02 — layout, comments, line ends and packaging never change what is parsed (DESIGN.md §4 C02)."""
from __future__ import annotations

import ast
import codecs

from ..core import guards
from ..core import pyfacts as pf
from ..core.defuse import is_identity
from ..core.larkfacts import SymAlphabet, ebnf_regex, grammar_facts
from ..core.match import txt
from ..core.rx import Rx, includes, witness_common, witness_not_in
from ..core.source import AnchorMissing
from .common import DEC, DECGRAMMAR, ENUMS, ckey, enclosing, fn, stmt_of, where

PROP = "C02"
FILES = [DEC, DECGRAMMAR, ENUMS]
EXPLANATION = (
    "Premises of the layout lemma (DESIGN.md C02), each decided from Lark's compiled grammar or from the constructor's "
    "CFG: P1 layout terminals are %ignored or filtered from trees; P2 every rule is closed under repeating _NEWLINE / "
    "_SEMICOLON / _COMMA (language inclusion of the rule's EBNF with X replaced by X+); P3 _NEWLINE ⊇ LF|CRLF + "
    "indentation ∪ comments, COMMENT stops before the line break, WS_INLINE ⊇ blanks/tabs; P4 no tree-visible terminal "
    "or model name contains a layout character; P5 start accepts leading newlines and an optional final End; P6 a "
    "leading BOM of an input file cannot reach the parser; P7 the file loop writes every line except lone End lines "
    "and a line break per file; P8 the parsed text is only ever set by the two constructors.")
NOT_DECIDED = ["the lemma's conclusion as an equality of query answers (needs execution)", "behaviour on ill-formed input"]
G = DECGRAMMAR
GP = f"src/decaylanguage/{DECGRAMMAR}"
LAYOUT_T = ("_NEWLINE", "_COMMA", "_SEMICOLON")
LAYOUT_CHARS = [" ", "\t", "\r", "\n", "#", ",", ";"]


def run(ctx, ss):
    from .common import keyword_vocabulary
    ctx.guard("C02.2", keyword_vocabulary, ss, "C02.2", ('start',), ())
    for r, f in (("C02.1", p1), ("C02.2", p2), ("C02.3", p3), ("C02.4", p4), ("C02.5", p5),
                 ("C02.6", p6), ("C02.7", p7), ("C02.8", p8)):
        ctx.guard(r, f, ss)
    # C02.9 packaging: what is parsed is the text given NOW (no file content / parser remembered from an earlier construction)
    from .shared import reading_path
    ctx.guard("C02.9", reading_path, ss, "C02.9", [], "the parsed text", False)


def p1(ctx, ss):
    gf = grammar_facts(ss, G)
    for t in ("WS_INLINE", "COMMENT"):
        if t in gf.ignore:
            ctx.holds("C02.1", f"{G}:ignore:{t}", GP, f"{t} is %ignore'd", 1)
        else:
            ctx.violation("C02.1", f"{G}:ignore:{t}", GP, f"{t} is no longer %ignore'd: spacing/comments between tokens become syntax errors or tokens")
    for t in LAYOUT_T:
        if t not in gf.terminals:
            raise AnchorMissing(f"terminal {t} not found")
        occ = [s for r in gf.rules for s in r.expansion if s.is_term and s.name == t]
        if occ and all(getattr(s, "filter_out", False) for s in occ):
            ctx.holds("C02.1", f"{G}:filtered:{t}", GP, f"{t} is filtered out of every tree ({len(occ)} occurrences in the compiled rules)", len(occ))
        else:
            ctx.violation("C02.1", f"{G}:filtered:{t}", GP, f"{t} is kept in parse trees ({len(occ)} occurrences): layout becomes visible to the queries")
    # no other terminal may be ignored (it would silently drop content)
    extra = [t for t in gf.ignore if t not in ("WS_INLINE", "COMMENT")]
    if extra:
        ctx.violation("C02.1", f"{G}:ignore:extra", GP, f"additional %ignore'd terminals {extra}: content characters are dropped")
    else:
        ctx.holds("C02.1", f"{G}:ignore:extra", GP, "nothing else is ignored", 1)


def p2(ctx, ss):
    gf = grammar_facts(ss, G)
    n = 0
    for name, (params, tree, opts) in gf.rule_defs.items():
        name = str(name)
        if name.startswith("_"):
            continue        # inline rules are judged inside the rules that use them (gf.rule_regex substitutes them)
        alpha = SymAlphabet()
        base = gf.rule_regex(name, alpha)
        used = [t for t in LAYOUT_T if f"T:{t}" in alpha.map]
        if not used:
            continue
        for t in used:
            n += 1
            letter = alpha.map[f"T:{t}"]
            rep = gf.rule_regex(name, alpha, {f"T:{t}": f"(?:{letter})+"})
            wit = includes(Rx(base), Rx(rep))
            k = f"{G}:{name}:{t}"
            if wit is None:
                ctx.holds("C02.2", k, GP, f"rule `{name}` accepts any number of {t} wherever it accepts one", 2)
            else:
                inv = {v: kk for kk, v in alpha.map.items()}
                ws = " ".join(inv.get(c, c).split(":", 1)[1] for c in wit)
                ctx.violation("C02.2", k, GP, f"rule `{name}` accepts one {t} but not a run of them: child sequence [{ws}] is rejected "
                              "(a blank line / comment line / doubled separator at that place changes the parse)")
    ctx.count("rule_terminal_pairs", n)
    # the places where the listed layout edits happen must accept the separator at all
    need = {"start": ["_NEWLINE"], "decay": ["_NEWLINE"], "decayline": ["_NEWLINE"], "model": ["_SEMICOLON"],
            "model_options": ["_NEWLINE", "_COMMA"]}
    for name, ts in need.items():
        if name not in gf.rule_defs:
            raise AnchorMissing(f"rule {name} not found")
        alpha = SymAlphabet()
        gf.rule_regex(name, alpha)
        for t in ts:
            k = f"{G}:{name}:{t}:present"
            if f"T:{t}" in alpha.map:
                ctx.holds("C02.2", k, GP, f"rule `{name}` accepts {t}", 1)
            else:
                ctx.violation("C02.2", k, GP, f"rule `{name}` no longer accepts {t} (line wrapping / separators / terminators at that place are rejected)")
    # a parameter list may be wrapped over lines and separated by commas anywhere after its first item
    alpha = SymAlphabet()
    v, l, nl, c = alpha.letter("N:value"), alpha.letter("T:LABEL"), alpha.letter("T:_NEWLINE"), alpha.letter("T:_COMMA")
    rx = gf.rule_regex("model_options", alpha)
    wit = includes(Rx(rx), Rx(f"(?:{v}|{l})(?:{v}|{l}|{nl}|{c})*"))
    if wit is None:
        ctx.holds("C02.2", f"{G}:model_options:wrapping", GP, "model_options ⊇ item (item | _NEWLINE | _COMMA)*", 2)
    else:
        inv = {vv: kk for kk, vv in alpha.map.items()}
        ctx.violation("C02.2", f"{G}:model_options:wrapping", GP,
                      f"a wrapped / comma-separated parameter list [{' '.join(inv.get(ch, ch).split(':', 1)[1] for ch in wit)}] is rejected")


def p3(ctx, ss):
    gf = grammar_facts(ss, G)
    # context assertions inside token patterns ((?=…), (?!…), (?<=…), (?<!…)): one that tells a line feed from other
    # characters must treat the CR of a CRLF line end the same way, or LF and CRLF inputs are tokenised differently
    import re as _re
    n_assert = 0
    for tn, td in gf.terminals.items():
        try:
            src = td.pattern.to_regexp()
        except Exception:
            continue
        for m in _re.finditer(r"\(\?(<?[=!])((?:[^()\\]|\\.|\[(?:[^\]\\]|\\.)*\])*)\)", src):
            kind, body = m.group(1), m.group(2)
            n_assert += 1
            try:
                rx_ = _re.compile(body)
            except _re.error:
                continue
            lf = rx_.match("\n") is not None
            cr = rx_.match("\r\n") is not None or rx_.match("\r") is not None
            k = f"{G}:{tn}:assertion"
            if lf != cr:
                ctx.violation("C02.3", k, GP, f"terminal {tn} has the context assertion `(?{kind}{body!r})`, which {'accepts' if lf else 'rejects'} a line feed but "
                              f"{'rejects' if lf else 'accepts'} the carriage return of a CRLF line end: the same text is tokenised differently with LF and with CRLF line ends")
            else:
                ctx.holds("C02.3", k, GP, f"terminal {tn}: the assertion `(?{kind}{body!r})` treats LF and CRLF alike", 1)
    nl = Rx(gf.term_regex("_NEWLINE"))
    cm = Rx(gf.term_regex("COMMENT"))
    ws = Rx(gf.term_regex("WS_INLINE"))
    for tag, ref, msg in (("lf", r"\n[\t ]*", "LF + indentation"), ("crlf", r"\r\n[\t ]*", "CRLF + indentation"),
                          ("comment", r"#[^\n]*", "a comment up to the line end")):
        wit = includes(nl, Rx(ref))
        if wit is None:
            ctx.holds("C02.3", f"{G}:_NEWLINE:{tag}", GP, f"_NEWLINE ⊇ {msg}", nl.n_states())
        else:
            ctx.violation("C02.3", f"{G}:_NEWLINE:{tag}", GP, f"_NEWLINE no longer matches {msg}: witness {wit!r}", nl.n_states())
    wit = includes(cm, Rx(r"#[^\n]*"))
    if wit is None:
        ctx.holds("C02.3", f"{G}:COMMENT:covers", GP, "COMMENT ⊇ '#' followed by anything up to the line end", cm.n_states())
    else:
        ctx.violation("C02.3", f"{G}:COMMENT:covers", GP, f"COMMENT no longer matches {wit!r}", cm.n_states())
    eats = witness_common(cm, Rx(r"[^\n]*\n(?:.|\n)*"))
    if eats is None:
        ctx.holds("C02.3", f"{G}:COMMENT:stops", GP, "COMMENT never contains a line break (the statement terminator after a comment survives)", cm.n_states())
    else:
        ctx.violation("C02.3", f"{G}:COMMENT:stops", GP, f"COMMENT can swallow the line break: witness {eats!r}", cm.n_states())
    nonhash = witness_common(cm, Rx(r"[^#](?:.|\n)*"))
    if nonhash is not None:
        ctx.violation("C02.3", f"{G}:COMMENT:hash", GP, f"COMMENT can start with something other than '#': {nonhash!r}")
    wit = includes(ws, Rx(r"[ \t]+"))
    if wit is None:
        ctx.holds("C02.3", f"{G}:WS_INLINE", GP, "WS_INLINE ⊇ runs of blanks and tabs", ws.n_states())
    else:
        ctx.violation("C02.3", f"{G}:WS_INLINE", GP, f"WS_INLINE no longer matches {wit!r}", ws.n_states())
    ctx.count("dfa_states", nl.n_states() + cm.n_states() + ws.n_states())


def p4(ctx, ss):
    gf = grammar_facts(ss, G)
    layout = set(LAYOUT_T) | set(gf.ignore)
    n = 0
    for name, t in gf.terminals.items():
        if name in layout or name == "MODEL_NAME":
            continue
        n += 1
        r = Rx(t.pattern.to_regexp())
        bad = sorted(c for c in r.charset() if c in LAYOUT_CHARS)
        k = f"{G}:{name}:chars"
        if bad:
            ctx.violation("C02.4", k, GP, f"terminal {name} can contain the layout character(s) {bad}: spacing/comment/separator edits change tokens", r.n_states())
        else:
            ctx.holds("C02.4", k, GP, f"{name} contains no blank, tab, CR, LF, '#', ',' or ';'", r.n_states())
    ctx.count("terminals", n)
    ctx.floor("C02.4", "tree-visible terminals", n, 25)
    # published model names (the MODEL_NAME alternation is assembled from this table)
    tree = ss.tree(ENUMS)
    names = None
    for st in tree.body:
        if (isinstance(st, ast.Assign) and any(isinstance(t, ast.Name) and t.id == "known_decay_models" for t in st.targets)) or \
                (isinstance(st, ast.AnnAssign) and isinstance(st.target, ast.Name) and st.target.id == "known_decay_models" and st.value is not None):
            names = ast.literal_eval(st.value)
    if names is None:
        raise AnchorMissing("known_decay_models literal not found")
    bad = [m for m in names if any(c in m for c in LAYOUT_CHARS)]
    if bad:
        ctx.violation("C02.4", f"{ENUMS}:known_decay_models:chars", f"src/decaylanguage/{ENUMS}", f"model name(s) {bad[:3]} contain layout characters")
    else:
        ctx.holds("C02.4", f"{ENUMS}:known_decay_models:chars", f"src/decaylanguage/{ENUMS}", f"none of the {len(names)} published model names contains a layout character", len(names))


def p5(ctx, ss):
    gf = grammar_facts(ss, G)
    if "start" not in gf.rule_defs:
        raise AnchorMissing("rule start not found")
    alpha = SymAlphabet()
    n, l, e = alpha.letter("T:_NEWLINE"), alpha.letter("N:line"), alpha.letter('L:"End"')
    rx = gf.rule_regex("start", alpha)
    ref = f"{n}*(?:{l}{n}+)*(?:{e}{n}+)?"
    wit = includes(Rx(rx), Rx(ref))
    inv = {v: kk for kk, v in alpha.map.items()}
    if wit is None:
        ctx.holds("C02.5", f"{G}:start", GP, "start ⊇ _NEWLINE* (line _NEWLINE+)* (\"End\" _NEWLINE+)?  — leading blank lines and a final End line are accepted", 3)
    else:
        ws = " ".join(inv.get(c, c).split(":", 1)[1] for c in wit) or "<empty file>"
        ctx.violation("C02.5", f"{G}:start", GP, f"start rejects the statement sequence [{ws}] (leading blank lines / final End line / empty input)")
    # `line` must be inlined (statements are direct children of start) and End must not become a tree
    ok = "line" not in gf.tree_names
    (ctx.holds if ok else ctx.violation)("C02.5", f"{G}:line-inlined", GP,
                                          "`?line` is inlined: statements are direct children of start" if ok else "`line` now creates a node of its own")


def _codec(name: str) -> str | None:
    try:
        return codecs.lookup(name).name
    except LookupError:
        return None


def p6(ctx, ss):
    ff, flow = fn(ss, DEC, "DecFileParser.__init__")
    gf = grammar_facts(ss, G)
    opens = [c for c in pf.calls_in(ff.node) if (isinstance(c.func, ast.Attribute) and c.func.attr in ("open", "read_text"))
             or (isinstance(c.func, ast.Name) and c.func.id == "open")]
    if not opens:
        raise AnchorMissing("__init__: no open() call found")
    ctx.count("call_sites", len(opens))
    # (c) does any ignored / newline terminal accept U+FEFF?
    tolerant = [t for t in list(gf.ignore) + ["_NEWLINE"] if Rx(gf.term_regex(t)).accepts("\ufeff")]
    for c in opens:
        enc = None
        for kw in c.keywords:
            if kw.arg == "encoding" and isinstance(kw.value, ast.Constant):
                enc = kw.value.value
        k = ckey(ff, None, "bom")
        if enc is not None and _codec(enc) == "utf-8-sig":
            ctx.holds("C02.6", k, where(ff, c), f"input files are opened with the BOM-stripping codec {enc!r}", 1)
            continue
        # (b) the text written to the stream is BOM-stripped
        writes = [w for w in pf.calls_in(ff.node) if isinstance(w.func, ast.Attribute) and w.func.attr == "write" and w.args
                  and not isinstance(w.args[0], ast.Constant)]
        stripped = bool(writes) and all("\\ufeff" in ascii(flow.text(w.args[0])) and "strip" in flow.text(w.args[0]) for w in writes)
        if stripped:
            ctx.holds("C02.6", k, where(ff, c), "every line written to the parsed text is stripped of U+FEFF", len(writes))
        elif tolerant:
            ctx.holds("C02.6", k, where(ff, c), f"terminal(s) {tolerant} accept U+FEFF, so a BOM is skipped by the lexer", len(tolerant))
        else:
            ctx.violation("C02.6", k, where(ff, c),
                          f"file opened with encoding={enc!r}: a leading UTF-8 BOM is decoded to U+FEFF, written unstripped into the parsed text, "
                          "and no ignored terminal accepts it (UnexpectedCharacters at line 1)")


def p7(ctx, ss):
    ff, flow = fn(ss, DEC, "DecFileParser.__init__")
    writes = [w for w in pf.calls_in(ff.node) if isinstance(w.func, ast.Attribute) and w.func.attr == "write" and w.args]
    line_w = [w for w in writes if not isinstance(w.args[0], ast.Constant)]
    nl_w = [w for w in writes if isinstance(w.args[0], ast.Constant) and isinstance(w.args[0].value, str) and "\n" in w.args[0].value]
    if not line_w:
        ctx.violation("C02.7", ckey(ff, None, "line-write"), where(ff, ff.node), "no line of the input files is ever written to the parsed text")
        return
    for w in line_w:
        st = stmt_of(ff, w)
        loops = enclosing(ff, w, (ast.For,))
        if len(loops) < 2:
            raise AnchorMissing("line write is not inside the per-file / per-line loops")
        inner, outer = loops[0], loops[-1]
        # the written object is the whole line of the open file
        a = flow.expand(w.args[0])
        whole = isinstance(a, ast.Call) and isinstance(a.func, ast.Name) and a.func.id == "__elem__"
        bom_stripped = (not whole) and isinstance(a, ast.Call) and isinstance(a.func, ast.Attribute) and a.func.attr in ("lstrip", "replace", "removeprefix") \
            and "\\ufeff" in ascii(txt(a)) and isinstance(a.func.value, ast.Call) and txt(a.func.value.func) == "__elem__"
        k = ckey(ff, None, "line-write")
        if not (whole or bom_stripped):
            ctx.violation("C02.7", k + " :: what", where(ff, w), f"what is written is `{txt(a)[:100]}`, not the line read from the file")
        else:
            ctx.holds("C02.7", k + " :: what", where(ff, w), "the line read from the file is written unchanged", 1)
        # every line of the file is looked at
        it_in = flow.expand(inner.iter)
        ok_all = isinstance(it_in, ast.Call) and txt(it_in.func) == "__enter__" and not any(isinstance(x, (ast.Break,)) for x in ast.walk(inner))
        (ctx.holds if ok_all else ctx.violation)("C02.7", k + " :: all-lines", where(ff, inner),
                                                 "the per-line loop runs over the whole open file" if ok_all else f"the per-line loop runs over `{txt(it_in)[:80]}`: lines of the input files are skipped")
        conds = [c for c in guards.path_conditions(ff.node, st, stop_at=inner) if c[0] == "if"]

        def starts(e, word):
            return isinstance(e, ast.Call) and isinstance(e.func, ast.Attribute) and e.func.attr == "startswith" and len(e.args) == 1 \
                and isinstance(e.args[0], ast.Constant) and e.args[0].value == word and "strip" in txt(e.func.value)

        def mk(a_val, b_val):
            def atom(e):
                if starts(e, "End"):
                    return a_val
                if starts(e, "Enddecay"):
                    return b_val
                return None
            return atom
        cases = {"ordinary line": (mk(False, False), True), "Enddecay line": (mk(True, True), True), "lone End line": (mk(True, False), False)}
        for label, (atom, want) in cases.items():
            r = guards.reachable_under(conds, atom, flow)
            kk = k + f" :: {label}"
            if want and r is True:
                ctx.holds("C02.7", kk, where(ff, w), f"{label}: definitely written", len(conds) + 1)
            elif (not want) and r is False:
                ctx.holds("C02.7", kk, where(ff, w), f"{label}: definitely dropped", len(conds) + 1)
            elif want:
                ctx.violation("C02.7", kk, where(ff, w), f"{label}: may be dropped (the write additionally depends on `{'; '.join(txt(c[1])[:60] for c in conds)}`)")
            else:
                ctx.violation("C02.7", kk, where(ff, w), f"{label}: may be written into the parsed text (a second file would follow an End statement)")
        # line break per file
        good = False
        for nw in nl_w:
            nloops = enclosing(ff, nw, (ast.For,))
            if nloops and nloops[-1] is outer and inner not in nloops:
                hdr = flow.cfg.node_of(outer)
                node = flow.cfg.node_of(stmt_of(ff, nw))
                lo, hi, _ = flow.cfg.count_per_iteration(hdr, lambda n, node=node: n.id == node)
                inner_node = flow.cfg.node_of(inner)
                if lo >= 1 and flow.cfg.dominates(inner_node, node):
                    good = True
                    ctx.holds("C02.7", ckey(ff, None, "file-break"), where(ff, nw), "a line break is written after each file on every path", 3)
        if not good:
            ctx.violation("C02.7", ckey(ff, None, "file-break"), where(ff, outer),
                          "no line break is written between consecutive input files: the last line of one file runs into the first of the next")
        # the per-file loop covers all given files in order
        it = flow.expand(outer.iter)
        t = txt(it)
        if t in ("map(Path, list(filenames))", "map(Path, filenames)", "list(filenames)", "filenames", "map(Path, self._dec_file_names)"):
            ctx.holds("C02.7", ckey(ff, None, "all-files"), where(ff, outer), f"all files are read, in the order given (`{t}`)", 1)
        else:
            ctx.violation("C02.7", ckey(ff, None, "all-files"), where(ff, outer), f"the file loop iterates `{t[:100]}`: not all files in the order given")


def p8(ctx, ss):
    # who may write _dec_file
    writers = []
    for m in pf.all_modules(ss):
        mf = pf.module_facts(ss, m)
        for q, f_ in mf.funcs.items():
            for n in pf.walk_no_nested(f_.node):
                if isinstance(n, (ast.Assign, ast.AugAssign, ast.AnnAssign)):
                    ts = n.targets if isinstance(n, ast.Assign) else [n.target]
                    for t in ts:
                        if isinstance(t, ast.Attribute) and t.attr == "_dec_file":
                            writers.append((f_, n))
    allowed = {"DecFileParser.__init__", "DecFileParser.from_string"}
    for f_, n in writers:
        k = ckey(f_, None, "writes-_dec_file")
        if f_.module == DEC and f_.qualname in allowed:
            ctx.holds("C02.8", k, where(f_, n), f"{f_.qualname} sets the text to be parsed", 1)
        else:
            ctx.violation("C02.8", k, where(f_, n), f"{f_.qualname} rewrites the text to be parsed (only the two constructors may)")
    ctx.floor("C02.8", "writers of _dec_file", len(writers), 2)
    # from_string stores the argument unchanged
    ff, flow = fn(ss, DEC, "DecFileParser.from_string")
    st = [n for f_, n in writers if f_.qualname == "DecFileParser.from_string"]
    if not st:
        raise AnchorMissing("from_string does not set _dec_file")
    v = flow.expand(st[0].value)
    t = txt(v)
    if t in ("filecontent", "StringIO(filecontent).read()", "str(filecontent)"):
        ctx.holds("C02.8", ckey(ff, None, "verbatim"), where(ff, st[0]), "from_string stores the given text verbatim", 1)
    else:
        ctx.violation("C02.8", ckey(ff, None, "verbatim"), where(ff, st[0]), f"from_string stores `{t[:100]}`, not the given text")
    # __init__ stores exactly what was written to the stream
    ff, flow = fn(ss, DEC, "DecFileParser.__init__")
    sts = [n for f_, n in writers if f_.qualname == "DecFileParser.__init__" and not (isinstance(n.value, ast.Constant) and n.value.value is None)]
    ok = len(sts) == 1 and txt(flow.expand(sts[0].value)) in ("StringIO().read()", "StringIO().getvalue()")
    if ok and "read" in txt(sts[0].value):
        # read() needs the rewind
        seeks = [c for c in pf.calls_in(ff.node) if isinstance(c.func, ast.Attribute) and c.func.attr == "seek"]
        ok = bool(seeks) and flow.cfg.dominates(flow.cfg.node_of(stmt_of(ff, seeks[0])), flow.cfg.node_of(sts[0]))
    # a stream is only ever rewound to its very beginning
    for q in ("DecFileParser.__init__", "DecFileParser.from_string"):
        gq, _ = fn(ss, DEC, q)
        for c in [c for c in pf.calls_in(gq.node) if isinstance(c.func, ast.Attribute) and c.func.attr == "seek"]:
            okz = len(c.args) == 1 and isinstance(c.args[0], ast.Constant) and c.args[0].value == 0
            (ctx.holds if okz else ctx.violation)("C02.8", ckey(gq, None, "seek0"), where(gq, c), "the stream is rewound to position 0" if okz
                                                  else f"`{txt(c)}` positions the stream after the beginning: the first character(s) of the input are not parsed")
    (ctx.holds if ok else ctx.violation)("C02.8", ckey(ff, None, "stream"), where(ff, ff.node),
                                          "__init__ stores the whole content of the stream the lines were written to" if ok
                                          else "__init__ does not store the whole (rewound) stream content")
