"""C03 — CDecay yields the exact conjugate of the referenced table (DESIGN.md §4 C03)."""
from __future__ import annotations

import ast

from ..core import guards
from ..core import pyfacts as pf
from ..core.defuse import is_identity
from ..core.effects import effects
from ..core.larkfacts import grammar_facts
from ..core.defuse import flow_of
from ..core.match import canon, txt
from ..core.source import AnchorMissing
from .common import DEC, DECGRAMMAR, PUTIL, builder_sites, ckey, enclosing, enclosing_try_parts, fn, returns, stmt_of, where

PROP = "C03"
FILES = [DEC, PUTIL, DECGRAMMAR]
EXPLANATION = (
    "C03.1 with the include-conjugates switch off the call that creates conjugate tables is unreachable (three-valued "
    "evaluation of its guard, the stored switch resolved to the parse() argument), and with it on it is reached; C03.2 "
    "every tree handed to the conjugating visitor and every tree added as a conjugate table is a copy.deepcopy; C03.3 "
    "the visitor writes particle names only (who-may-write inside the class, callbacks ⊆ {particle}); C03.4 the new name "
    "is find_charge_conjugate_match(old name, table); C03.5 the three exits of that function carry exactly the stated "
    "conditions (forward hit, reverse hit, database fall-through); C03.6 Decay wins over CDecay, misses add nothing; "
    "C03.7 copies are made before conjugates.")
NOT_DECIDED = ["that the database conjugate is right (C04, third-party data)", "equality of the produced table with a reference conjugation"]
ACC = "DecFileParser._add_charge_conjugate_decays"


def run(ctx, ss):
    from .common import keyword_vocabulary
    ctx.guard("C03.1", keyword_vocabulary, ss, "C03.1", ('cdecay', 'chargeconj'), ())
    for r, f in (("C03.1", c03_1), ("C03.2", c03_2), ("C03.3", c03_3), ("C03.4", c03_4), ("C03.5", c03_5),
                 ("C03.6", c03_6), ("C03.7", c03_7), ("C03.8", c03_8)):
        ctx.guard(r, f, ss)
    # C03.9: nothing on the way from the observed entry points is memoised on a parser / tree / path / container (shared.py)
    from .shared import memo_for
    ctx.guard("C03.9", memo_for, ss, "C03", "C03.9", "a conjugated table")
    from .shared import reading_path
    ctx.guard("C03.9", reading_path, ss, "C03.9", ["DecFileParser._add_charge_conjugate_decays"], "a conjugated table")


def c03_1(ctx, ss):
    ff, flow = fn(ss, DEC, "DecFileParser.parse")
    calls = [c for c in pf.calls_in(ff.node) if txt(c.func) == "self._add_charge_conjugate_decays"]
    if not calls:
        ctx.violation("C03.1", ckey(ff, None, "no-call"), where(ff, ff.node), "parse() never creates conjugate tables")
        return
    if "include_ccdecays" not in ff.params:
        raise AnchorMissing("parse() has no include_ccdecays parameter")
    for c in calls:
        st = stmt_of(ff, c)
        conds = [cd for cd in guards.path_conditions(ff.node, st) if cd[0] in ("if", "while")]

        def resolve(e):
            # self._include_ccdecays -> value stored earlier in parse()
            class R(ast.NodeTransformer):
                def visit_Attribute(self, n):
                    if isinstance(n.value, ast.Name) and n.value.id == "self" and isinstance(n.ctx, ast.Load):
                        v = guards.self_attr_value(ff, flow, n.attr, st)
                        if v is not None:
                            return flow.expand(v)
                    return self.generic_visit(n)
            import copy
            return R().visit(copy.deepcopy(flow.expand(e)))
        rconds = [(k, resolve(e), p) for k, e, p in conds]

        def atom(val):
            def f(e):
                if isinstance(e, ast.Name) and e.id == "include_ccdecays":
                    return val
                return None
            return f
        off = guards.reachable_under(rconds, atom(False))
        on = guards.reachable_under(rconds, atom(True))
        k = ckey(ff, None, "switch")
        if off is False:
            ctx.holds("C03.1", k + " :: off", where(ff, c), "include_ccdecays=False ⇒ _add_charge_conjugate_decays is unreachable", len(conds) + 1)
        else:
            ctx.violation("C03.1", k + " :: off", where(ff, c),
                          f"with include_ccdecays=False conjugate tables can still be created (guard: `{'; '.join(txt(e)[:60] for _, e, _ in rconds) or 'none'}`)")
        if on is True:
            ctx.holds("C03.1", k + " :: on", where(ff, c), "include_ccdecays=True ⇒ the call is reached on every normal path", len(conds) + 1)
        else:
            ctx.violation("C03.1", k + " :: on", where(ff, c), "with include_ccdecays=True the creation of conjugate tables additionally depends on something else")


def c03_2(ctx, ss, rule="C03.2"):
    ef = effects(ss)
    ff, flow = fn(ss, DEC, ACC)
    visits = [c for c in pf.calls_in(ff.node) if isinstance(c.func, ast.Attribute) and c.func.attr in ("visit", "visit_topdown")
              and "ChargeConjugateReplacement" in txt(c.func.value)]
    if not visits:
        ctx.violation(rule, ckey(ff, None, "no-visit"), where(ff, ff.node), "no tree is ever conjugated")
        return
    for c in visits:
        r = ef.root(flow, c.args[0]) if c.args else ("unknown", "?")
        k = ckey(ff, None, "visited-is-copy")
        if r == ("fresh", "deepcopy"):
            ctx.holds(rule, k, where(ff, c), "the tree conjugated in place is a copy.deepcopy of the source table", 2)
        else:
            ctx.violation(rule, k, where(ff, c), f"the tree conjugated in place is not a deep copy ({r[0]} {r[1]}): the SOURCE table (or shared decay lines) is rewritten")
    # one deep copy PER source tree: a single deepcopy of the whole list keeps the aliasing between its entries, so a source
    # that is listed twice (the same CDecay stated twice, two ChargeConj pairs naming one source) yields ONE copy, conjugated twice
    for dc_ in [c for c in pf.calls_in(ff.node) if txt(c.func) in ("copy.deepcopy", "deepcopy") and c.args]:
        a_ = flow.expand(dc_.args[0])
        per_elem = isinstance(a_, ast.Call) and txt(a_.func) == "__elem__"
        single = isinstance(a_, ast.Subscript)           # one tree picked by position
        k_ = ckey(ff, None, "copy-per-tree")
        if per_elem or single:
            ctx.holds(rule, k_, where(ff, dc_), "each source tree is deep-copied on its own", 1)
        else:
            ctx.violation(rule, k_, where(ff, dc_), f"`{txt(dc_)[:70]}` copies the whole collection at once: entries that name the same source table stay one object, "
                          "which is then conjugated once per entry (conjugated back), and the created tables share state")
    ext = [c for c in pf.calls_in(ff.node) if isinstance(c.func, ast.Attribute) and c.func.attr in ("extend", "append")
           and txt(c.func.value) == "self._parsed_decays"]
    if not ext:
        ctx.violation(rule, ckey(ff, None, "added"), where(ff, ff.node), "conjugate tables are never added")
    for c in ext:
        r = ef.root(flow, c.args[0], 1 if c.func.attr == "extend" else 0)
        k = ckey(ff, None, "added-is-copy")
        if r == ("fresh", "deepcopy"):
            ctx.holds(rule, k, where(ff, c), "every tree added as a conjugate table is a deep copy", 2)
        else:
            ctx.violation(rule, k, where(ff, c), f"a tree added as a conjugate table is not a deep copy ({r[0]} {r[1]})")
    # the visited trees are the ones that are added
    for c in visits:
        a = c.args[0]
        if isinstance(a, ast.Name):
            d = flow.defs_of(a)
            src = txt(d[0].value) if len(d) == 1 and d[0].value is not None else "?"
            added = [txt(x.args[0]) for x in ext if x.args]
            if src in added:
                ctx.holds(rule, ckey(ff, None, "same-list"), where(ff, c), "the copies that are conjugated are the ones that are added", 1)
            else:
                ctx.violation(rule, ckey(ff, None, "same-list"), where(ff, c), f"conjugation runs over `{src}` but `{added}` is added to the tables")


def c03_3(ctx, ss):
    ef = effects(ss)
    gf = grammar_facts(ss, DECGRAMMAR)
    mf = pf.module_facts(ss, DEC)
    cf = mf.classes.get("ChargeConjugateReplacement")
    if cf is None:
        raise AnchorMissing("class ChargeConjugateReplacement not found")
    pub = sorted(m for m in cf.methods if not m.startswith("_"))
    extra = [m for m in pub if m != "particle" and m in gf.tree_names]
    k = f"{DEC}:ChargeConjugateReplacement"
    if extra:
        m = cf.methods[extra[0]]
        ctx.violation("C03.3", k + f" :: callback:{extra[0]}", where(m, m.node),
                      f"the conjugating visitor also has a callback for `{extra[0]}` nodes: conjugation no longer rewrites particle names only")
    else:
        ctx.holds("C03.3", k + " :: callbacks", f"src/decaylanguage/{DEC}:{cf.node.lineno}", f"grammar-rule callbacks of the visitor: {[m for m in pub if m in gf.tree_names]}", len(pub))
    n = 0
    for name, m in cf.methods.items():
        flow = __import__("sa.core.defuse", fromlist=["flow_of"]).flow_of(ss, m)
        for w in ef.local[m.key]:
            n += 1
            r = w.root
            kk = ckey(m, None, w.how)
            if name == "__init__" and r[0] == "state":
                ctx.holds("C03.3", kk, where(m, w.node), "constructor initialises its own table", 1)
            elif name == "particle" and r == ("param", "tree") and w.how.startswith("store ") and isinstance(w.node, ast.Assign) \
                    and txt(flow_of(ss, m).expand(w.node.targets[0])) == "tree.children[0].value":       # (expanded: the token may be held in a local)
                ctx.holds("C03.3", kk, where(m, w.node), "writes the LABEL token value of the visited particle node", 1)
            elif r[0] == "state" and r[1] == "self.charge_conj_defs":
                ctx.holds("C03.3", kk, where(m, w.node), "memoises a name pair in its own table", 1)
            else:
                ctx.violation("C03.3", kk, where(m, w.node), f"the conjugating visitor performs another write: {w.how} on {r[0]} {r[1]}")
    ctx.count("write_sites", n)
    ctx.floor("C03.3", "write sites in the visitor", n, 3)


def c03_4(ctx, ss):
    from ..core.treetypes import TreeTyper
    ff, flow = fn(ss, DEC, "ChargeConjugateReplacement.particle")
    gf = grammar_facts(ss, DECGRAMMAR)
    stores = [s for s in pf.iter_stmts(ff.node.body) if isinstance(s, ast.Assign) and txt(s.targets[0]).endswith(".value")]
    if len(stores) != 1:
        raise AnchorMissing("particle(): expected one store to a token value")
    s = stores[0]
    v = flow.expand(s.value)
    k = ckey(ff, None, "new-name")
    tgt = flow.expand(s.targets[0])
    ok = isinstance(v, ast.Call) and txt(v.func) == "find_charge_conjugate_match" and len(v.args) == 2 \
        and txt(v.args[0]) == txt(tgt) and txt(v.args[1]) == "self.charge_conj_defs"
    if ok:
        ctx.holds("C03.4", k, where(ff, s), "token.value := find_charge_conjugate_match(token.value, self.charge_conj_defs)", 3)
    else:
        ctx.violation("C03.4", k, where(ff, s), f"the particle name is replaced by `{txt(v)[:120]}`, not by the conjugate match of the same token")
    tt = TreeTyper(gf)
    val = tt.check(tgt, {"tree": tt.tree("particle")})
    if tt.errors or val.sig() != "particle/0:LABEL":
        ctx.violation("C03.4", k + " :: type", where(ff, s), f"the written location is `{val.sig()}` {tt.errors[:1]}, not the LABEL token of the particle node")
    else:
        ctx.holds("C03.4", k + " :: type", where(ff, s), "the written location is particle/0:LABEL on every child word", 1)
    # the table handed to the visitor is the file's ChargeConj table
    af, aflow = fn(ss, DEC, ACC)
    ctor = [c for c in pf.calls_in(af.node) if isinstance(c.func, ast.Name) and c.func.id == "ChargeConjugateReplacement"]
    ok = bool(ctor) and all((c.keywords or c.args) and aflow.text(c.keywords[0].value if c.keywords else c.args[0]) == "self.dict_charge_conjugates()" for c in ctor)
    (ctx.holds if ok else ctx.violation)("C03.4", ckey(af, None, "table"), where(af, ctor[0] if ctor else af.node),
                                          "the visitor gets self.dict_charge_conjugates()" if ok else "the visitor is not given the file's ChargeConj table")


def c03_5(ctx, ss):
    ff, flow = fn(ss, DEC, "find_charge_conjugate_match")
    p_name, p_tab = ff.params[0], ff.params[1]
    rets = returns(ff)
    kinds = {}
    for r in rets:
        v = flow.expand(r.value)
        conds = [(txt(flow.expand(e)), pol) for kind, e, pol in guards.path_conditions(ff.node, r) if kind in ("if", "while")]
        tv = txt(v)
        if tv == f"{p_tab}.get({p_name})":
            kinds["forward"] = (r, conds)
        elif tv == f"__elem__({p_tab}.items())[0]":
            kinds["reverse"] = (r, conds)
        elif tv == f"charge_conjugate_name({p_name})":
            kinds["database"] = (r, conds)
        else:
            ctx.violation("C03.5", ckey(ff, None, "exit:" + tv[:60]), where(ff, r), f"unexpected exit `return {tv[:100]}`")
    want = {
        "forward": {(p_tab, True), (f"{p_tab}.get({p_name}) is None", False)},
        "reverse": {(p_tab, True), (f"__elem__({p_tab}.items())[1] == {p_name}", True), (f"{p_tab}.get({p_name}) is None", True)},
        "database": set(),
    }
    alt = {"reverse": {(p_tab, True), (f"{p_name} == __elem__({p_tab}.items())[1]", True), (f"{p_tab}.get({p_name}) is None", True)}}
    for kname, w in want.items():
        k = ckey(ff, None, f"exit:{kname}")
        if kname not in kinds:
            ctx.violation("C03.5", k, where(ff, ff.node), f"the {kname} exit of find_charge_conjugate_match is missing "
                          + ("(ChargeConj pairs are read in one orientation only)" if kname == "reverse" else ""))
            continue
        r, conds = kinds[kname]
        got = set(conds)
        # tolerate the equivalent `is not None` / truthiness spellings of the table test
        norm = {((p_tab, not p) if t == f"{p_tab} is None" else (t, p)) for t, p in got}
        if kname == "database":
            # the database exit is the fall-through: whatever guards remain on it are the negations of the earlier exits
            norm = {x for x in norm if x not in {(p_tab, True), (p_tab, False), (f"{p_tab}.get({p_name}) is None", True)}}
        if norm == w or norm == alt.get(kname):
            ctx.holds("C03.5", k, where(ff, r), f"{kname} exit guarded exactly by {sorted(t for t, _ in w) or 'nothing'}", len(w) + 1)
        else:
            extra = norm - w
            missing = w - norm
            ctx.violation("C03.5", k, where(ff, r),
                          f"the {kname} exit has path conditions {sorted(norm)}: extra {sorted(extra)} missing {sorted(missing)} "
                          "(some names are matched in one orientation only / under an additional condition)")
    # order: forward before reverse before database
    if all(x in kinds for x in want):
        cfg = flow.cfg
        nf, nr, nd = (cfg.node_of(kinds[x][0]) for x in ("forward", "reverse", "database"))
        ok = not cfg.reachable(nr, nf) and not cfg.reachable(nd, nf) and not cfg.reachable(nd, nr)
        (ctx.holds if ok else ctx.violation)("C03.5", ckey(ff, None, "order"), where(ff, ff.node),
                                              "table forward, then table reverse, then database" if ok else "the three lookups are not tried in the order forward / reverse / database")


def _collected(ff, flow):
    """The statements that collect the source table of a CDecay, in either form:
         A  `X.append(T)` in the main loop, `[deepcopy(t) for t in X]` afterwards      -> (stmt, T, comp)
         B  `Y.append(deepcopy(T))` in the main loop (copy made on collection)          -> (stmt, T, None)
    """
    out = []
    src = None
    comp = None
    for c in pf.calls_in(ff.node):
        if txt(c.func) in ("copy.deepcopy", "deepcopy") and c.args and isinstance(c.args[0], ast.Name):
            ds = flow.defs_of(c.args[0])
            if len(ds) == 1 and ds[0].kind in ("comp", "for") and isinstance(ds[0].value, ast.Name):
                src, comp = ds[0].value.id, ds[0].stmt
    if src:
        out = [(st, args[0], comp) for st, m, args in builder_sites(ff, flow, src) if m == "append"]
    if not out:
        for c in pf.calls_in(ff.node):
            if isinstance(c.func, ast.Attribute) and c.func.attr == "append" and len(c.args) == 1 and isinstance(c.args[0], ast.Call) \
                    and txt(c.args[0].func) in ("copy.deepcopy", "deepcopy") and c.args[0].args and enclosing(ff, c, (ast.For,)):
                out.append((stmt_of(ff, c), c.args[0].args[0], None))
    return out


def c03_6(ctx, ss):
    ff, flow = fn(ss, DEC, ACC)
    WORK = "self.list_charge_conjugate_decays()"
    NAMES = canon("[get_decay_mother_name(__elem__(self._parsed_decays)) for tree in self._parsed_decays]")
    NAMES_M = "self.list_decay_mother_names()"          # the public query that returns exactly that list (C01.8 decides it)
    # the main loop: the one that looks each CDecay name up
    # (role: the loop that collects the trees which are deep-copied afterwards)
    coll = _collected(ff, flow)
    main = []
    for st0, _, _ in coll:
        for lp in enclosing(ff, st0, (ast.For,))[:1]:
            if not any(lp is m_ for m_ in main):
                main.append(lp)
    if len(main) != 1:
        raise AnchorMissing("_add_charge_conjugate_decays: the loop that collects the source table of each CDecay was not found")
    main = main[0]
    W = flow.expand(main.iter)
    # (a) the names treated are the CDecay names minus those that have a Decay block ("Decay wins"):
    #     either the work list is filtered (`n not in <mother names of the Decay blocks>`), or those names are removed from it
    k = ckey(ff, None, "decay-wins")
    ok = False
    if isinstance(W, ast.ListComp) and len(W.generators) == 1 and txt(W.generators[0].iter) == WORK and txt(W.elt) == f"__elem__({WORK})":
        ifs = W.generators[0].ifs
        # `n not in <Decay mothers>`, or `n not in <the CDecay names that are Decay mothers>` (the same for a CDecay name n)
        DUP = canon(f"[__elem__({WORK}) for n in {WORK} if __elem__({WORK}) in {NAMES}]")
        DUP_M = canon(f"[__elem__({WORK}) for n in {WORK} if __elem__({WORK}) in {NAMES_M}]")
        ok = len(ifs) == 1 and isinstance(ifs[0], ast.Compare) and isinstance(ifs[0].ops[0], ast.NotIn) and txt(ifs[0].left) == f"__elem__({WORK})" \
            and txt(ifs[0].comparators[0]) in (NAMES, DUP, NAMES_M, DUP_M)
        where_ = main
    elif txt(W) == WORK:
        removes = [c for c in pf.calls_in(ff.node) if isinstance(c.func, ast.Attribute) and c.func.attr == "remove" and txt(flow.expand(c.func.value)) == WORK]
        where_ = removes[0] if removes else ff.node
        for c in removes:
            a_ = flow.expand(c.args[0]) if c.args else None
            # the removed name is an element of [n for n in <CDecay names> if n in <Decay mother names>]
            if isinstance(a_, ast.Call) and txt(a_.func) == "__elem__" and isinstance(a_.args[0], ast.ListComp):
                comp = a_.args[0]
                g = comp.generators[0]
                if len(comp.generators) == 1 and txt(g.iter) == WORK and txt(comp.elt) == f"__elem__({WORK})" and len(g.ifs) == 1 and isinstance(g.ifs[0], ast.Compare) \
                        and isinstance(g.ifs[0].ops[0], ast.In) and txt(g.ifs[0].left) == f"__elem__({WORK})" and txt(g.ifs[0].comparators[0]) in (NAMES, NAMES_M):
                    lps = enclosing(ff, c, (ast.For,))
                    conds = [cd for cd in guards.path_conditions(ff.node, stmt_of(ff, c), stop_at=lps[0] if lps else None) if cd[0] == "if"]
                    if lps and not conds and flow.cfg.dominates(flow.cfg.node_of(lps[0]), flow.cfg.node_of(main)):
                        ok = True
    else:
        where_ = main
    if ok:
        ctx.holds("C03.6", k, where(ff, where_), "a CDecay name that also has a Decay block is dropped from the work list (Decay wins)", 3)
    else:
        ctx.violation("C03.6", k, where(ff, where_), "CDecay names that already have a Decay block are not (exactly) the ones removed from the work list")
    # (b) source lookup inside try; append only on success; miss list in the handler
    # the list the deep copies are made from
    apps = [(st, [src_]) for st, src_, _ in coll]
    # every collected source tree is copied (no slice / filter between collection and copy)
    whole = bool(coll) and all(comp_ is None or not (isinstance(comp_, (ast.ListComp, ast.GeneratorExp)) and any(g.ifs for g in comp_.generators)) for _, _, comp_ in coll)
    dc = [c for c in pf.calls_in(ff.node) if txt(c.func) in ("copy.deepcopy", "deepcopy")]
    if not whole:
        ctx.violation("C03.6", ckey(ff, None, "copy-all"), where(ff, dc[0] if dc else ff.node),
                      "the deep copies are not made from the whole list of collected source tables (sliced / filtered): some CDecay statements get no table")
    else:
        ctx.holds("C03.6", ckey(ff, None, "copy-all"), where(ff, dc[0] if dc else ff.node), "every collected source table is deep-copied", 1)
    if not apps:
        ctx.violation("C03.6", ckey(ff, None, "source"), where(ff, ff.node), "no source table is ever collected for the CDecay statements")
        return
    for st, args in apps:
        parts = enclosing_try_parts(ff, st)
        v = flow.expand(args[0])
        t = txt(v)
        kk = ckey(ff, None, "source")
        # source tree = self._parsed_decays[ {mother name of table i: i}[ find_charge_conjugate_match(<this CDecay name>, <ChargeConj table>) ] ]
        oks = False
        pos = None
        if isinstance(v, ast.Subscript) and txt(v.value) == "self._parsed_decays" and isinstance(v.slice, ast.Subscript) and isinstance(v.slice.value, ast.DictComp):
            dc_, key_ = v.slice.value, v.slice.slice
            g = dc_.generators[0]
            en = "enumerate(self._parsed_decays)"
            okd = len(dc_.generators) == 1 and not g.ifs and txt(g.iter) == en and txt(dc_.value) == f"__elem__({en})[0]" \
                and txt(dc_.key) in (f"__elem__({en})[1].children[0].children[0].value", f"get_decay_mother_name(__elem__({en})[1])")
            okk = isinstance(key_, ast.Call) and txt(key_.func) == "find_charge_conjugate_match" and len(key_.args) == 2 and not key_.keywords \
                and txt(key_.args[0]) == f"__elem__({txt(W)})" and txt(key_.args[1]) == "self.dict_charge_conjugates()"
            oks = okd and okk and any(st is x for x in ast.walk(main))
            pos = v.slice
        if oks:
            ctx.holds("C03.6", kk, where(ff, st), "source tree = table of find_charge_conjugate_match(CDecay name, ChargeConj table)", 4)
        else:
            ctx.violation("C03.6", kk, where(ff, st), f"the source table of a CDecay is `{t[:160]}`")
        # a CDecay whose source table does not exist is a miss: nothing is collected for it, its name goes to the miss list.
        # Forms: lookup + append inside try with handlers that record the miss; or `if name in <table index>: … else: record`.
        okm = False
        if parts and parts[0][1] in ("body", "orelse") and all(any(isinstance(x, ast.Call) and txt(x.func).endswith(".append") for s_ in h.body for x in ast.walk(s_)) for h in parts[0][0].handlers):
            okm = True
        else:
            conds = [(flow.expand(e), pol) for kind, e, pol in guards.path_conditions(main, st, stop_at=main) if kind == "if"]
            mem = [(e, pol) for e, pol in conds if isinstance(e, ast.Compare) and isinstance(e.ops[0], ast.In) and pos is not None
                   and txt(e.comparators[0]) == txt(pos.value) and txt(e.left) == txt(pos.slice)]
            if len(conds) == 1 and len(mem) == 1 and mem[0][1] is True:
                ifs_ = [x for x in main.body if isinstance(x, ast.If) and any(st is y for y in ast.walk(x))]
                okm = bool(ifs_) and bool(ifs_[0].orelse) and any(isinstance(x, ast.Call) and txt(x.func).endswith(".append") for s_ in ifs_[0].orelse for x in ast.walk(s_))
        if okm:
            ctx.holds("C03.6", ckey(ff, None, "miss"), where(ff, st), "a CDecay without a source table is recorded as a miss and adds nothing", 2)
        else:
            ctx.violation("C03.6", ckey(ff, None, "miss"), where(ff, st), "a CDecay without a source table is not handled as a miss")


def c03_8(ctx, ss):
    """Early exits only for an empty work list; every deep copy is conjugated unless its mother is self-conjugate;
    the switch defaults to on."""
    ff, flow = fn(ss, DEC, ACC)
    work = "self.list_charge_conjugate_decays()"
    for r in [r for r in returns(ff)]:
        # the return's own guard (innermost condition) says: the list of CDecay names still to treat is empty
        allc = [(flow.expand(e), pol) for kind, e, pol in guards.path_conditions(ff.node, r) if kind == "if"]
        conds = [(txt(e), pol) for e, pol in allc]
        k = ckey(ff, None, "early-return")

        def is_worklist(e):
            if txt(e) == work:
                return True
            if isinstance(e, ast.ListComp) and len(e.generators) == 1 and txt(e.generators[0].iter) == work and txt(e.elt) == f"__elem__({work})":
                return True       # the work list minus the names that have a Decay block
            return False
        ok = bool(allc) and is_worklist(allc[0][0]) and allc[0][1] is False
        (ctx.holds if ok else ctx.violation)("C03.8", k, where(ff, r), "early return only when no CDecay remains to be treated" if ok
                                              else f"_add_charge_conjugate_decays returns early under {conds}: CDecay statements are silently not honoured")
    visits = [c for c in pf.calls_in(ff.node) if isinstance(c.func, ast.Attribute) and c.func.attr == "visit" and "ChargeConjugateReplacement" in txt(c.func.value)]
    for c in visits:
        lps = [x for x in pf.walk_no_nested(ff.node) if isinstance(x, ast.For) and any(c is y for y in ast.walk(x))]
        conds = [(txt(e), pol) for kind, e, pol in guards.path_conditions(lps[0] if lps else ff.node, stmt_of(ff, c)) if kind == "if"]
        tv = txt(lps[0].target) if lps else "?"
        ok = conds in ([], [(f"_is_not_self_conj({tv})", True)]) and not any(isinstance(x, (ast.Break, ast.Continue)) for x in ast.walk(lps[0])) if lps else False
        if not ok and lps and len(conds) == 1 and conds[0][1] and conds[0][0].isidentifier():
            # the gate written out in place (a helper of another name, inlined by the normal form): a flag local that is False
            # exactly when the copy's mother is a self-conjugate particle of the database, True otherwise
            flag = conds[0][0]
            fdefs = [d for d in flow.defs if d.name == flag and d.kind == "assign" and d.value is not None]
            falses = [d for d in fdefs if isinstance(d.value, ast.Constant) and d.value.value is False]
            trues = [d for d in fdefs if isinstance(d.value, ast.Constant) and d.value.value is True]
            if len(falses) == 1 and trues and len(falses) + len(trues) == len(fdefs):
                c2 = [(txt(flow.expand(e, keep={tv})), pol) for kind, e, pol in guards.path_conditions(lps[0], falses[0].stmt, stop_at=lps[0]) if kind == "if"]
                ok = len(c2) == 1 and c2[0][1] and c2[0][0].startswith("Particle.from_evtgen_name(") and c2[0][0].endswith(".is_self_conjugate") \
                    and f"{tv}.children[0].children[0].value" in c2[0][0] and not any(isinstance(x, (ast.Break, ast.Continue)) for x in ast.walk(lps[0]))
        (ctx.holds if ok else ctx.violation)("C03.8", ckey(ff, None, "visit-gate"), where(ff, c),
                                              "every copy is conjugated unless its mother is self-conjugate" if ok else f"conjugation of a copy is gated by {conds}")
    mf = pf.module_facts(ss, DEC)
    hq = f"{ACC}._is_not_self_conj"
    if hq in mf.funcs:
        hf = mf.funcs[hq]
        from ..core.defuse import flow_of
        hflow = flow_of(ss, hf)
        falses = [r for r in returns(hf) if isinstance(r.value, ast.Constant) and r.value.value is False]
        trues = [r for r in returns(hf) if isinstance(r.value, ast.Constant) and r.value.value is True]
        okf = len(falses) == 1 and len(trues) >= 1 and len(falses) + len(trues) == len(returns(hf))
        if okf:
            conds = [(txt(hflow.expand(e)), pol) for kind, e, pol in guards.path_conditions(hf.node, falses[0]) if kind == "if"]
            okf = len(conds) == 1 and conds[0][1] and conds[0][0].startswith("Particle.from_evtgen_name(") and conds[0][0].endswith(".is_self_conjugate") \
                and ".children[0].children[0].value" in conds[0][0]
        (ctx.holds if okf else ctx.violation)("C03.8", ckey(hf, None, "self-conj"), where(hf, hf.node),
                                              "a copy is left unconjugated exactly when its mother is a self-conjugate particle of the database" if okf
                                              else "_is_not_self_conj no longer answers False exactly for self-conjugate mothers")
    pff, _ = fn(ss, DEC, "DecFileParser.parse")
    d = pff.node.args.defaults
    okd = len(d) == 1 and isinstance(d[0], ast.Constant) and d[0].value is True
    (ctx.holds if okd else ctx.violation)("C03.8", ckey(pff, None, "default-on"), where(pff, pff.node),
                                          "parse() considers CDecay statements by default" if okd else "parse(include_ccdecays=…) no longer defaults to True")


def c03_7(ctx, ss):
    ff, flow = fn(ss, DEC, "DecFileParser.parse")
    cfg = flow.cfg
    cp = [stmt_of(ff, c) for c in pf.calls_in(ff.node) if txt(c.func) == "self._add_decays_to_be_copied"]
    cc = [stmt_of(ff, c) for c in pf.calls_in(ff.node) if txt(c.func) == "self._add_charge_conjugate_decays"]
    if not cp or not cc:
        raise AnchorMissing("parse(): copy / conjugate steps not found")
    ok = all(not cfg.reachable(cfg.node_of(b), cfg.node_of(a)) and cfg.reachable(cfg.node_of(a), cfg.node_of(b)) for a in cp for b in cc)
    (ctx.holds if ok else ctx.violation)("C03.7", ckey(ff, None, "copy<cc"), where(ff, cc[0]),
                                          "CopyDecay tables exist before conjugates are created (a copy can be the source of a CDecay)" if ok
                                          else "conjugates can be created before the CopyDecay tables exist")
