"""C04 — conjugation is a PDG-consistent involution at every layer (DESIGN.md §4 C04)."""
from __future__ import annotations

import ast

from ..core import guards
from ..core import pyfacts as pf
from ..core.callgraph import callgraph
from ..core.defuse import is_identity
from ..core.match import txt
from ..core.source import AnchorMissing
from .common import DEC, DECAY, PUTIL, ckey, fn, returns, single_def, where

PROP = "C04"
FILES = [PUTIL, DECAY, DEC]
EXPLANATION = (
    "C04.1 one implementation: the final-state, decay-mode and .dec visitor layers all reach charge_conjugate_name "
    "(call graph) and no other construct in the package inverts particles (.invert(), negated id lookup, sign "
    "swapping on name strings); C04.2 the exits of charge_conjugate_name are database inversion, id negation through the "
    "bi-map, the verbatim ChargeConj(name) marker, and for PDG names convert-in / recurse / convert-back with the marker on "
    "the ORIGINAL name; C04.3 final-state conjugation maps every name through it and carries the multiplicity unchanged; "
    "C04.4 mode conjugation forwards the branching fraction, the conjugated final state and all metadata; C04.5 the CDecay "
    "layer: the conjugating visitor writes into each particle token exactly the conjugate match of that token from this file's "
    "ChargeConj table (else charge_conjugate_name) and keeps no other state (clauses shared with C03.3-C03.5).")
NOT_DECIDED = ["involution and PDG-ID consistency over the ~800 EvtGen / ~1000 PDG names: a property of the installed particle data (not applicable to static analysis of this source)",
               "agreement with the CDecay table as an equality of objects"]
CCN = f"{PUTIL}:charge_conjugate_name"


def run(ctx, ss):
    for r, f in (("C04.1", c04_1), ("C04.2", c04_2), ("C04.2", c04_defaults), ("C04.3", c04_3), ("C04.4", c04_4)):
        ctx.guard(r, f, ss)
    # C04.5 'agrees with the table CDecay produces': the .dec visitor writes, into each particle token, exactly the
    # conjugate match of THAT token computed from THIS file's ChargeConj table (falling back to charge_conjugate_name),
    # and keeps no other state -- the clauses C03.3 / C03.4 / C03.5 decide, shared here
    from .c03 import c03_2, c03_3, c03_4, c03_5
    from .c05 import _as
    # (c03_2: each CDecay table is conjugated on its OWN deep copy -- a copy shared by two statements is conjugated twice, i.e. back)
    for f in (c03_2, c03_3, c03_4, c03_5):
        ctx.guard("C04.5", lambda c, s_, f=f: _as(c, s_, f, "C04.5"), ss)
    # ... and the table CDecay produces is REPORTED from the conjugated tokens of its own lines: each reported field is the
    # accessor applied to this decay line (C01.4 / C16.9 shared), nothing on the way is memoised on a tree or a parser
    from .c01 import details_fields
    ctx.guard("C04.5", details_fields, ss, "C04.5")
    ctx.guard("C04.6", c04_6, ss)
    from .shared import memo_discipline
    ctx.guard("C04.5", memo_discipline, ss, "C04.5", ["dec/dec.py:DecFileParser.list_decay_modes", "dec/dec.py:DecFileParser._decay_mode_details", "dec/dec.py:DecFileParser.build_decay_chains",
                                                    "decay/decay.py:DecayMode.charge_conjugate", "decay/decay.py:DaughtersDict.charge_conjugate"], "a conjugated table")


def c04_6(ctx, ss):
    """The particle table the package ships and loads into the database when an AmpGen model is read
    (data/MintDalitzSpecialParticles.csv, `Particle.load_table(..., append=True)`): conjugation of its entries is
    `invert()`, which follows the table's `Anti` column (0 = the particle is its own antiparticle).  A particle whose
    negative ID is also listed must not be flagged 0 -- invert() would return the particle itself and the ID would not be
    negated -- and a particle flagged 0 must have no negative-ID partner."""
    import csv
    import io
    rel = "src/decaylanguage/data/MintDalitzSpecialParticles.csv"
    if rel not in ss.files:
        raise AnchorMissing("data/MintDalitzSpecialParticles.csv not found")
    rows = list(csv.DictReader(io.StringIO(ss.files[rel])))
    if not rows or "ID" not in rows[0] or "Anti" not in rows[0]:
        raise AnchorMissing("MintDalitzSpecialParticles.csv: columns ID / Anti not found")
    by_id = {}
    for r in rows:
        if not (r.get("ID") or "").strip():
            continue            # separator row
        try:
            by_id[int(r["ID"])] = (int(r["Anti"]), r.get("Name", "?"), int(r.get("Charge", "0") or 0))
        except ValueError:
            ctx.violation("C04.6", "data/MintDalitzSpecialParticles.csv :: row", rel, f"row with ID `{r.get('ID')}` has a non-numeric ID / Anti / Charge")
            return
    # a particle with non-zero charge is never its own antiparticle: flagged 0 it would be conjugated to itself
    # (neutral place-holder objects such as NonRes* / KPi* are outside the property: they are no EvtGen / PDG particles)
    bad = None
    n_ch = 0
    for i_, (anti, name, ch) in sorted(by_id.items()):
        if ch == 0:
            continue
        n_ch += 1
        if anti == 0:
            bad = f"{name} (ID {i_}, charge {ch}/3) is flagged self-conjugate (Anti=0): once this table is loaded its conjugate is reported as the particle itself and the ID is not negated"
            break
        if -i_ not in by_id:
            bad = f"{name} (ID {i_}, charge {ch}/3) has no row with ID {-i_}: its conjugate cannot be found once this table is loaded"
            break
        if by_id[-i_][2] != -ch:
            bad = f"{name}: the rows {i_} and {-i_} do not carry opposite charges"
            break
    (ctx.holds if not bad else ctx.violation)("C04.6", "data/MintDalitzSpecialParticles.csv :: conjugates", rel,
                                              f"{n_ch} charged entries of the shipped special-particle table: each is flagged as having an antiparticle, and the row with the negated ID carries the opposite charge"
                                              if not bad else bad)
    ctx.floor("C04.6", "rows of the special-particle table", len(by_id), 40)


def c04_1(ctx, ss):
    cg = callgraph(ss)
    if CCN not in cg.funcs:
        raise AnchorMissing("charge_conjugate_name not found")
    # (a) the three layers reach it
    reach_dd = cg.reach([f"{DECAY}:DaughtersDict.charge_conjugate"])
    (ctx.holds if CCN in reach_dd else ctx.violation)("C04.1", f"{DECAY}:DaughtersDict.charge_conjugate :: reaches", f"src/decaylanguage/{DECAY}",
                                                       "final-state conjugation reaches charge_conjugate_name" if CCN in reach_dd
                                                       else "final-state conjugation does not go through charge_conjugate_name")
    dm, dflow = fn(ss, DECAY, "DecayMode.charge_conjugate")
    init, iflow = fn(ss, DECAY, "DecayMode.__init__")
    via = [c for c in pf.calls_in(dm.node) if txt(c.func) == "self.daughters.charge_conjugate"]
    typed = [s for s in pf.iter_stmts(init.node.body) if isinstance(s, ast.Assign) and txt(s.targets[0]) == "self.daughters"
             and isinstance(s.value, ast.Call) and txt(s.value.func) == "DaughtersDict"]
    ok = bool(via) and bool(typed)
    (ctx.holds if ok else ctx.violation)("C04.1", ckey(dm, None, "reaches"), where(dm, dm.node),
                                          "mode conjugation delegates to the final state (a DaughtersDict) and hence to charge_conjugate_name" if ok
                                          else "mode conjugation does not delegate to DaughtersDict.charge_conjugate")
    reach_v = cg.reach([f"{DEC}:ChargeConjugateReplacement.particle"])
    (ctx.holds if CCN in reach_v else ctx.violation)("C04.1", f"{DEC}:ChargeConjugateReplacement.particle :: reaches", f"src/decaylanguage/{DEC}",
                                                      "the .dec visitor reaches charge_conjugate_name (via find_charge_conjugate_match)" if CCN in reach_v
                                                      else "the .dec visitor does not go through charge_conjugate_name")
    # (b) nothing else inverts particles
    n_sites = 0
    offenders = []
    for m in pf.all_modules(ss):
        mf = pf.module_facts(ss, m)
        for q, ff in mf.funcs.items():
            for c in pf.calls_in(ff.node, nested=False):
                if isinstance(c.func, ast.Attribute):
                    n_sites += 1
                    if c.func.attr == "invert" and ff.key != CCN:
                        offenders.append((ff, c, "calls .invert()"))
                    if c.func.attr in ("swapcase",) or (c.func.attr in ("replace", "translate", "maketrans") and c.args and
                                                        all(isinstance(a, ast.Constant) and a.value in ("+", "-", "anti-", "") for a in c.args[:2]) and len(c.args) >= 2):
                        offenders.append((ff, c, "swaps signs on a name string"))
            for s in pf.walk_no_nested(ff.node):
                if isinstance(s, ast.Subscript) and isinstance(s.slice, ast.UnaryOp) and isinstance(s.slice.op, ast.USub) \
                        and ("BiMap" in txt(s.value) or "PDGID" in txt(s.value)) and ff.key != CCN:
                    offenders.append((ff, s, "negates a PDG ID on its own"))
    ctx.count("call_sites", n_sites)
    for ff, node, why in offenders:
        ctx.violation("C04.1", ckey(ff, node, "second-conjugation"), where(ff, node), f"{ff.qualname} {why}: a second, ad-hoc conjugation besides charge_conjugate_name")
    if not offenders:
        ctx.holds("C04.1", "package :: single-implementation", "src/decaylanguage", f"no other particle inversion among {n_sites} method-call sites", n_sites)
    # embedded positive example: the detector must fire on a five-line snippet (expected count on the tree is zero)
    ex = ast.parse("def f(n):\n    return n.replace('+', '-')\n")
    c = [x for x in ast.walk(ex) if isinstance(x, ast.Call)][0]
    fired = c.func.attr == "replace" and all(isinstance(a, ast.Constant) and a.value in ("+", "-", "anti-", "") for a in c.args[:2])
    (ctx.holds if fired else ctx.undecided)("C04.1", "embedded-example", "-", "embedded sign-swapping example is detected" if fired else "embedded example not detected")


def c04_2(ctx, ss):
    ff, flow = fn(ss, PUTIL, "charge_conjugate_name")
    name_p = ff.params[0]
    rebind = [d for d in flow.defs if d.name == name_p and d.kind != "param"]
    if rebind:
        ctx.violation("C04.2", ckey(ff, rebind[0].stmt), where(ff, rebind[0].stmt), f"the parameter `{name_p}` is rebound: the unknown-name marker no longer carries the name verbatim")
    want = {
        "db": f"Particle.from_evtgen_name({name_p}).invert().evtgen_name",
        "id": f"EvtGenName2PDGIDBiMap[-EvtGenName2PDGIDBiMap[{name_p}]]",
        "pdg": f"EvtGen2PDGNameMap[charge_conjugate_name(PDG2EvtGenNameMap[{name_p}])]",
    }
    seen = {}
    markers = []
    for r in returns(ff):
        v = flow.expand(r.value)
        t = txt(v)
        conds = guards.path_conditions(ff.node, r)
        hit = [k for k, w in want.items() if t == w]
        if hit:
            seen[hit[0]] = (r, conds)
        elif isinstance(v, ast.JoinedStr):
            consts = "".join(p.value for p in v.values if isinstance(p, ast.Constant))
            fvs = [p for p in v.values if isinstance(p, ast.FormattedValue)]
            if consts == "ChargeConj()" and len(fvs) == 1 and isinstance(fvs[0].value, ast.Name) and fvs[0].value.id == name_p \
                    and fvs[0].conversion == -1 and fvs[0].format_spec is None:
                markers.append((r, conds))
            else:
                ctx.violation("C04.2", ckey(ff, r), where(ff, r), f"unknown-name marker is `{t}`, not ChargeConj(<the name verbatim>)")
        else:
            ctx.violation("C04.2", ckey(ff, r), where(ff, r), f"unexpected exit `return {t[:100]}`: a name is altered by something other than database inversion / id negation")
    for k, w in want.items():
        kk = ckey(ff, None, f"exit:{k}")
        if k in seen:
            r, conds = seen[k]
            pdg_guard = [pol for kind, e, pol in conds if kind == "if" and txt(e) == ff.params[1]]
            if k == "pdg" and pdg_guard != [True]:
                ctx.violation("C04.2", kk, where(ff, r), "the PDG-name route is not guarded by pdg_name")
            elif k != "pdg" and True in pdg_guard:
                ctx.violation("C04.2", kk, where(ff, r), f"the {k} route is only taken for PDG names")
            else:
                ctx.holds("C04.2", kk, where(ff, r), f"exit `{w}`", 2)
        else:
            ctx.violation("C04.2", kk, where(ff, ff.node), f"the exit `{w}` is missing")
    # markers: one in the PDG route handler, one final
    if len(markers) >= 2:
        ctx.holds("C04.2", ckey(ff, None, "markers"), where(ff, markers[0][0]), f"{len(markers)} marker exits wrap the original name verbatim", len(markers))
    else:
        ctx.violation("C04.2", ckey(ff, None, "markers"), where(ff, ff.node), "a miss no longer yields ChargeConj(name) on both routes")
    # order: db attempt, then id negation in its handler, then the marker in the inner handler
    if "db" in seen and "id" in seen:
        c_id = [c for c in seen["id"][1] if c[0] == "exc"]
        if not c_id:
            # sequential form: `try: return db … except: pass` followed by the id lookup — the id route is then reachable only
            # through an exception edge of the database attempt
            cfg = flow.cfg
            n_id, n_db = cfg.node_of(seen["id"][0]), cfg.node_of(seen["db"][0])
            if not cfg.reachable(cfg.entry, n_id, skip_labels=("exc",)) and cfg.reachable(cfg.entry, n_id) and not cfg.reachable(n_id, n_db):
                c_id = [("exc", None, True)]
        (ctx.holds if c_id else ctx.violation)("C04.2", ckey(ff, None, "order"), where(ff, seen["id"][0]),
                                                "id negation is the fallback of the database inversion" if c_id else "id negation is not the fallback of the database inversion")


def c04_defaults(ctx, ss):
    for short, q in ((PUTIL, "charge_conjugate_name"), (DECAY, "DaughtersDict.charge_conjugate"), (DECAY, "DecayMode.charge_conjugate")):
        ff, _ = fn(ss, short, q)
        d = ff.node.args.defaults
        ok = len(d) == 1 and isinstance(d[0], ast.Constant) and d[0].value is False
        (ctx.holds if ok else ctx.violation)("C04.2", ckey(ff, None, "default-naming"), where(ff, ff.node),
                                              f"{q}: EvtGen naming by default (pdg_name=False)" if ok else f"{q}: pdg_name no longer defaults to False: EvtGen names are treated as PDG names by default")


def c04_3(ctx, ss):
    ff, flow = fn(ss, DECAY, "DaughtersDict.charge_conjugate")
    rets = returns(ff)
    if len(rets) != 1:
        raise AnchorMissing("DaughtersDict.charge_conjugate: expected one return")
    v = rets[0].value
    k = ckey(ff, None, "map")
    if isinstance(v, ast.Call) and len(v.args) == 1 and isinstance(v.args[0], ast.Name):
        d_ = single_def(flow, v.args[0])           # the mapping may be built under a local name first
        if d_ is not None and d_.kind == "assign" and d_.path == () and isinstance(d_.value, ast.DictComp):
            v = ast.Call(func=v.func, args=[d_.value], keywords=v.keywords)
    if not (isinstance(v, ast.Call) and txt(v.func) in ("self.__class__", "DaughtersDict", "type(self)") and len(v.args) == 1 and isinstance(v.args[0], ast.DictComp)):
        raise AnchorMissing("DaughtersDict.charge_conjugate: not class(dict comprehension)")
    dc = v.args[0]
    g = dc.generators
    ok_iter = len(g) == 1 and not g[0].ifs and txt(g[0].iter) == "self.items()" and isinstance(g[0].target, ast.Tuple) and len(g[0].target.elts) == 2
    if not ok_iter:
        ctx.violation("C04.3", k, where(ff, rets[0]), f"the conjugate final state is not built from every (name, multiplicity) pair: `{txt(dc)[:100]}`")
        return
    pn, mn = (e.id for e in g[0].target.elts)
    key_ok = isinstance(dc.key, ast.Call) and txt(dc.key.func) == "charge_conjugate_name" and len(dc.key.args) >= 1 and txt(dc.key.args[0]) == pn \
        and (len(dc.key.args) == 2 and txt(dc.key.args[1]) == "pdg_name" or any(kw.arg == "pdg_name" and txt(kw.value) == "pdg_name" for kw in dc.key.keywords))
    val_ok = isinstance(dc.value, ast.Name) and dc.value.id == mn
    if key_ok:
        ctx.holds("C04.3", k + " :: name", where(ff, rets[0]), "each name → charge_conjugate_name(name, pdg_name)", 2)
    else:
        ctx.violation("C04.3", k + " :: name", where(ff, rets[0]), f"names are mapped by `{txt(dc.key)[:80]}`, not charge_conjugate_name(name, pdg_name)")
    if val_ok:
        ctx.holds("C04.3", k + " :: multiplicity", where(ff, rets[0]), "the multiplicity is carried unchanged", 1)
    else:
        ctx.violation("C04.3", k + " :: multiplicity", where(ff, rets[0]), f"the multiplicity becomes `{txt(dc.value)[:60]}` instead of being carried unchanged")


def c04_4(ctx, ss):
    ff, flow = fn(ss, DECAY, "DecayMode.charge_conjugate")
    rets = returns(ff)
    if len(rets) != 1 or not isinstance(rets[0].value, ast.Call):
        raise AnchorMissing("DecayMode.charge_conjugate: expected one constructor call")
    c = rets[0].value
    k = ckey(ff, None, "forward")
    if txt(c.func) not in ("self.__class__", "DecayMode", "type(self)"):
        raise AnchorMissing("DecayMode.charge_conjugate does not construct a mode")
    bf = c.args[0] if c.args else next((kw.value for kw in c.keywords if kw.arg == "bf"), None)
    dd = c.args[1] if len(c.args) > 1 else next((kw.value for kw in c.keywords if kw.arg == "daughters"), None)
    if dd is not None:
        dd = flow.expand(dd)          # the conjugated daughters may be held in a local first
    meta = [kw for kw in c.keywords if kw.arg is None]
    (ctx.holds if bf is not None and txt(bf) == "self.bf" else ctx.violation)(
        "C04.4", k + " :: bf", where(ff, c), "branching fraction forwarded unchanged" if bf is not None and txt(bf) == "self.bf"
        else f"branching fraction of the conjugate mode is `{txt(bf) if bf is not None else None}`")
    okd = dd is not None and isinstance(dd, ast.Call) and txt(dd.func) == "self.daughters.charge_conjugate" and \
        ((dd.args and txt(dd.args[0]) == "pdg_name") or any(kw.arg == "pdg_name" and txt(kw.value) == "pdg_name" for kw in dd.keywords))
    (ctx.holds if okd else ctx.violation)("C04.4", k + " :: daughters", where(ff, c),
                                           "final state = self.daughters.charge_conjugate(pdg_name)" if okd else f"final state of the conjugate mode is `{txt(dd) if dd is not None else None}`")
    okm = len(meta) == 1 and txt(meta[0].value) == "self.metadata"
    (ctx.holds if okm else ctx.violation)("C04.4", k + " :: metadata", where(ff, c),
                                           "all metadata forwarded (**self.metadata)" if okm else "the metadata (model, parameters, user entries) is not forwarded to the conjugate mode")
    # the constructor stores every extra keyword
    init, iflow = fn(ss, DECAY, "DecayMode.__init__")
    from .common import dict_entries
    ents, _st, econd = dict_entries(init, iflow, "self.metadata")
    oku = [txt(v) for k_, v in ents if k_ == "**"] == ["info"] and not econd
    (ctx.holds if oku else ctx.violation)("C04.4", ckey(init, None, "stores-info"), where(init, init.node),
                                           "DecayMode.__init__ stores every extra keyword in metadata" if oku else "DecayMode.__init__ does not store all extra keywords")
