"""C05 — Define'd parameters and ModelAlias'd models mean their expansion (DESIGN.md §4 C05)."""
from __future__ import annotations

import ast

from ..core import guards
from ..core import pyfacts as pf
from ..core.effects import effects
from ..core.larkfacts import grammar_facts
from ..core.match import txt
from ..core.source import AnchorMissing
from .common import DEC, DECGRAMMAR, case_of, ckey, enclosing, fn, returns, stmt_of, where

PROP = "C05"
FILES = [DEC, DECGRAMMAR]
EXPLANATION = (
    "C05.1 Define and ModelAlias tables are built by unconditional overwrite while iterating find_data directly "
    "(last definition wins) and read the right children (flow signatures); C05.2 ownership: what the alias "
    "transformer puts into a decay tree is a fresh copy per use, never a reference into its own table; C05.3 the "
    "parameter visitor: numeric children → float, words: lookup key is the text without a leading '-', the value is "
    "negated exactly when the '-' was present, assignment only when the key is defined, every child visited; C05.4 "
    "replacement covers all tables and precedes copying and conjugation (C01.5).")
NOT_DECIDED = ["textual-expansion equivalence as an equality of tables (needs execution)", "alias-of-alias chains (O1, outside the quantifier)"]
G = DECGRAMMAR


def run(ctx, ss):
    from .common import keyword_vocabulary
    ctx.guard("C05.1", keyword_vocabulary, ss, "C05.1", ('model_alias', 'define'), ())
    from .c01 import c01_5
    for r, f in (("C05.1", c05_1), ("C05.2", c05_2), ("C05.3", c05_3)):
        ctx.guard(r, f, ss)
    ctx.guard("C05.4", lambda c, s: _as(c, s, c01_5, "C05.4"), ss)
    from .c06 import c06_5
    ctx.guard("C05.5", lambda c, s: _as(c, s, c06_5, "C05.5"), ss)
    # C05.7 'wherever in the file(s) the definition is placed': the input files are assembled completely, with a line break
    # after each (C02.6-C02.8), and nothing on the reading path remembers an earlier input (shared.py)
    from .shared import reading_path
    ctx.guard("C05.7", reading_path, ss, "C05.7", ["DecFileParser.dict_definitions", "DecFileParser._dict_raw_model_aliases", "DecFileParser.dict_model_aliases",
                                                  "DecFileParser.list_decay_modes", "DecFileParser._decay_mode_details"], "a Define / ModelAlias expansion")
    # the Define table that parse() substitutes from is this parser's own, freshly read from its parsed tree (shared clause of C07.8)
    from .c07 import c07_8
    from .c09 import no_state_effects
    ctx.guard("C05.6", c07_8, ss, "C05.6", ("dict_definitions",))
    for q_ in ("DecFileParser.dict_definitions", "DecFileParser._dict_raw_model_aliases"):
        ff_, _fl = fn(ss, DEC, q_)
        ctx.guard("C05.6", no_state_effects, ss, "C05.6", ff_, True)


def _as(ctx, ss, f, rule):
    """Run a rule function of another property and re-label its results."""
    n0 = len(ctx.results)
    f(ctx, ss)
    for r in ctx.results[n0:]:
        r.rule = rule


def c05_1(ctx, ss):
    from .c07 import _direct_find_data
    from .common import accessor_sig
    gf = grammar_facts(ss, G)
    # Define
    ff, flow = fn(ss, DEC, "get_definitions")
    def _dc(r):
        if isinstance(r.value, ast.DictComp):
            return r.value
        if isinstance(r.value, ast.Name):            # the table may be built under a local name first
            from .common import single_def
            d_ = single_def(flow, r.value)
            if d_ is not None and d_.kind == "assign" and d_.path == () and isinstance(d_.value, ast.DictComp):
                return d_.value
        return None
    rets = [r for r in returns(ff) if r.value is not None and _dc(r) is not None]
    k = ckey(ff, None, "last-wins")
    if rets:
        g = _dc(rets[0]).generators
        ok = len(g) == 1 and not g[0].ifs and _direct_find_data(flow.expand(g[0].iter), "define")
        (ctx.holds if ok else ctx.violation)("C05.1", k, where(ff, rets[0]),
                                              "Define table: dict comprehension directly over find_data('define') (document order, last wins)" if ok
                                              else f"Define statements are filtered / reordered before the table is built (`{txt(g[0].iter)[:80]}`): the last definition no longer wins")
    else:
        stores = [s for s in pf.iter_stmts(ff.node.body) if isinstance(s, ast.Assign) and any(isinstance(t, ast.Subscript) for t in s.targets)]
        if not stores:
            raise AnchorMissing("get_definitions: table construction not understood")
        for s in stores:
            lp = enclosing(ff, s, (ast.For,))
            conds = [c for c in guards.path_conditions(ff.node, s, stop_at=lp[0] if lp else None) if c[0] == "if"]
            ok = bool(lp) and _direct_find_data(flow.expand(lp[0].iter), "define") and not conds
            (ctx.holds if ok else ctx.violation)("C05.1", k, where(ff, s), "Define table: unconditional store in document order" if ok
                                                  else "Define table: guarded store or reordered statements (first definition wins)")
        if any(isinstance(c.func, ast.Attribute) and c.func.attr == "setdefault" for c in pf.calls_in(ff.node)):
            ctx.violation("C05.1", k, where(ff, ff.node), "Define table uses setdefault: the first definition wins")
    sig, errs, unk, tt = accessor_sig(ss, gf, DEC, "get_definitions", "parsed_file", "start")
    want = "{start//define/0:LABEL: float(start//define/1:SIGNED_NUMBER)}"
    (ctx.holds if sig == want and not errs else ctx.violation)("C05.1", ckey(ff, None, "reads"), where(ff, ff.node),
                                                               f"get_definitions = {sig}" if sig == want and not errs else f"get_definitions reads `{sig}` {errs[:1]}; expected `{want}`")
    # ModelAlias
    ff, flow = fn(ss, DEC, "DecFileParser._dict_raw_model_aliases")
    rets = [r for r in returns(ff) if isinstance(r.value, ast.DictComp)]
    if not rets:
        # the comprehension bound to a local that is returned as it is
        for r in returns(ff):
            if isinstance(r.value, ast.Name):
                ds = [d for d in flow.defs_of(r.value)]
                if len(ds) == 1 and ds[0].kind == "assign" and isinstance(ds[0].value, ast.DictComp) and isinstance(ds[0].stmt, ast.Assign):
                    rets = [ast.copy_location(ast.Return(value=ds[0].value), ds[0].stmt)]
    k = ckey(ff, None, "last-wins")
    from ..core.treetypes import TreeTyper
    tt = TreeTyper(gf)
    want_k, want_v = "model_alias/0:model_label/0:LABEL", "copy.deepcopy(model_alias/1:model)"

    def is_src(it):
        return isinstance(it, ast.Call) and txt(it.func) == "self._parsed_dec_file.find_data" \
            and it.args and isinstance(it.args[0], ast.Constant) and it.args[0].value == "model_alias"
    if rets:
        dc = rets[0].value
        g = dc.generators
        it = flow.expand(g[0].iter)
        ok = len(g) == 1 and not g[0].ifs and is_src(it)
        (ctx.holds if ok else ctx.violation)("C05.1", k, where(ff, rets[0]),
                                              "ModelAlias table: dict comprehension directly over find_data('model_alias') (last wins)" if ok
                                              else f"ModelAlias statements are filtered / reordered (`{txt(it)[:80]}`): the last definition no longer wins")
        env = {g[0].target.id: tt.tree("model_alias")} if isinstance(g[0].target, ast.Name) else {}
        kv, vv = tt.check(dc.key, env), tt.check(dc.value, env)
        site = rets[0]
    else:
        # loop-with-store idiom
        stores = [s_ for s_ in pf.iter_stmts(ff.node.body) if isinstance(s_, ast.Assign) and isinstance(s_.targets[0], ast.Subscript)]
        if len(stores) != 1:
            raise AnchorMissing("_dict_raw_model_aliases: neither a dict comprehension nor a single store loop")
        st = stores[0]
        lp = enclosing(ff, st, (ast.For,))
        conds = [c for c in guards.path_conditions(ff.node, st, stop_at=lp[0] if lp else None) if c[0] == "if"]
        ok = bool(lp) and is_src(flow.expand(lp[0].iter)) and not conds and not any(
            isinstance(c.func, ast.Attribute) and c.func.attr == "setdefault" for c in pf.calls_in(ff.node))
        (ctx.holds if ok else ctx.violation)("C05.1", k, where(ff, st),
                                              "ModelAlias table: unconditional store in document order (last wins)" if ok
                                              else f"ModelAlias table: the store is guarded (`{'; '.join(txt(c[1])[:60] for c in conds)}`) or statements are reordered: the FIRST definition of a name wins")
        env = {lp[0].target.id: tt.tree("model_alias")} if lp and isinstance(lp[0].target, ast.Name) else {}
        kv = tt.check(flow.expand(st.targets[0].slice, keep=set(env)), env)
        vv = tt.check(flow.expand(st.value, keep=set(env)), env)
        site = st
    okr = kv.sig() == want_k and vv.sig() == want_v and not tt.errors
    (ctx.holds if okr else ctx.violation)("C05.1", ckey(ff, None, "reads"), where(ff, site),
                                           f"alias name = {kv.sig()}, body = children of {vv.sig()}" if okr
                                           else f"ModelAlias table reads key `{kv.sig()}` value `{vv.sig()}` {tt.errors[:1]}; expected `{want_k}` / `{want_v}`")


def c05_2(ctx, ss, rule="C05.2"):
    from .c06 import ALIAS_VIEW, alias_lookups
    # ONE normal form: model() with the lookup helper written out in it
    v = ss.view(DEC, ALIAS_VIEW)
    mf_, mflow = fn(v, DEC, "DecayModelAliasReplacement.model")
    n_l = 0
    k = ckey(mf_, None, "alias-body-owned")
    bad = None
    for r in returns(mf_):
        val = mflow.expand(r.value)
        for look, anc in alias_lookups(val):
            n_l += 1
            copied = any(isinstance(a, ast.Call) and txt(a.func) in ("copy.deepcopy", "deepcopy") for a in anc)
            if not copied and bad is None:
                bad = (r, look)
    if not n_l:
        raise AnchorMissing("no read of the alias table found in DecayModelAliasReplacement.model")
    if bad is None:
        ctx.holds(rule, k, where(mf_, mf_.node), "each use of a model alias receives its own deep copy of the aliased model sub-tree", 2)
    else:
        ctx.violation(rule, k, where(mf_, bad[0]),
                      f"the transformer puts `{txt(bad[1])[:60]}` itself into the tree: every decay line using the alias shares ONE sub-tree "
                      "with the transformer's table; the parameter visitor then rewrites it once per use (float('…') of an already converted token → TypeError)")


def _ancestors(fnode, node):
    pm = pf.parent_map(fnode)
    x = node
    while id(x) in pm:
        x = pm[id(x)]
        yield x


def c05_3(ctx, ss):
    ff, flow = fn(ss, DEC, "DecayModelParamValueReplacement._replacement")
    p = ff.params[1]
    # (a) numeric children: child token value := float(child token value)
    stores = [s for s in pf.iter_stmts(ff.node.body) if isinstance(s, ast.Assign) and isinstance(s.targets[0], ast.Attribute)
              and s.targets[0].attr == "value"]
    num = [s for s in stores if "children" in txt(s.targets[0])]
    word = [s for s in stores if "children" not in txt(s.targets[0])]
    k = ckey(ff, None, "numeric")
    if len(num) == 1 and txt(num[0].value) == f"float({txt(num[0].targets[0])})" and txt(num[0].targets[0]) == f"{p}.children[0].value":
        ctx.holds("C05.3", k, where(ff, num[0]), "value child: token.value := float(token.value)", 2)
    else:
        ctx.violation("C05.3", k, where(ff, ff.node), "numeric parameters are not converted by float(<their own token value>)")
    if not word:
        ctx.violation("C05.3", ckey(ff, None, "word"), where(ff, ff.node), "no store for word parameters")
        return

    def neg_atom(neg):
        def atom(e):
            if isinstance(e, ast.Compare) and len(e.ops) == 1 and isinstance(e.ops[0], ast.Eq) and txt(e.left) == f"{p}.value[0]" \
                    and isinstance(e.comparators[0], ast.Constant) and e.comparators[0].value == "-":
                return neg
            if isinstance(e, ast.Call) and txt(e.func) == f"{p}.value.startswith" and e.args and isinstance(e.args[0], ast.Constant) and e.args[0].value == "-":
                return neg
            return None
        return atom
    # one case per spelling of the word (`name` / `-name`): the function specialised to the case must store exactly the
    # looked-up value (negated for `-name`) exactly when the name is defined -- whatever statement shape the source uses
    for neg, key, want in ((False, f"{p}.value", f"self.define_defs[{p}.value]"), (True, f"{p}.value[1:]", f"-self.define_defs[{p}.value[1:]]")):
        kk = ckey(ff, None, f"word:{'minus' if neg else 'plain'}")
        ff2, flow2 = case_of(ss, ff, flow, neg_atom(neg), "minus" if neg else "plain")
        ws = [s_ for s_ in pf.iter_stmts(ff2.node.body) if isinstance(s_, ast.Assign) and isinstance(s_.targets[0], ast.Attribute) and s_.targets[0].attr == "value"
              and "children" not in txt(s_.targets[0])]
        if len(ws) != 1:
            ctx.violation("C05.3", kk, where(ff, word[0]), f"for a word {'with' if neg else 'without'} leading minus the visitor has {len(ws)} stores; expected one")
            continue
        w = ws[0]
        conds = guards.path_conditions(ff2.node, w)
        # the word store must be in the AttributeError handler of the numeric attempt (token-or-tree idiom)
        if not any(kind == "exc" and e.type is not None and txt(e.type) == "AttributeError" for kind, e, pol in conds):
            ctx.violation("C05.3", ckey(ff, None, "word-branch"), where(ff, word[0]), "the word branch is not the AttributeError fallback of the numeric attempt")
        ifs = [(txt(flow2.expand(e)), pol) for kind, e, pol in conds if kind == "if"]
        sv = txt(flow2.expand(w.value))
        tgt_ok = txt(w.targets[0]) == f"{p}.value"
        if sv == want and ifs == [(f"{key} in self.define_defs", True)] and tgt_ok:
            ctx.holds("C05.3", kk, where(ff, word[0]), f"{'-name' if neg else 'name'}: value := {want} iff {key} is defined", 3)
        else:
            ctx.violation("C05.3", kk, where(ff, word[0]),
                          f"for a word {'with' if neg else 'without'} leading minus the visitor stores `{sv}` into `{txt(w.targets[0])}` under {[('' if pol else 'not ') + c for c, pol in ifs]}; "
                          f"expected `{want}` under ['{key} in self.define_defs']")
    # (d) every child of model_options is visited
    mo, moflow = fn(ss, DEC, "DecayModelParamValueReplacement.model_options")
    calls = [c for c in pf.calls_in(mo.node) if txt(c.func) == "self._replacement"]
    ok = False
    if len(calls) == 1:
        lps = enclosing(mo, calls[0], (ast.For,))
        if len(lps) == 1 and txt(lps[0].iter) == f"{mo.params[1]}.children" and isinstance(lps[0].target, ast.Name) \
                and txt(calls[0].args[0]) == lps[0].target.id \
                and not [c for c in guards.path_conditions(lps[0], stmt_of(mo, calls[0])) if c[0] == "if"] \
                and not any(isinstance(x, (ast.Break, ast.Continue, ast.Return)) for x in ast.walk(lps[0])):
            ok = True
    (ctx.holds if ok else ctx.violation)("C05.3", ckey(mo, None, "all-children"), where(mo, mo.node),
                                          "every child of model_options goes through _replacement" if ok else "not every parameter of a model is visited")
    # the table is the file's Define table
    pf_, pflow = fn(ss, DEC, "DecFileParser.parse")
    ctor = [c for c in pf.calls_in(pf_.node) if isinstance(c.func, ast.Name) and c.func.id == "DecayModelParamValueReplacement"]
    ok = bool(ctor) and all((c.keywords or c.args) and pflow.text(c.keywords[0].value if c.keywords else c.args[0]) == "self.dict_definitions()" for c in ctor)
    (ctx.holds if ok else ctx.violation)("C05.3", ckey(pf_, None, "define-table"), where(pf_, ctor[0] if ctor else pf_.node),
                                          "the visitor gets self.dict_definitions()" if ok else "the parameter visitor is not given the file's Define table")
    ctor = [c for c in pf.calls_in(pf_.node) if isinstance(c.func, ast.Name) and c.func.id == "DecayModelAliasReplacement"]
    ok = bool(ctor) and all((c.keywords or c.args) and pflow.text(c.keywords[0].value if c.keywords else c.args[0]) in
                            ("copy.deepcopy(self._dict_raw_model_aliases())", "self._dict_raw_model_aliases()") for c in ctor)
    (ctx.holds if ok else ctx.violation)("C05.3", ckey(pf_, None, "alias-table"), where(pf_, ctor[0] if ctor else pf_.node),
                                          "the alias transformer gets the file's ModelAlias table" if ok else "the alias transformer is not given the file's ModelAlias table")
