"""C06 — every supported model name is recognised as itself; unknown models are rejected (DESIGN.md §4 C06)."""
from __future__ import annotations

import ast
import re

from ..core import guards
from ..core import pyfacts as pf
from ..core.defuse import flow_of
from ..core.larkfacts import grammar_facts
from ..core.match import canon, phi_alts, txt
from ..core.source import AnchorMissing
from .common import DEC, DECGRAMMAR, ENUMS, ckey, fn, returns, stmt_of, where

PROP = "C06"
FILES = [DEC, DECGRAMMAR, ENUMS]
EXPLANATION = (
    "Premises of the lexing lemma (DESIGN.md C06): C06.1 the string injected into MODEL_NAME is "
    "(?:a1|…|an) with ai = re.escape(name), names = published ∪ registered (whole sequences), longest first, and it "
    "replaces exactly the grammar's placeholder of the MODEL_NAME terminal; C06.2 MODEL_NAME = placeholder + \\b with "
    "priority above LABEL; C06.3 the 135 published names are word-like, pairwise distinct and every proper-prefix pair "
    "continues with a word character; C06.4 the model rule offers MODEL_NAME [options] or a model_label; C06.5 an "
    "undefined model_label always ends in raise and every model_label goes through that lookup; C06.6 the names "
    "registered by the user are read when the terminal callback runs (no stale capture, no one-shot iterator); "
    "C06.7 registration keeps earlier names and stores all new ones.")
NOT_DECIDED = ["Lark's lexer semantics (trusted)", "user-registered names ending in '-' (assumption on user input)"]
G = DECGRAMMAR
GP = f"src/decaylanguage/{DECGRAMMAR}"
CB = "DecFileParser._generate_edit_terminals_callback"


def run(ctx, ss):
    for r, f in (("C06.1", c06_1), ("C06.2", c06_2), ("C06.3", c06_3), ("C06.4", c06_4), ("C06.5", c06_5),
                 ("C06.6", c06_6), ("C06.7", c06_7)):
        ctx.guard(r, f, ss)


def known_models(ss) -> tuple:
    tree = ss.tree(ENUMS)
    for st in tree.body:
        if (isinstance(st, ast.Assign) and any(isinstance(t, ast.Name) and t.id == "known_decay_models" for t in st.targets)) or \
                (isinstance(st, ast.AnnAssign) and isinstance(st.target, ast.Name) and st.target.id == "known_decay_models" and st.value is not None):
            try:
                v = ast.literal_eval(st.value)
            except Exception as e:
                raise AnchorMissing(f"known_decay_models is not a literal table: {e}")
            return tuple(v)
    raise AnchorMissing("known_decay_models not found")


def seq_parts(e: ast.AST) -> tuple[set[str], list[str]]:
    """Abstract evaluation of a sequence-building expression: (atoms included whole, problems)."""
    atoms: set[str] = set()
    problems: list[str] = []

    def go(x):
        if isinstance(x, ast.Call) and isinstance(x.func, ast.Name) and x.func.id == "__phi__":
            problems.append("phi")
            return
        if isinstance(x, ast.Call) and isinstance(x.func, ast.Name) and x.func.id in ("tuple", "list", "iter", "sorted") and len(x.args) == 1:
            return go(x.args[0])
        if isinstance(x, ast.Call) and txt(x.func) in ("chain.from_iterable", "itertools.chain.from_iterable") and len(x.args) == 1 \
                and isinstance(x.args[0], (ast.List, ast.Tuple)):
            for el in x.args[0].elts:
                go(el)
            return
        if isinstance(x, ast.Call) and txt(x.func) in ("chain", "itertools.chain"):
            for el in x.args:
                go(el.value if isinstance(el, ast.Starred) else el)
            return
        if isinstance(x, (ast.Tuple, ast.List)):
            for el in x.elts:
                if isinstance(el, ast.Starred):
                    go(el.value)
                else:
                    atoms.add("elem:" + txt(el))
            return
        if isinstance(x, ast.BinOp) and isinstance(x.op, ast.Add):
            go(x.left)
            go(x.right)
            return
        if isinstance(x, ast.IfExp):
            # `() if X is None else X` (either arm order): X, or nothing when there is no X yet
            arms = [(x.body, x.orelse), (x.orelse, x.body)]
            for empty_arm, other in arms:
                if isinstance(empty_arm, (ast.Tuple, ast.List)) and not empty_arm.elts:
                    atoms_ = guards.canon_cond(x.test, True)
                    if len(atoms_) == 1 and txt(atoms_[0][0]) in (f"{txt(other)} is None", txt(other)):
                        return go(other)
        if isinstance(x, ast.BoolOp) and isinstance(x.op, ast.Or) and len(x.values) == 2 and isinstance(x.values[1], (ast.Tuple, ast.List)) \
                and not x.values[1].elts:
            return go(x.values[0])          # `X or ()`
        if isinstance(x, ast.IfExp):
            # `A if cond else B`: both must be understood; atoms of either branch count only if in both
            a1, p1 = seq_parts(x.body)
            a2, p2 = seq_parts(x.orelse)
            problems.extend(p1 + p2)
            atoms.update(a1 & a2)
            for extra in (a1 ^ a2):
                atoms.add("maybe:" + extra)
            return
        if isinstance(x, (ast.Name, ast.Attribute)):
            atoms.add(txt(x))
            return
        if isinstance(x, ast.Subscript):
            problems.append(f"slice/index `{txt(x)[:60]}`")
            return
        if isinstance(x, (ast.ListComp, ast.GeneratorExp, ast.SetComp)):
            problems.append(f"comprehension `{txt(x)[:60]}`")
            return
        if isinstance(x, ast.Constant) and x.value in ((), None):
            return
        problems.append(f"`{txt(x)[:60]}`")
    go(e)
    return atoms, problems


def c06_1(ctx, ss):
    ff, flow = fn(ss, DEC, f"{CB}.edit_model_name_terminals")
    ctx.count("functions")
    gf = grammar_facts(ss, G)
    # the replace call
    reps = [c for c in pf.calls_in(ff.node) if isinstance(c.func, ast.Attribute) and c.func.attr == "replace" and len(c.args) == 2]
    if not reps:
        # nothing writes the model alternation into the terminal: the grammar keeps its placeholder text
        writes = [n for n in pf.walk_no_nested(ff.node) if isinstance(n, (ast.Assign, ast.AugAssign)) and "pattern" in txt(n.targets[0] if isinstance(n, ast.Assign) else n.target)]
        if not writes:
            ctx.violation("C06.1", ckey(ff, None, "inject"), where(ff, ff.node), "the callback never writes the model alternation into the MODEL_NAME pattern: no model name is recognised")
            return
    if len(reps) != 1:
        raise AnchorMissing("edit_model_name_terminals: expected one .replace(placeholder, alternation)")
    rep = reps[0]
    st = stmt_of(ff, rep)
    k = ckey(ff, None, "inject")
    # placeholder agrees with the grammar
    ph = rep.args[0].value if isinstance(rep.args[0], ast.Constant) else None
    gpat = gf.term_regex("MODEL_NAME")
    if ph is None or ph not in gpat:
        ctx.violation("C06.1", k + " :: placeholder", where(ff, rep), f"replaces {ph!r}, which does not occur in the grammar's MODEL_NAME pattern {gpat!r}: no model name is ever injected")
    else:
        ctx.holds("C06.1", k + " :: placeholder", where(ff, rep), f"placeholder {ph!r} is the one in the MODEL_NAME terminal", 2)
    # target and guard
    tgt_ok = isinstance(st, ast.Assign) and txt(st.targets[0]) == "t.pattern.value" and txt(rep.func.value) == "t.pattern.value"
    conds = [c for c in guards.path_conditions(ff.node, st) if c[0] == "if"]
    guard_ok = len(conds) == 1 and conds[0][2] and txt(conds[0][1]) in ("t.name == 'MODEL_NAME'", "'MODEL_NAME' == t.name")
    if tgt_ok and guard_ok:
        ctx.holds("C06.1", k + " :: target", where(ff, st), "t.pattern.value is rewritten exactly for the terminal named MODEL_NAME", 2)
    else:
        ctx.violation("C06.1", k + " :: target", where(ff, st), "the injected pattern is not stored into t.pattern.value of exactly the MODEL_NAME terminal")
    # shape of the alternation
    alt = flow.expand(rep.args[1])
    shape_ok, why, names_expr = False, "", None
    if isinstance(alt, ast.JoinedStr):
        parts = alt.values
        consts = [p.value for p in parts if isinstance(p, ast.Constant)]
        fvs = [p for p in parts if isinstance(p, ast.FormattedValue)]
        if "".join(consts) == "(?:)" and len(fvs) == 1 and isinstance(parts[0], ast.Constant) and parts[0].value == "(?:" \
                and isinstance(parts[-1], ast.Constant) and parts[-1].value == ")":
            j = fvs[0].value
            if isinstance(j, ast.Call) and isinstance(j.func, ast.Attribute) and j.func.attr == "join" and isinstance(j.func.value, ast.Constant) \
                    and j.func.value.value == "|" and len(j.args) == 1:
                gen = j.args[0]
                if isinstance(gen, (ast.GeneratorExp, ast.ListComp)) and len(gen.generators) == 1 and not gen.generators[0].ifs:
                    elt = gen.elt
                    tgt = gen.generators[0].target
                    a0 = elt.args[0] if isinstance(elt, ast.Call) and len(elt.args) == 1 else None
                    binder_ok = a0 is not None and (
                        (isinstance(a0, ast.Name) and isinstance(tgt, ast.Name) and a0.id == tgt.id) or
                        (isinstance(a0, ast.Call) and txt(a0.func) == "__elem__" and txt(a0.args[0]) == txt(gen.generators[0].iter)))
                    if isinstance(elt, ast.Call) and txt(elt.func) == "re.escape" and binder_ok and not elt.keywords:
                        it = gen.generators[0].iter
                        # sorted(D, key=len, reverse=True)
                        if isinstance(it, ast.Call) and isinstance(it.func, ast.Name) and it.func.id == "sorted" and len(it.args) == 1:
                            kw = {q.arg: q.value for q in it.keywords}
                            keyt = txt(kw["key"]) if "key" in kw else None
                            rev = kw.get("reverse")
                            longest_first = (keyt == "len" and isinstance(rev, ast.Constant) and rev.value is True) or \
                                            (keyt == canon("lambda x: -len(x)") and rev is None)
                            if longest_first:
                                shape_ok, names_expr = True, it.args[0]
                            else:
                                why = f"alternatives are not ordered longest first (`{txt(it)[:80]}`)"
                        else:
                            why = f"alternatives are not sorted by length (`{txt(it)[:80]}`)"
                    else:
                        why = f"an alternative is `{txt(elt)[:60]}`, not re.escape(name)"
                else:
                    why = "the joined sequence is filtered or not a single comprehension"
            else:
                why = "alternatives are not joined with '|'"
        else:
            why = f"the alternation is not wrapped as (?:…): constants {consts}"
    else:
        why = f"injected value `{txt(alt)[:100]}` is not an f-string alternation"
    if shape_ok:
        ctx.holds("C06.1", k + " :: shape", where(ff, rep), "alternation = (?: '|'.join(re.escape(n) for n in sorted(names, longest first)) )", 6)
    else:
        ctx.violation("C06.1", k + " :: shape", where(ff, rep), f"injected MODEL_NAME alternation: {why}")
        return
    # names = published ∪ registered on every branch
    alts_ = phi_alts(names_expr)
    ok_all = True
    for a in alts_:
        atoms, problems = seq_parts(a)
        has_known = "known_decay_models" in atoms
        reg = "self._additional_decay_models" in atoms
        if problems:
            ctx.violation("C06.1", k + " :: names", where(ff, rep), f"the name list `{txt(a)[:100]}` contains {problems[0]}: some published or registered names are dropped")
            ok_all = False
        elif not has_known:
            ctx.violation("C06.1", k + " :: names", where(ff, rep), f"the name list `{txt(a)[:100]}` does not contain all of known_decay_models")
            ok_all = False
        elif not reg and len(alts_) == 1:
            ctx.violation("C06.1", k + " :: names", where(ff, rep), f"the name list `{txt(a)[:100]}` never contains the names registered by the user")
            ok_all = False
    if ok_all:
        if len(alts_) > 1 and not any("self._additional_decay_models" in seq_parts(a)[0] for a in alts_):
            ctx.violation("C06.1", k + " :: names", where(ff, rep), "no branch of the name list contains the names registered by the user")
        else:
            ctx.holds("C06.1", k + " :: names", where(ff, rep), "name list ⊇ known_decay_models on every branch and ⊇ registered names when there are any", len(alts_) + 1)


def c06_2(ctx, ss):
    gf = grammar_facts(ss, G)
    t = gf.terminals.get("MODEL_NAME")
    lab = gf.terminals.get("LABEL")
    if t is None or lab is None:
        raise AnchorMissing("MODEL_NAME / LABEL terminal not found")
    pat = t.pattern.to_regexp()
    m = re.fullmatch(r"([A-Za-z_]+)\\b", pat)
    if m:
        ctx.holds("C06.2", f"{G}:MODEL_NAME:boundary", GP, f"MODEL_NAME = <{m.group(1)}> followed by a word boundary", 2)
    else:
        ctx.violation("C06.2", f"{G}:MODEL_NAME:boundary", GP, f"MODEL_NAME pattern {pat!r} is not `placeholder\\b`: a label that extends a model name would be split")
    others = [(n, x.priority) for n, x in gf.terminals.items() if n not in ("MODEL_NAME",) and x.priority >= t.priority]
    if t.priority > lab.priority and not others:
        ctx.holds("C06.2", f"{G}:MODEL_NAME:priority", GP, f"priority {t.priority} above LABEL ({lab.priority}) and every other terminal", len(gf.terminals))
    else:
        ctx.violation("C06.2", f"{G}:MODEL_NAME:priority", GP, f"MODEL_NAME (priority {t.priority}) is not scanned before {others[:3] or 'LABEL'}: model words lex as labels")


def c06_3(ctx, ss):
    names = known_models(ss)
    W = f"src/decaylanguage/{ENUMS}"
    ctx.count("model_names", len(names))
    ctx.floor("C06.3", "published model names", len(names), 135)
    bad = [n for n in names if not re.fullmatch(r"\w[\w-]*\w", n)]
    if bad:
        ctx.violation("C06.3", f"{ENUMS}:names:wordlike", W, f"published name(s) {bad[:3]} do not start and end with a word character (the \\b after the alternation cannot match as intended)", len(names))
    else:
        ctx.holds("C06.3", f"{ENUMS}:names:wordlike", W, f"all {len(names)} names match \\w[\\w-]*\\w", len(names))
    dup = sorted({n for n in names if names.count(n) > 1})
    if dup:
        ctx.violation("C06.3", f"{ENUMS}:names:distinct", W, f"duplicated name(s) {dup[:3]}", len(names))
    else:
        ctx.holds("C06.3", f"{ENUMS}:names:distinct", W, "names are pairwise distinct", len(names))
    pairs = [(a, b) for a in names for b in names if a != b and b.startswith(a)]
    badp = [(a, b) for a, b in pairs if not re.match(r"\w", b[len(a)])]
    ctx.count("prefix_pairs", len(pairs))
    if badp:
        a, b = badp[0]
        ctx.violation("C06.3", f"{ENUMS}:names:prefix", W, f"{a!r} is a prefix of {b!r} followed by the non-word character {b[len(a)]!r}: "
                      f"a label such as {b + 'x'!r} lexes as model {a!r}", len(pairs))
    else:
        ctx.holds("C06.3", f"{ENUMS}:names:prefix", W, f"all {len(pairs)} proper-prefix pairs continue with a word character", max(1, len(pairs)))


def c06_4(ctx, ss):
    gf = grammar_facts(ss, G)
    words = set(gf.word_strs("model"))
    need = {"K:MODEL_NAME", "K:MODEL_NAME T:model_options", "T:model_label"}
    if need <= words and words <= need:
        ctx.holds("C06.4", f"{G}:model", GP, "model = MODEL_NAME [model_options] | model_label", len(words))
    else:
        ctx.violation("C06.4", f"{G}:model", GP, f"model can have children {sorted(words)}; expected exactly {sorted(need)}")
    # a decay line has exactly one model
    dl = gf.word_strs("decayline")
    if all(w.split().count("T:model") == 1 for w in dl):
        ctx.holds("C06.4", f"{G}:decayline:one-model", GP, "every decay line has exactly one model node", len(dl))
    else:
        ctx.violation("C06.4", f"{G}:decayline:one-model", GP, "a decay line can have no model or several")


ALIAS_VIEW = ("DecayModelAliasReplacement._replacement",)


def alias_lookups(e: ast.AST):
    """[(lookup node, [ancestors inside e])] for every read of one entry of the alias table in expression `e`"""
    pm = {}
    for n in ast.walk(e):
        for c in ast.iter_child_nodes(n):
            pm[id(c)] = n
    out = []
    for n in ast.walk(e):
        is_l = (isinstance(n, ast.Subscript) and txt(n.value) == "self.define_defs") or \
            (isinstance(n, ast.Call) and isinstance(n.func, ast.Attribute) and n.func.attr in ("get", "pop", "setdefault") and txt(n.func.value) == "self.define_defs")
        if is_l:
            anc = []
            x = n
            while id(x) in pm:
                x = pm[id(x)]
                anc.append(x)
            out.append((n, anc))
    return out


def c06_5(ctx, ss):
    # ONE normal form: model() with the lookup helper written out in it (a helper method, or the same code inline, are the same)
    v = ss.view(DEC, ALIAS_VIEW)
    mf_, mflow = fn(v, DEC, "DecayModelAliasReplacement.model")
    arg = mf_.params[1]
    tok = f"{arg}[0].children[0]"
    rets = returns(mf_)
    if not rets:
        raise AnchorMissing("model() has no return")

    def atom_missing(e):
        e2 = mflow.expand(e)
        if isinstance(e2, ast.Compare) and len(e2.ops) == 1 and isinstance(e2.ops[0], (ast.In, ast.NotIn)) \
                and txt(e2.comparators[0]) == "self.define_defs" and txt(e2.left) in (f"{tok}.value", f"str({tok})", tok):
            return isinstance(e2.ops[0], ast.NotIn)
        return None

    def tree_branch(r):
        return any(kind == "if" and pol and txt(mflow.expand(e)).replace(" ", "") == f"isinstance({arg}[0],Tree)" for kind, e, pol in guards.path_conditions(mf_.node, r))
    ok = True
    label_rets = [r for r in rets if tree_branch(r)]
    for r in label_rets:
        conds = guards.path_conditions(mf_.node, r)
        reach = guards.reachable_under([c for c in conds if c[0] in ("if", "while")], atom_missing, mflow)
        in_handler = any(c[0] == "exc" for c in conds)
        if reach is not False or in_handler:
            ok = False
            ctx.violation("C06.5", ckey(mf_, r, "undefined"), where(mf_, r), f"an undefined model label can reach `{txt(r)[:80]}`: the line is accepted with some other model instead of failing")
    # fall-through
    falls = mflow.cfg.reachable(mflow.cfg.entry, mflow.cfg.exit, avoid={mflow.cfg.node_of(r) for r in rets}, skip_labels=("exc", "raise", "assertfail"))
    if falls:
        ok = False
        ctx.violation("C06.5", ckey(mf_, None, "fallthrough"), where(mf_, mf_.node), "the alias lookup can finish without returning or raising")
    raises = [n for n in pf.walk_no_nested(mf_.node) if isinstance(n, ast.Raise)]
    if not raises:
        ok = False
        ctx.violation("C06.5", ckey(mf_, None, "no-raise"), where(mf_, mf_.node), "the alias lookup never raises")
    if ok:
        ctx.holds("C06.5", ckey(mf_, None, "must-raise"), where(mf_, raises[0]), "with the label absent from the alias table every path ends in raise", len(rets) + len(raises))
    # the lookup table is the constructor argument
    cf, cflow = fn(ss, DEC, "DecayModelAliasReplacement.__init__")
    st = [s for s in pf.iter_stmts(cf.node.body) if isinstance(s, ast.Assign) and txt(s.targets[0]) == "self.define_defs"]
    if len(st) == 1 and txt(cflow.expand(st[0].value)) in ("model_alias_defs or {}", "model_alias_defs", "dict(model_alias_defs or {})"):
        ctx.holds("C06.5", ckey(cf, None, "table"), where(cf, st[0]), "the lookup table is the constructor argument", 1)
    else:
        ctx.violation("C06.5", ckey(cf, None, "table"), where(cf, cf.node), "the alias lookup table is not the table passed by parse()")
    # model(): every model_label child is replaced by the table entry of ITS token
    routed = False
    for r in rets:
        val = mflow.expand(r.value)
        if tree_branch(r):
            ls = alias_lookups(val)
            keys = [txt(n.slice) if isinstance(n, ast.Subscript) else (txt(n.args[0]) if n.args else "") for n, _ in ls]
            shape = isinstance(val, ast.Call) and txt(val.func) == "Tree" and len(val.args) == 2 and txt(val.args[0]) == "'model'"
            if shape and len(ls) == 1 and keys[0] in (f"{tok}.value", f"str({tok})", tok) and any(a is val.args[1] for a in [ls[0][0]] + ls[0][1]):
                routed = True
                ctx.holds("C06.5", ckey(mf_, r), where(mf_, r), "a model_label child is replaced by the alias-table entry of its own token", 2)
            else:
                ctx.violation("C06.5", ckey(mf_, r), where(mf_, r), f"a model_label child is not looked up: returns `{txt(val)[:100]}`")
        else:
            if alias_lookups(val):
                continue
            # non-label branch must keep the children unchanged
            if not (isinstance(val, ast.Call) and txt(val.func) == "Tree" and len(val.args) == 2 and txt(val.args[1]) == arg):
                ctx.violation("C06.5", ckey(mf_, r), where(mf_, r), f"a MODEL_NAME-headed model is rewritten: `{txt(val)[:100]}`")
    if not routed:
        ctx.violation("C06.5", ckey(mf_, None, "routing"), where(mf_, mf_.node), "no branch of model() routes a model_label through the alias lookup")


def c06_6(ctx, ss):
    """Stale capture: the registered names must be read when the callback RUNS, or every
    writer of the names must invalidate the cached grammar info; and what is stored
    must be re-iterable."""
    outer, oflow = fn(ss, DEC, CB)
    inner, iflow = fn(ss, DEC, f"{CB}.edit_model_name_terminals")

    def reads(node):
        return [a for a in pf.walk_no_nested(node) if isinstance(a, ast.Attribute) and a.attr == "_additional_decay_models"
                and isinstance(a.ctx, ast.Load)]
    inner_reads = reads(inner.node)
    outer_reads = [a for a in reads(outer.node)]
    outer_only = [a for a in outer_reads if not any(a is b for b in inner_reads)]
    # writers
    mf = pf.module_facts(ss, DEC)
    writers = []
    for q, f_ in mf.funcs.items():
        for n in pf.walk_no_nested(f_.node):
            if isinstance(n, (ast.Assign, ast.AnnAssign, ast.AugAssign)):
                ts = n.targets if isinstance(n, ast.Assign) else [n.target]
                if any(isinstance(t, ast.Attribute) and t.attr == "_additional_decay_models" for t in ts):
                    writers.append((f_, n))
    k = ckey(outer, None, "stale-capture")
    if inner_reads and not outer_only:
        ctx.holds("C06.6", k, where(inner, inner_reads[0]), "registered names are read inside the terminal callback, i.e. each time a parser is built", len(inner_reads))
    else:
        # capture at creation: acceptable only if every later writer invalidates the cache
        bad = []
        for f_, n in writers:
            if f_.qualname == "DecFileParser.__init__":
                continue
            inval = [s for s in pf.iter_stmts(f_.node.body) if isinstance(s, ast.Assign) and
                     any(txt(t) in ("self._grammar", "self._grammar_info") for t in s.targets)] or \
                    [c for c in pf.calls_in(f_.node) if txt(c.func) == "self._load_grammar"]
            if not inval:
                bad.append(f_)
        if bad:
            ctx.violation("C06.6", k, where(outer, outer.node),
                          f"the model-name callback captures self._additional_decay_models when the grammar is first loaded, and "
                          f"{bad[0].qualname} changes the names without invalidating the cached grammar info: names registered after "
                          "grammar()/grammar_info()/a first parse() are ignored")
        else:
            ctx.holds("C06.6", k, where(outer, outer.node), "every writer of the registered names invalidates the cached grammar info", len(writers))
    # the callback runs when a Lark parser is BUILT: parse() must build one every time, or every writer of the names must
    # drop the parser that is kept
    pfn, pflow = fn(ss, DEC, "DecFileParser.parse")
    builds = [c for c in pf.calls_in(pfn.node) if txt(c.func) in ("Lark", "lark.Lark") and any(kw.arg == "edit_terminals" for kw in c.keywords)]
    kb = ckey(pfn, None, "parser-built-per-parse")
    if not builds:
        ctx.violation("C06.6", kb, where(pfn, pfn.node), "parse() builds no Lark parser with the model-name callback: registered names are never injected")
    else:
        st_b = stmt_of(pfn, builds[0])
        if pflow.cfg.must_pass({pflow.cfg.node_of(st_b)}):
            ctx.holds("C06.6", kb, where(pfn, builds[0]), "every parse() builds its parser, so the callback sees the names registered so far", 1)
        else:
            conds = [e for kind, e, pol in guards.path_conditions(pfn.node, st_b) if kind == "if"]
            kept = {a.attr for e in conds for a in ast.walk(e) if isinstance(a, ast.Attribute) and isinstance(a.value, ast.Name) and a.value.id == "self"}
            bad = []
            for f_, n in writers:
                if f_.qualname == "DecFileParser.__init__":
                    continue
                resets = {t.attr for s_ in pf.iter_stmts(f_.node.body) if isinstance(s_, ast.Assign) for t in s_.targets
                          if isinstance(t, ast.Attribute) and isinstance(t.value, ast.Name) and t.value.id == "self"}
                if not kept or not kept <= resets:
                    bad.append(f_)
            if bad:
                ctx.violation("C06.6", kb, where(pfn, builds[0]),
                              f"parse() keeps its Lark parser ({sorted(kept) or 'conditionally built'}) and {bad[0].qualname} changes the registered names without dropping it: "
                              "names registered after a first parse() are rejected by the next one")
            else:
                ctx.holds("C06.6", kb, where(pfn, builds[0]), "the kept parser is dropped by every writer of the registered names", len(writers))
    # re-iterable storage
    for f_, n in writers:
        fl = flow_of(ss, f_)
        v = n.value
        if v is None or (isinstance(v, ast.Constant) and v.value is None):
            continue
        t = txt(v)
        kk = ckey(f_, None, "reiterable:" + ("concat" if "self._additional_decay_models" in t else "first"))
        one_shot = isinstance(v, ast.Call) and (txt(v.func) in ("chain", "chain.from_iterable", "itertools.chain", "itertools.chain.from_iterable", "iter", "map", "filter", "zip")) \
            or isinstance(v, ast.GeneratorExp)
        if one_shot:
            ctx.violation("C06.6", kk, where(f_, n), f"the registered names are stored as a one-shot iterator (`{t[:80]}`): they are exhausted by the first use and gone afterwards")
        else:
            ctx.holds("C06.6", kk, where(f_, n), f"stored value `{t[:60]}` is re-iterable", 1)
    ctx.floor("C06.6", "writers of _additional_decay_models", len(writers), 2)


def c06_7(ctx, ss):
    ff, flow = fn(ss, DEC, "DecFileParser.load_additional_decay_models")
    stores = [s for s in pf.iter_stmts(ff.node.body) if isinstance(s, ast.Assign) and txt(s.targets[0]) == "self._additional_decay_models"]
    if not stores:
        raise AnchorMissing("load_additional_decay_models stores nothing")
    seen_first, seen_more = [], []
    def alternatives(v, extra):
        """`A if c else B` stored == store A under c, store B under not c"""
        if isinstance(v, ast.IfExp):
            return alternatives(v.body, extra + [("if", v.test, True)]) + alternatives(v.orelse, extra + [("if", v.test, False)])
        return [(v, extra)]
    work = []
    for s0 in stores:
        base = [c for c in guards.path_conditions(ff.node, s0) if c[0] == "if"]
        alts = alternatives(flow.expand(s0.value), [])               # (expanded: the earlier names may be read into a local first)
        if len(alts) > 1 and all(len(seq_parts(a)[0]) > 0 for a, _ in alts):
            work += [(s0, a, base + ex) for a, ex in alts]
        else:
            work.append((s0, flow.expand(s0.value), base))
    for s, val, conds in work:
        atoms, problems = seq_parts(val)
        def none_pol(e, pol):
            """polarity under which `e` says 'nothing registered yet' (None when e is not such a test)"""
            while isinstance(e, ast.UnaryOp) and isinstance(e.op, ast.Not):
                e, pol = e.operand, not pol
            if isinstance(e, ast.Compare) and len(e.ops) == 1 and txt(e.left) == "self._additional_decay_models" and txt(e.comparators[0]) == "None":
                if isinstance(e.ops[0], (ast.Is, ast.Eq)):
                    return pol
                if isinstance(e.ops[0], (ast.IsNot, ast.NotEq)):
                    return not pol
            if txt(e) == "self._additional_decay_models":
                return not pol
            return None
        pols = [none_pol(e, pol) for _, e, pol in conds]
        if any(x is None for x in pols):
            ctx.undecided("C06.7", ckey(ff, None, "guard"), where(ff, s), f"registration is guarded by a test not understood: {[txt(e) for _, e, _ in conds]}")
            continue
        first = bool(pols) and all(pols)
        if not pols:
            seen_first.append(s); seen_more.append(s)       # unconditional store serves both cases
        else:
            (seen_first if first else seen_more).append(s)
        k = ckey(ff, None, "first" if first else "more")
        if problems:
            ctx.violation("C06.7", k, where(ff, s), f"registration stores `{txt(s.value)[:80]}` ({problems[0]}): some names are dropped")
        elif "models" not in atoms:
            ctx.violation("C06.7", k, where(ff, s), f"registration stores `{txt(s.value)[:80]}`, which does not contain all the given names")
        elif not first and "self._additional_decay_models" not in atoms:
            ctx.violation("C06.7", k, where(ff, s), "a second registration forgets the names registered earlier")
        else:
            ctx.holds("C06.7", k, where(ff, s), "all given names are stored" + ("" if first else " after the earlier ones"), 1)
    for case, lst in (("the first registration", seen_first), ("a registration after an earlier one", seen_more)):
        kk = ckey(ff, None, "stores:" + ("first" if lst is seen_first else "more"))
        if lst:
            ctx.holds("C06.7", kk, where(ff, lst[0]), f"{case} stores the names", 1)
        else:
            ctx.violation("C06.7", kk, where(ff, ff.node), f"{case} stores nothing: the names given in that call are lost")

