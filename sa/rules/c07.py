"""C07 — global declarations are reported completely, later ones winning (DESIGN.md §4 C07)."""
from __future__ import annotations

import ast

from ..core import guards
from ..core import pyfacts as pf
from ..core.callgraph import callgraph
from ..core.larkfacts import grammar_facts
from ..core.match import phi_alts, txt
from ..core.source import AnchorMissing
from .common import single_def, DEC, DECGRAMMAR, accessor_sig, ckey, enclosing, fn, returns, stmt_of, where

PROP = "C07"
FILES = [DEC, DECGRAMMAR]
EXPLANATION = (
    "C07.1 every statement kind of the grammar's `line` rule is read by a find_data literal reachable from a public "
    "DecFileParser query (exhaustiveness over the call graph); C07.2 every find_data literal names a tree of the "
    "grammar; C07.3/4 each statement accessor is type-checked against every child word of its rule and its flow "
    "signature (which child, which conversion, key vs value) equals the reviewed table; C07.5 write mode: document-"
    "order overwrite for dict queries, last flag for PHOTOS and `no` when absent, lineshape loops raise exactly on a "
    "repeated key; C07.6 conversion chains int→float→identity and float→identity; C07.7 default width is the aliased "
    "particle's width divided by GeV; C07.8 each public query returns its accessor applied to self._parsed_dec_file.")
NOT_DECIDED = ["numeric value of the reference width (particle data)", "Lark's document order of find_data (trusted)"]
G = DECGRAMMAR


def run(ctx, ss):
    from .common import keyword_vocabulary
    ctx.guard("C07.1", keyword_vocabulary, ss, "C07.1", ('define', 'alias', 'chargeconj', 'particle_def', 'jetset_def', 'pythia_def', 'setlsbw', 'setlspw', 'yes', 'no'), ('LABEL_PYTHIA8_COMMANDS', 'LABEL_LINESHAPE', 'LABEL_INCLUDE_FACTOR', 'BOOLEAN_INCLUDE_FACTOR', 'LABEL_CHANGE_MASS'))
    for r, f in (("C07.1", c07_1), ("C07.2", c07_2), ("C07.4", c07_4), ("C07.5", c07_5),
                 ("C07.6", c07_6), ("C07.7", c07_7), ("C07.8", c07_8)):
        ctx.guard(r, f, ss)
    # C07.9 'statements anywhere in the text are each reflected': the text is assembled completely from the files given
    # (C02.6-C02.8) and nothing on the reading path remembers an earlier input (shared.py)
    from .shared import reading_path
    ctx.guard("C07.9", reading_path, ss, "C07.9", [f"DecFileParser.{m}" for m in WRAPPERS], "a global declaration")


def _find_data_literals(node):
    out = []
    for c in pf.calls_in(node):
        if isinstance(c.func, ast.Attribute) and c.func.attr == "find_data" and c.args and isinstance(c.args[0], ast.Constant):
            out.append((c, c.args[0].value))
    return out


def c07_1(ctx, ss):
    gf = grammar_facts(ss, G)
    kinds = gf.line_alternatives()
    cg = callgraph(ss)
    mf = pf.module_facts(ss, DEC)
    cf = mf.classes.get("DecFileParser")
    if cf is None:
        raise AnchorMissing("class DecFileParser not found")
    public = [m for n, m in cf.methods.items() if not n.startswith("_")]
    reach = cg.reach([m.key for m in public])
    lits = set()
    for k in reach:
        for _, lit in _find_data_literals(cg.funcs[k].node):
            lits.add(lit)
    ctx.count("call_graph_functions", len(reach))
    ctx.count("public_queries", len(public))
    for kind in sorted(kinds):
        k = f"{G}:line:{kind}"
        if kind in lits:
            ctx.holds("C07.1", k, f"src/decaylanguage/{G}", f"statement kind `{kind}` is read by a public query", 1)
        else:
            ctx.violation("C07.1", k, f"src/decaylanguage/{G}", f"statement kind `{kind}` of the grammar is reported by no public DecFileParser query (statement not accounted for)")
    ctx.floor("C07.1", "statement kinds", len(kinds), 16)


def c07_2(ctx, ss):
    gf = grammar_facts(ss, G)
    mf = pf.module_facts(ss, DEC)
    n = 0
    for q, ff in mf.funcs.items():
        if ff.parent_func:
            continue
        for c, lit in _find_data_literals(ff.node):
            n += 1
            if lit in gf.tree_names:
                ctx.holds("C07.2", ckey(ff, c), where(ff, c), f"find_data('{lit}') names a tree of the grammar", 1)
            else:
                ctx.violation("C07.2", ckey(ff, c), where(ff, c), f"find_data('{lit}') names no tree of {G}: the query silently reports nothing")
    ctx.count("find_data_sites", n)
    ctx.floor("C07.2", "find_data literal sites", n, 22)


SPEC4 = {
    "get_charge_conjugate_decays": "sorted[start//cdecay/0:LABEL]",
    "get_decays2copy_statements": "{start//copydecay/0:label/0:LABEL: start//copydecay/1:label/0:LABEL}",
    "get_definitions": "{start//define/0:LABEL: float(start//define/1:SIGNED_NUMBER)}",
    "get_aliases": "{start//alias/0:LABEL: start//alias/1:LABEL}",
    "get_charge_conjugate_defs": "{start//chargeconj/0:LABEL: start//chargeconj/1:LABEL}",
    "get_model_aliases": "{start//model_alias//tokens: [1:][start//model_alias//tokens@[1:]]}",     # first token = alias name, the others = model + options
    "get_particle_property_definitions":
        "{start//particle_def/0:LABEL: {('mass' | 'width'): ((Particle.from_evtgen_name((start//particle_def/0:LABEL | "
        "{start//alias/0:LABEL: start//alias/1:LABEL}.get(start//particle_def/0:LABEL, start//particle_def/0:LABEL))).width Div GeV) | "
        "float(start//particle_def/1:SIGNED_NUMBER) | float(start//particle_def/2:SIGNED_NUMBER))}}",
    "get_pythia_definitions":
        "{start//pythia_def/0:LABEL_PYTHIA8_COMMANDS: {f\"{start//pythia_def/1:LABEL}:{start//pythia_def/2:LABEL}\": "
        "(float(start//pythia_def/3:LABEL) | float(start//pythia_def/3:SIGNED_NUMBER) | start//pythia_def/3:LABEL | start//pythia_def/3:SIGNED_NUMBER)}}",
    "get_lineshape_settings":
        "{(start//changemasslimit/1:LABEL | start//inc_factor/1:LABEL | start//ls_def/1:LABEL | start//setlsbw/0:LABEL): "
        "{('BlattWeisskopf' | 'lineshape' | f\"{start//changemasslimit/0:LABEL_CHANGE_MASS}\" | f\"{start//inc_factor/0:LABEL_INCLUDE_FACTOR}\"): "
        "(False | True | float(start//changemasslimit/2:SIGNED_NUMBER) | float(start//setlsbw/1:SIGNED_NUMBER) | start//ls_def/0:LABEL_LINESHAPE)}}",
    "get_lineshapePW_definitions": "[([start//setlspw/[:-1]:LABEL], int(start//setlspw/3:INT))]",
    "get_global_photos_flag": "(PhotosEnum.no | PhotosEnum.yes)",
}
JETSET = ("{re.compile(…).match(start//jetset_def/0:LABEL).groupdict()['pname']: "
          "{int(re.compile(…).match(start//jetset_def/0:LABEL).groupdict()['pnumber']): "
          "(float(start//jetset_def/1:SIGNED_NUMBER) | int(start//jetset_def/1:SIGNED_NUMBER) | start//jetset_def/1:SIGNED_NUMBER)}}")


def c07_4(ctx, ss):
    gf = grammar_facts(ss, G)
    spec = dict(SPEC4)
    spec["get_jetset_definitions"] = JETSET
    for q, want in spec.items():
        sig, errs, unk, tt = accessor_sig(ss, gf, DEC, q, "parsed_file", "start")
        ff = pf.func(ss, DEC, q)
        k = f"{DEC}:{q}"
        if errs:
            ctx.violation("C07.3", k + " :: type", where(ff, ff.node), f"{q}: {errs[0]}", len(tt.find_data_literals) + 1)
            continue
        ctx.holds("C07.3", k + " :: type", where(ff, ff.node), f"{q}: every index / attribute is valid on every child word of its rule", len(tt.find_data_literals) + 1)
        # `aliases.get(n, n) if aliases else n` and `aliases.get(n, n)` are the same lookup (an empty table returns the default)
        n_ = "start//particle_def/0:LABEL"
        al_ = "{start//alias/0:LABEL: start//alias/1:LABEL}"
        same = sig == want or sig.replace(f"Particle.from_evtgen_name({al_}.get({n_}, {n_}))", f"Particle.from_evtgen_name(({n_} | {al_}.get({n_}, {n_})))") == want
        if same:
            ctx.holds("C07.4", k, where(ff, ff.node), f"{q} = {sig[:160]}", 2)
        elif unk:
            ctx.undecided("C07.4", k, where(ff, ff.node), f"{q}: flow signature not understood: {unk[:2]} :: {sig[:160]}")
        else:
            ctx.violation("C07.4", k, where(ff, ff.node), f"{q} reports `{sig}`; the reviewed reading of the statement is `{want}`", 2)
    ctx.count("accessors", len(spec))


DICT_COMP = ["get_decays2copy_statements", "get_definitions", "get_aliases", "get_charge_conjugate_defs", "get_particle_property_definitions"]
BUILDER_OVERWRITE = ["get_pythia_definitions", "get_jetset_definitions"]
LS_LOOPS = ["ls_def", "setlsbw", "changemasslimit", "inc_factor"]


def _direct_find_data(it: ast.AST, lit: str | None = None) -> bool:
    return isinstance(it, ast.Call) and isinstance(it.func, ast.Attribute) and it.func.attr == "find_data" \
        and isinstance(it.func.value, ast.Name) and it.func.value.id == "parsed_file" \
        and (lit is None or (it.args and isinstance(it.args[0], ast.Constant) and it.args[0].value == lit))


def c07_5(ctx, ss):
    # (a) dict comprehensions directly over find_data: later statement overwrites earlier
    for q in DICT_COMP:
        ff, flow = fn(ss, DEC, q)
        comps = [n for n in pf.walk_no_nested(ff.node) if isinstance(n, ast.DictComp)]
        def _dc(r):
            """the dict comprehension a return hands out (directly, or through a local bound once to it)"""
            if isinstance(r.value, ast.DictComp):
                return r.value
            if isinstance(r.value, ast.Name):
                d_ = single_def(flow, r.value)
                if d_ is not None and d_.kind == "assign" and d_.path == () and isinstance(d_.value, ast.DictComp):
                    return d_.value
            return None
        rets = [r for r in returns(ff) if r.value is not None and _dc(r) is not None]
        k = ckey(ff, None, "overwrite")
        if not rets:
            # loop-with-assignment idiom
            sites = [s for s in pf.iter_stmts(ff.node.body) if isinstance(s, ast.Assign)
                     and any(isinstance(t, ast.Subscript) for t in s.targets)]
            if not sites:
                raise AnchorMissing(f"{q}: neither a dict comprehension nor a store loop")
            for s in sites:
                lp = enclosing(ff, s, (ast.For,))
                conds = [c for c in guards.path_conditions(ff.node, s, stop_at=lp[0] if lp else None) if c[0] == "if"]
                if lp and _direct_find_data(flow.expand(lp[0].iter)) and not conds:
                    ctx.holds("C07.5", k, where(ff, s), f"{q}: unconditional store in document order (later wins)", 2)
                else:
                    ctx.violation("C07.5", k, where(ff, s), f"{q}: the store is guarded or the statements are not visited in document order: a later declaration may not win")
            continue
        dc = _dc(rets[0])
        g = dc.generators
        it = flow.expand(g[0].iter) if len(g) == 1 else None
        if len(g) == 1 and not g[0].ifs and _direct_find_data(it):
            ctx.holds("C07.5", k, where(ff, rets[0]), f"{q}: dict comprehension directly over find_data (document order, later wins)", 2)
        else:
            ctx.violation("C07.5", k, where(ff, rets[0]),
                          f"{q}: statements are filtered / reordered before the dict is built (`{txt(it)[:80] if it is not None else '?'}`): the later declaration no longer wins")
    # (b) builder loops with update / setitem
    for q in BUILDER_OVERWRITE:
        ff, flow = fn(ss, DEC, q)
        loops = [n for n in pf.walk_no_nested(ff.node) if isinstance(n, ast.For) and "find_data" in txt(n.iter)]
        if len(loops) != 1:
            raise AnchorMissing(f"{q}: expected one loop over find_data")
        lp = loops[0]
        k = ckey(ff, None, "overwrite")
        if not _direct_find_data(flow.expand(lp.iter)):
            ctx.violation("C07.5", k, where(ff, lp), f"{q}: statements are not visited in document order (`{txt(lp.iter)}`)")
            continue
        # setdefault(key, VALUE) keeps the first declaration; setdefault(group, {}) merely opens a group and is fine
        from ..core.normalise import _empty_container
        bad = [c for c in pf.calls_in(lp) if isinstance(c.func, ast.Attribute) and c.func.attr == "setdefault"
               and not (len(c.args) == 2 and _empty_container(c.args[1]) and isinstance(c.func.value, ast.Name))]
        # inner stores must not be guarded by "inner key not in"
        inner_guard = False
        for s in pf.iter_stmts(lp.body):
            if isinstance(s, (ast.Assign, ast.Expr)):
                for kind, e, pol in guards.path_conditions(lp, s):
                    if kind != "if":
                        continue
                    for cmp_ in [x for x in ast.walk(e) if isinstance(x, ast.Compare)]:
                        if any(isinstance(o, (ast.In, ast.NotIn)) for o in cmp_.ops):
                            # allowed: membership test of the OUTER key in the outer dict (a plain name)
                            if not isinstance(cmp_.comparators[0], ast.Name):
                                inner_guard = True
        if bad or inner_guard:
            ctx.violation("C07.5", k, where(ff, lp), f"{q}: an existing inner key is kept (setdefault / membership guard): the first declaration wins")
        else:
            ctx.holds("C07.5", k, where(ff, lp), f"{q}: update / item store in document order (later wins)", 3)
        _one_store_per_statement(ctx, ff, flow, lp, q)
    # (c) PHOTOS flag: last one, `no` when empty — decided on the returned alternatives with their (expanded, canonical) conditions,
    #     so `return A if t else B`, `if t: return A` / `return B` and locals holding the pieces all read the same
    ff, flow = fn(ss, DEC, "get_global_photos_flag")
    k = ckey(ff, None, "last-flag")
    alts_r = []

    def split_r(conds, v, node):
        if isinstance(v, ast.IfExp):
            split_r(conds + [(flow.expand(a_), p_) for a_, p_ in guards.canon_cond(v.test, True)], v.body, node)
            split_r(conds + [(flow.expand(a_), p_) for a_, p_ in guards.canon_cond(v.test, False)], v.orelse, node)
        else:
            alts_r.append((conds, flow.expand(v), node))
    for r in returns(ff):
        base = []
        for kind, e, pol in guards.path_conditions(ff.node, r, skip_raise_guards=True):
            if kind == "if":
                for a_, p_ in guards.canon_cond(flow.expand(e), pol):
                    base.append((a_, p_))
        split_r(base, r.value, r)
    ALL = ("tuple(parsed_file.find_data('global_photos'))", "list(parsed_file.find_data('global_photos'))")
    empties, lasts = [], []
    for conds, v, node in alts_r:
        cs = [(txt(e), p) for e, p in conds]
        if any(t in ALL and p is False for t, p in cs):
            empties.append((cs, v, node))
        else:
            lasts.append((cs, v, node))
    ok_empty = len(empties) == 1 and txt(empties[0][1]) == "PhotosEnum.no" and len(empties[0][0]) == 1
    if ok_empty:
        ctx.holds("C07.5", k + " :: absent", where(ff, empties[0][2]), "no flag in the file => PhotosEnum.no", 1)
    else:
        ctx.violation("C07.5", k + " :: absent", where(ff, ff.node), "absence of a global PHOTOS flag is not reported as PhotosEnum.no")
    seen = {}
    first = False
    for cs, v, node in lasts:
        for t, p in cs:
            for word in ("yes", "no"):
                for coll in ALL:
                    if t == f"{coll}[-1].children[0].data == '{word}'":
                        seen[(word, p)] = txt(v)
                    if t.startswith(f"{coll}[0]"):
                        first = True
    if first:
        ctx.violation("C07.5", k + " :: last", where(ff, ff.node), "the FIRST of several global PHOTOS flags is reported, not the last")
    else:
        okl = (seen.get(("yes", True)) == "PhotosEnum.yes" and seen.get(("yes", False)) == "PhotosEnum.no") or \
              (seen.get(("no", True)) == "PhotosEnum.no" and seen.get(("no", False)) == "PhotosEnum.yes")
        okl = okl and len(lasts) == 2 and all(len([c for c in cs if c[0] not in ALL and not c[0].startswith("len(")]) == 1 for cs, _, _ in lasts)
        if okl:
            ctx.holds("C07.5", k + " :: last", where(ff, lasts[0][2]), "the last global_photos node decides; yes <=> its child is `yes`", 2)
        else:
            ctx.violation("C07.5", k + " :: last", where(ff, ff.node),
                          f"the reported PHOTOS flag is not `yes iff the LAST global_photos node is yes`: {[(cs, txt(v)[:40]) for cs, v, _ in lasts][:2]}")
    # (d) lineshape loops: raise exactly when the key is already present
    ff, flow = fn(ss, DEC, "get_lineshape_settings")
    loops = {}
    for n in pf.walk_no_nested(ff.node):
        if isinstance(n, ast.For):
            it = flow.expand(n.iter)
            if _direct_find_data(it):
                loops[it.args[0].value] = n
    for lit in LS_LOOPS:
        k = ckey(ff, None, f"repeat:{lit}")
        if lit not in loops:
            ctx.violation("C07.5", k, where(ff, ff.node), f"lineshape statements `{lit}` are no longer visited in document order by their own loop")
            continue
        lp = loops[lit]
        raises = [r for r in ast.walk(lp) if isinstance(r, ast.Raise)]
        stores = [s for s in pf.iter_stmts(lp.body) if isinstance(s, ast.Assign) and any(isinstance(t, ast.Subscript) for t in s.targets)]
        if not raises:
            ctx.violation("C07.5", k, where(ff, lp), f"a repeated `{lit}` setting is no longer reported as an error")
            continue
        ok = True
        why = ""
        for r in raises:
            conds = [c for c in guards.path_conditions(lp, r) if c[0] == "if"]
            # each raise must be reached exactly when the (particle, key) is already present: all conditions are
            # membership tests with positive polarity (or `not in` with negative)
            for kind, e, pol in conds:
                if not (isinstance(e, ast.Compare) and len(e.ops) == 1 and isinstance(e.ops[0], (ast.In, ast.NotIn))):
                    ok, why = False, f"raise guarded by `{txt(e)[:60]}`"
                elif (isinstance(e.ops[0], ast.In)) != pol:
                    ok, why = False, f"raise reached when the key is ABSENT (`{txt(e)[:60]}` is {pol})"
            if not conds:
                ok, why = False, "unconditional raise"
        for s in stores:
            conds = [c for c in guards.path_conditions(lp, s) if c[0] == "if"]
            for kind, e, pol in conds:
                if not (isinstance(e, ast.Compare) and len(e.ops) == 1 and isinstance(e.ops[0], (ast.In, ast.NotIn))):
                    ok, why = False, f"store guarded by `{txt(e)[:60]}`"
        if ok:
            ctx.holds("C07.5", k, where(ff, lp), f"`{lit}`: stores on first sight, raises when the key is already present", len(raises) + len(stores))
        else:
            ctx.violation("C07.5", k, where(ff, lp), f"`{lit}`: {why}")
        _one_store_per_statement(ctx, ff, flow, lp, f"get_lineshape_settings[{lit}]")
        # the repeated-setting test looks at the key that is stored: inner membership tests `X in d[p]` use the inner store key
        inner_keys = set()
        for s_ in stores:
            t_ = s_.targets[0]
            if isinstance(t_.value, ast.Subscript):
                inner_keys.add(flow.text(t_.slice).strip("f'\"{}"))
            elif isinstance(s_.value, ast.Dict) and s_.value.keys:
                inner_keys |= {flow.text(kk).strip("f'\"{}") for kk in s_.value.keys}
        for r in raises:
            for kind, e, pol in guards.path_conditions(lp, r):
                if kind == "if" and isinstance(e, ast.Compare) and isinstance(e.comparators[0], ast.Subscript):
                    lt = flow.text(e.left).strip("f'\"{}")
                    if inner_keys and lt not in inner_keys:
                        ctx.violation("C07.5", k + " :: repeat-key", where(ff, r), f"`{lit}`: the repeated-setting test looks up `{lt}` but the setting is stored under {sorted(inner_keys)}")


def _store_nodes(ff, flow, lp):
    """CFG nodes of the statements inside the loop that put an entry into a result dictionary
    (`d[k] = …`, `d[k][k2] = …`, `d[k].update(…)`), with the expanded text of their outer key."""
    out = []
    for s in pf.iter_stmts(lp.body):
        key = None
        if isinstance(s, ast.Assign) and isinstance(s.targets[0], ast.Subscript):
            t = s.targets[0]
            while isinstance(t.value, ast.Subscript):
                t = t.value
            key = t.slice
        elif isinstance(s, ast.Expr) and isinstance(s.value, ast.Call) and isinstance(s.value.func, ast.Attribute) \
                and s.value.func.attr == "update" and isinstance(s.value.func.value, ast.Subscript):
            key = s.value.func.value.slice
        if key is not None:
            out.append((flow.cfg.node_of(s), s, flow.text(key)))
    return out


def _one_store_per_statement(ctx, ff, flow, lp, q, rule="C07.5"):
    """Every statement of the file puts exactly one entry into the result on every normal path, and membership
    tests that choose between 'new outer key' and 'known outer key' test the key that is then stored."""
    stores = _store_nodes(ff, flow, lp)
    k = ckey(ff, None, f"one-store:{txt(flow.expand(lp.iter))[-30:]}")
    if not stores:
        ctx.violation(rule, k, where(ff, lp), f"{q}: no entry is stored per statement")
        return
    nodes = {n for n, _, _ in stores}
    lo, hi, _ = flow.cfg.count_per_iteration(flow.cfg.node_of(lp), lambda nd: nd.id in nodes)
    # try/except KeyError idiom: the handler's store replaces the failed one (both are on one path) -> allow max 2 when a handler exists
    has_handler = any(isinstance(x, ast.Try) for x in ast.walk(lp))
    raises = any(isinstance(x, ast.Raise) for x in ast.walk(lp))
    ok_count = lo >= 1 and (hi == 1 or (has_handler and hi == 2))
    # every stored entry carries a value: an `update()` without argument stores nothing
    empty = [s_ for _, s_, _ in stores if isinstance(s_, ast.Expr) and not s_.value.args and not s_.value.keywords]
    if empty:
        ctx.violation(rule, k + " :: empty-update", where(ff, empty[0]), f"{q}: `{txt(empty[0])[:60]}` stores nothing for this statement")
    if not ok_count:
        ctx.violation(rule, k, where(ff, lp), f"{q}: a statement stores between {lo} and {hi} entries on some path that completes normally — a declaration can be silently skipped")
    else:
        ctx.holds(rule, k, where(ff, lp), f"{q}: exactly one entry stored per statement on every path", len(stores))
    # try: d[k].update(…) / except KeyError: d[k] = {…} — the handler is the path of a NEW outer key and must create the entry
    for tr in [x for x in ast.walk(lp) if isinstance(x, ast.Try)]:
        for h in tr.handlers:
            hn = [] if h.type is None else ([txt(t) for t in h.type.elts] if isinstance(h.type, ast.Tuple) else [txt(h.type)])
            if "KeyError" in hn or not hn:
                made = [x for x in h.body if isinstance(x, ast.Assign) and isinstance(x.targets[0], ast.Subscript)]
                if not made and any(n_ for n_, s_, _ in stores if any(s_ is y for y in ast.walk(tr))):
                    ctx.violation(rule, k + " :: new-key-handler", where(ff, h), f"{q}: the handler for a new outer key stores nothing: the first declaration of every group is lost")
    keys = {kt for _, _, kt in stores}
    for s in pf.iter_stmts(lp.body):
        if isinstance(s, ast.If):
            for cmp_ in [x for x in ast.walk(s.test) if isinstance(x, ast.Compare) and any(isinstance(o, (ast.In, ast.NotIn)) for o in x.ops)]:
                if isinstance(cmp_.comparators[0], ast.Name):
                    lt = flow.text(cmp_.left)
                    # the branch taken when the outer key is KNOWN must extend the existing entry, the other must create it
                    neg = isinstance(s.test, ast.UnaryOp) and isinstance(s.test.op, ast.Not) and s.test.operand is cmp_
                    if (s.test is cmp_ or neg) and s.orelse:
                        positive = isinstance(cmp_.ops[0], ast.In) != neg
                        known, fresh = (s.body, s.orelse) if positive else (s.orelse, s.body)

                        def creates(block):
                            return any(isinstance(x, ast.Assign) and isinstance(x.targets[0], ast.Subscript) and txt(x.targets[0].value) == txt(cmp_.comparators[0])
                                       for x in block)
                        if creates(known) or not creates(fresh):
                            ctx.violation(rule, ckey(ff, None, f"membership-branches:{lt[-40:]}"), where(ff, s),
                                          f"{q}: the branch for an already known outer key re-creates the entry (earlier declarations of that group are lost) "
                                          "or the branch for a new key does not create it (KeyError)")
                    if lt not in keys:
                        ctx.violation(rule, ckey(ff, None, f"membership-key:{lt[-40:]}"), where(ff, s),
                                      f"{q}: the membership test looks up `{lt[-60:]}` but the entry is stored under `{sorted(keys)[0][-60:]}`")


def _chain(fnode: ast.FunctionDef, param: str) -> list[str]:
    """First-success conversion chain of a try/except ladder: ['int', 'float', 'id']."""
    out = []

    def walk(body):
        for st in body:
            if isinstance(st, ast.Try):
                walk(st.body)
                for h in st.handlers:
                    walk(h.body)
                return
            if isinstance(st, ast.Return) and st.value is not None:
                v = st.value
                if isinstance(v, ast.Call) and isinstance(v.func, ast.Name) and len(v.args) == 1 and isinstance(v.args[0], ast.Name) \
                        and v.args[0].id == param and not v.keywords:
                    out.append(v.func.id)
                elif isinstance(v, ast.Name) and v.id == param:
                    out.append("id")
                else:
                    out.append("?" + txt(v)[:40])
                return
    walk(fnode.body)
    return out


def c07_6(ctx, ss):
    # the JetSet value converter is found by its role: the user function applied to the value token (2nd child) of a
    # jetset_def statement — nested in the accessor or a private module-level helper
    jf, jflow = fn(ss, DEC, "get_jetset_definitions")
    mfx = pf.module_facts(ss, DEC)
    conv_names = []
    for c in pf.calls_in(jf.node, nested=False):
        if isinstance(c.func, ast.Name) and c.func.id not in ("int", "float", "str") and len(c.args) == 1 and txt(jflow.expand(c.args[0])).endswith(".children[1].value"):
            qn = f"get_jetset_definitions.{c.func.id}" if f"get_jetset_definitions.{c.func.id}" in mfx.funcs else c.func.id
            if qn in mfx.funcs and qn not in conv_names:
                conv_names.append(qn)
    if len(conv_names) != 1:
        raise AnchorMissing(f"get_jetset_definitions: the function converting the value token was not found ({conv_names})")
    JCONV = conv_names[0]
    for q, want in ((JCONV, ["int", "float", "id"]), ("_str_or_float", ["float", "id"])):
        ff, flow = fn(ss, DEC, q)
        got = _chain(ff.node, ff.params[0])
        k = ckey(ff, None, "chain")
        if got == want:
            ctx.holds("C07.6", k, where(ff, ff.node), f"{q}: first-success chain {' → '.join(got)}", len(got))
        else:
            ctx.violation("C07.6", k, where(ff, ff.node), f"{q}: conversion chain is {' → '.join(got)}, expected {' → '.join(want)} "
                          "(e.g. JetSet integers would be reported as floats)")
    # yes/no words of IncludeBirthFactor / IncludeDecayFactor
    ff, flow = fn(ss, DEC, "_str_to_bool")
    p0 = ff.params[0]
    seen = {}
    for r in returns(ff):
        conds = [c for c in guards.path_conditions(ff.node, r) if c[0] == "if" and c[2]]
        for kind, e, pol in conds:
            if isinstance(e, ast.Compare) and len(e.ops) == 1 and isinstance(e.ops[0], ast.Eq) and txt(e.left) == p0 \
                    and isinstance(e.comparators[0], ast.Constant) and isinstance(r.value, ast.Constant):
                seen[e.comparators[0].value] = r.value.value
    falls = flow.cfg.reachable(flow.cfg.entry, flow.cfg.exit, avoid={flow.cfg.node_of(r) for r in returns(ff)},
                               skip_labels=("exc", "raise", "assertfail"))
    if seen == {"yes": True, "no": False} and not falls:
        ctx.holds("C07.6", ckey(ff, None, "yes-no"), where(ff, ff.node), "_str_to_bool: 'yes'→True, 'no'→False, anything else raises", 3)
    else:
        ctx.violation("C07.6", ckey(ff, None, "yes-no"), where(ff, ff.node), f"_str_to_bool maps {seen} (fall-through without raise: {falls})")
    # the chain is applied to the value token at both store sites
    ff, flow = fn(ss, DEC, "get_jetset_definitions")
    # the parameter-name pattern reads NAME(NUMBER) — decided on the automaton of the pattern compiled with its flags
    import re as _re
    from ..core.rx import Rx, includes
    comp = [c for c in pf.calls_in(ff.node, nested=False) if txt(c.func) == "re.compile"]
    kx = ckey(ff, None, "name-pattern")
    if len(comp) == 1 and comp[0].args and isinstance(comp[0].args[0], ast.Constant):
        fl = 0
        okf = True
        for a in list(comp[0].args[1:]) + [kw.value for kw in comp[0].keywords if kw.arg == "flags"]:
            for part in ([a] if not isinstance(a, ast.BinOp) else [x for x in ast.walk(a) if isinstance(x, ast.Attribute)]):
                v = getattr(_re, part.attr, None) if isinstance(part, ast.Attribute) and txt(part.value) == "re" else None
                if v is None:
                    okf = False
                else:
                    fl |= int(v)
        if not okf:
            ctx.undecided("C07.6", kx, where(ff, comp[0]), "flags of the JetSet name pattern not understood")
        else:
            try:
                got = Rx(comp[0].args[0].value, fl)
                wit = includes(got, Rx(r"[A-Za-z]+\([0-9]+\)"))
                bad = next((w for w in ("MSTU1", "PARJ()", "(21)") if got.accepts(w)), None)   # (the pattern is used with .match and is not end-anchored: trailing text after ')' is outside the property)
                if wit is not None:
                    ctx.violation("C07.6", kx, where(ff, comp[0]), f"the JetSet name pattern (with its flags) no longer matches {wit!r}: such JetSetPar statements raise")
                elif bad is not None:
                    ctx.violation("C07.6", kx, where(ff, comp[0]), f"the JetSet name pattern accepts {bad!r}, which is not NAME(NUMBER)")

                else:
                    ctx.holds("C07.6", kx, where(ff, comp[0]), "the JetSet name pattern reads every NAME(NUMBER)", got.n_states())
            except AnchorMissing as e:
                ctx.undecided("C07.6", kx, where(ff, comp[0]), f"JetSet name pattern: {e}")
    else:
        raise AnchorMissing("get_jetset_definitions: the compiled name pattern was not found")
    calls = [c for c in pf.calls_in(ff.node, nested=False) if isinstance(c.func, ast.Name) and c.func.id == JCONV.split(".")[-1]]
    if len(calls) < 1:
        ctx.violation("C07.6", ckey(ff, None, "applied"), where(ff, ff.node), "JetSet values no longer go through to_int_or_float")
    else:
        ctx.holds("C07.6", ckey(ff, None, "applied"), where(ff, calls[0]), f"to_int_or_float applied at {len(calls)} store site(s)", len(calls))


def c07_7(ctx, ss):
    # the width helper is found by its role: the nested function of get_particle_property_definitions that is applied to the
    # children of a particle_def statement
    outer, oflow = fn(ss, DEC, "get_particle_property_definitions")
    mfx = pf.module_facts(ss, DEC)
    cands = []
    site = None
    for c in pf.calls_in(outer.node, nested=False):
        if isinstance(c.func, ast.Name) and len(c.args) >= 1 and not c.keywords and txt(oflow.expand(c.args[0])).endswith(".children"):
            q_ = f"get_particle_property_definitions.{c.func.id}"
            q_ = q_ if q_ in mfx.funcs else c.func.id
            if q_ in mfx.funcs and q_ not in cands:
                cands.append(q_)
                site = c
    if len(cands) != 1:
        raise AnchorMissing(f"get_particle_property_definitions: the helper giving the width of a statement was not found ({cands})")
    ff, flow = fn(ss, DEC, cands[0])
    rets = returns(ff)
    dflt = []
    for r in rets:
        conds = [c for c in guards.path_conditions(ff.node, r) if c[0] == "if"]
        if not any(pol for _, _, pol in conds):
            dflt.append(r)
    if len(dflt) != 1:
        raise AnchorMissing("get_set_width_or_default: default branch not identified")
    r = dflt[0]
    ex = flow.expand(r.value)
    k = ckey(ff, None, "default-width")
    ok_div = False
    core = None
    if isinstance(ex, ast.BinOp) and isinstance(ex.op, ast.Div) and isinstance(ex.right, ast.Name) and ex.right.id == "GeV":
        ok_div, core = True, ex.left
    elif isinstance(ex, ast.BinOp) and isinstance(ex.op, ast.Mult):
        for a, b in ((ex.left, ex.right), (ex.right, ex.left)):
            if isinstance(b, ast.BinOp) and isinstance(b.op, ast.Div) and isinstance(b.left, ast.Constant) and b.left.value in (1, 1.0) \
                    and isinstance(b.right, ast.Name) and b.right.id == "GeV":
                ok_div, core = True, a
    mf = pf.module_facts(ss, DEC)
    gev_ok = mf.imports.get("GeV", ("", ""))[0].startswith("hepunits")
    if not ok_div or not gev_ok:
        ctx.violation("C07.7", k, where(ff, r), f"default width `{txt(ex)[:120]}` is not divided by hepunits.GeV (reported in MeV instead of GeV)")
        return
    t = txt(core)
    ok_w = isinstance(core, ast.Attribute) and core.attr == "width" and isinstance(core.value, ast.Call) \
        and txt(core.value.func) == "Particle.from_evtgen_name"
    arg = core.value.args[0] if ok_w and core.value.args else None
    ok_alias = False
    if arg is not None and site is not None and len(site.args) > 1:
        # a module-level helper gets what the nested one closes over as further parameters: read them at the call site
        import copy as _copy
        bind = {p_: oflow.expand(a_) for p_, a_ in zip(ff.params[1:], site.args[1:])}

        class _B(ast.NodeTransformer):
            def visit_Name(self, n):
                return _copy.deepcopy(bind[n.id]) if n.id in bind and isinstance(n.ctx, ast.Load) else n
        arg = _B().visit(_copy.deepcopy(arg))
    if arg is not None:
        for a in phi_alts(arg):
            pass
        ta = txt(arg)
        p0 = ff.params[0]
        A = "get_aliases(parsed_file)"
        nm = f"{p0}[0].value"
        ok_alias = ta in (f"{A}.get({nm}, {nm})", f"{A}.get({nm}, {nm}) if {A} else {nm}")
    if ok_w and ok_alias:
        ctx.holds("C07.7", k, where(ff, r), "default width = Particle.from_evtgen_name(aliases.get(name, name)).width / GeV", 4)
    elif ok_w:
        ctx.violation("C07.7", k, where(ff, r), f"default width looks up `{txt(arg)[:100]}`: the alias is not resolved to the particle it stands for")
    else:
        ctx.violation("C07.7", k, where(ff, r), f"default width is `{t[:120]}`, not the reference width of the (aliased) particle")
    # the aliases table is the file's own alias table
    pff, pflow = fn(ss, DEC, "get_particle_property_definitions")
    defs = [d for d in pflow.defs if d.kind == "assign" and d.value is not None and txt(d.value) == "get_aliases(parsed_file)"]
    if len(defs) == 1 and arg is not None and "get_aliases(parsed_file)" in txt(arg):
        ctx.holds("C07.7", ckey(pff, None, "aliases"), where(pff, defs[0].stmt), "the alias table is get_aliases(parsed_file)", 1)
    else:
        ctx.violation("C07.7", ckey(pff, None, "aliases"), where(pff, pff.node), "the alias table used for the default width is not get_aliases(parsed_file)")


WRAPPERS = {
    "dict_decays2copy": "get_decays2copy_statements", "dict_definitions": "get_definitions",
    "dict_model_aliases": "get_model_aliases", "dict_aliases": "get_aliases",
    "dict_charge_conjugates": "get_charge_conjugate_defs",
    "get_particle_property_definitions": "get_particle_property_definitions",
    "dict_pythia_definitions": "get_pythia_definitions", "dict_jetset_definitions": "get_jetset_definitions",
    "dict_lineshape_settings": "get_lineshape_settings", "list_lineshapePW_definitions": "get_lineshapePW_definitions",
    "global_photos_flag": "get_global_photos_flag", "list_charge_conjugate_decays": "get_charge_conjugate_decays",
}


def c07_8(ctx, ss, rule="C07.8", only=None):
    """rule / only: C05.6 runs the clause for the Define table that parse() reads (shared clause)."""
    for m, acc in WRAPPERS.items():
        if only is not None and m not in only:
            continue
        ff, flow = fn(ss, DEC, f"DecFileParser.{m}")
        rets = returns(ff)
        k = ckey(ff, None, "wrapper")
        want = f"{acc}(self._parsed_dec_file)"
        if len(rets) == 1 and rets[0].value is not None and flow.text(rets[0].value) == want:
            ctx.holds(rule, k, where(ff, rets[0]), f"{m}() = {want}", 1)
        else:
            got = [flow.text(r.value)[:100] for r in rets if r.value is not None]
            ctx.violation(rule, k, where(ff, ff.node), f"{m}() returns {got}, not {want}")
    if only is None:
        ctx.count("functions", len(WRAPPERS))
        ctx.floor("C07.8", "public wrappers", len(WRAPPERS), 12)
