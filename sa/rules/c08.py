"""C08 — copies are independent; queries never change the parser (DESIGN.md §4 C08)."""
from __future__ import annotations

import ast

from ..core import pyfacts as pf
from ..core.callgraph import callgraph
from ..core.effects import effects
from ..core.match import txt
from ..core.source import AnchorMissing
from .common import DEC, DECAY, builder_sites, ckey, fn, returns, stmt_of, where

PROP = "C08"
FILES = [DEC, DECAY, "utils/utilities.py", "utils/particleutils.py", "data/decfile.lark"]
EXPLANATION = (
    "C08.1 effect analysis: for every query method of DecFileParser (26+) the transitive write set on parser state "
    "(self.*, class and module state, objects reachable from them, also through helper functions and Lark visitor "
    "dispatch) is empty, except the two lazy grammar slots; C08.2 what each public query returns is fresh or immutable to "
    "the depth a caller can mutate; C08.3 CopyDecay appends a deepcopy of the source and renames only the copy; C08.4 "
    "conjugation and alias expansion work on copies (C03.2, C05.2); C08.5 parse() re-assigns all parsed state on every "
    "normal path before use; C08.6 the in-place expansion helper only ever receives a freshly built chain dictionary; "
    "C08.7 cached functions return immutable values.")
NOT_DECIDED = ["equality of answers with a freshly parsed instance (needs execution)"]
LAZY = {"self._grammar", "self._grammar_info"}
NON_QUERIES = {"__init__", "from_string", "parse", "load_additional_decay_models", "_load_grammar"}
EXTRA_QUERIES = {"_find_decay_modes", "_decay_mode_details", "_align_items"}
RETURNS_LIVE_OK = {"grammar_info": "documented configuration handle (O2)", "grammar": "returns the grammar text (str)"}


def run(ctx, ss):
    from .common import keyword_vocabulary
    ctx.guard("C08.3", keyword_vocabulary, ss, "C08.3", ('copydecay',), ())
    from .c03 import c03_2
    from .c05 import c05_2
    for r, f in (("C08.1", c08_1), ("C08.2", c08_2), ("C08.3", c08_3), ("C08.3", c08_copy_guard), ("C08.5", c08_5), ("C08.6", c08_6), ("C08.7", c08_7)):
        ctx.guard(r, f, ss)
    ctx.guard("C08.4", lambda c, s: c03_2(c, s, rule="C08.4"), ss)
    ctx.guard("C08.4", lambda c, s: c05_2(c, s, rule="C08.4"), ss)
    # C08.8: nothing on the way from the observed entry points is memoised on a parser / tree / path / container (shared.py)
    from .shared import memo_for
    ctx.guard("C08.8", memo_for, ss, "C08", "C08.8", "a query")
    # C08.9 'a table created by CopyDecay is usable as the source of a later CDecay': the CDecay source lookup finds tables by
    # the CURRENT name of their mother token (C03.6 shared) -- a copy keeps the token text of its source and only its .value is new
    from .c03 import c03_6
    from .c05 import _as
    ctx.guard("C08.9", lambda c, s: _as(c, s, c03_6, "C08.9"), ss)


def _queries(ss):
    mf = pf.module_facts(ss, DEC)
    cf = mf.classes.get("DecFileParser")
    if cf is None:
        raise AnchorMissing("class DecFileParser not found")
    qs = [m for n, m in cf.methods.items() if (not n.startswith("_") or n in EXTRA_QUERIES or n in ("__repr__", "__str__")) and n not in NON_QUERIES]
    return cf, qs


def c08_1(ctx, ss):
    ef = effects(ss)
    cf, qs = _queries(ss)
    ctx.count("query_methods", len(qs))
    ctx.count("write_sites", sum(len(v) for v in ef.local.values()))
    ctx.count("functions", len(ef.cg.funcs))
    ctx.count("unresolved_calls", ef.cg.unresolved)
    for m in qs:
        ws = ef.transitive_state_writes(m.key)
        bad = [w for w in ws if not (w.root[0] == "state" and w.root[1] in LAZY)]
        k = ckey(m, None, "no-state-write")
        mp = sorted(p for p in ef.sum[m.key].mutated_params if p not in ("self", "cls"))
        if mp:
            ctx.violation("C08.1", ckey(m, None, f"mutates-param {mp[0]}"), where(m, m.node),
                          f"query {m.qualname} modifies the object passed as `{mp[0]}` (for the tree accessors this is a tree of the parser)")
        if not bad:
            ctx.holds("C08.1", k, where(m, m.node), f"{m.qualname}: no write to parser / class / module state ({len(ws)} lazy-grammar writes exempt)", len(ws) + 1)
            continue
        for w in bad:
            wf = ef.cg.funcs[w.func]
            if w.root[0] == "state":
                ctx.violation("C08.1", ckey(m, None, f"writes {w.root[1]}"), where(wf, w.node),
                              f"query {m.qualname} changes parser state: {w.how} on {w.root[1]} (in {wf.qualname}); later answers depend on this call")
            else:
                ctx.undecided("C08.1", ckey(m, None, f"unknown-root {w.how}"), where(wf, w.node),
                              f"query {m.qualname}: write `{w.how}` on an object of unknown origin ({w.root[1]})")
    ctx.floor("C08.1", "query methods", len(qs), 26)


def c08_2(ctx, ss):
    ef = effects(ss)
    cf, qs = _queries(ss)
    n = 0
    for m in qs:
        if m.node.name.startswith("_") and m.node.name not in ("__repr__", "__str__"):
            continue
        n += 1
        k = ckey(m, None, "returns-fresh")
        if m.node.name in RETURNS_LIVE_OK:
            ctx.holds("C08.2", k, where(m, m.node), f"{m.qualname}: exempt — {RETURNS_LIVE_OK[m.node.name]}", 1)
            continue
        if ef.returns_deep_fresh(m.key):
            ctx.holds("C08.2", k, where(m, m.node), f"{m.qualname}: the returned value is rebuilt on every call (fresh or immutable at every depth)", len(returns(m)) + 1)
        else:
            bad = [r for r in returns(m) if r.value is not None and not ef.deep_fresh(__import__("sa.core.defuse", fromlist=["flow_of"]).flow_of(ss, m), r.value)]
            r0 = bad[0] if bad else m.node
            ctx.violation("C08.2", k, where(m, r0),
                          f"{m.qualname} hands out `{txt(r0.value)[:80] if bad else '?'}`, which is (or contains) an object reachable from parser state: "
                          "mutating the returned value changes later answers")
    ctx.floor("C08.2", "public queries", n, 23)


def c08_3(ctx, ss):
    ef = effects(ss)
    ff, flow = fn(ss, DEC, "DecFileParser._add_decays_to_be_copied")
    ext = [c for c in pf.calls_in(ff.node) if isinstance(c.func, ast.Attribute) and c.func.attr in ("extend", "append")
           and txt(c.func.value) == "self._parsed_decays"]
    if not ext:
        ctx.violation("C08.3", ckey(ff, None, "added"), where(ff, ff.node), "copied decays are never added to the list of tables")
        return
    for c in ext:
        a = c.args[0]
        # elements of the extended list
        srcs = []
        if isinstance(a, ast.Name):
            sites = builder_sites(ff, flow, a.id)
            srcs = [args[0] for st, m, args in sites if m == "append"]
            if not srcs:
                ctx.violation("C08.3", ckey(ff, None, "added"), where(ff, c), "no copied table is ever collected: CopyDecay statements add nothing")
                continue
        else:
            srcs = [a]
        for s in srcs:
            r = ef.root(flow, s)
            k = ckey(ff, None, "copy-is-deep")
            if r == ("fresh", "deepcopy"):
                ctx.holds("C08.3", k, where(ff, s), "the tree added for CopyDecay is copy.deepcopy(source)", 2)
            else:
                ctx.violation("C08.3", k, where(ff, s),
                              f"the tree added for CopyDecay is not a deep copy of its source (origin: {r[0]} {r[1]}): copy and source share decay lines")
    # the rename writes into the copy only
    stores = [w for w in ef.local[ff.key] if w.how.startswith("store ") and ".value" in w.how]
    if not stores:
        ctx.violation("C08.3", ckey(ff, None, "rename"), where(ff, ff.node), "the copy is never renamed to the new mother")
    for w in stores:
        r = ef.root(flow, w.receiver)
        k = ckey(ff, None, "rename")
        if r == ("fresh", "deepcopy"):
            ctx.holds("C08.3", k, where(ff, w.node), "the mother name is rewritten on the deep copy", 1)
            from ..core.larkfacts import grammar_facts
            from ..core.treetypes import TreeTyper
            tt = TreeTyper(grammar_facts(ss, "data/decfile.lark"))
            tgt = [t for t in w.node.targets][0]
            base = tgt
            while isinstance(base, (ast.Attribute, ast.Subscript)):
                base = base.value
            val = tt.check(tgt, {base.id: tt.tree("decay")}) if isinstance(base, ast.Name) else None
            okt = val is not None and not tt.errors and val.sig() == "decay/0:particle/0:LABEL"
            (ctx.holds if okt else ctx.violation)("C08.3", k + " :: where", where(ff, w.node),
                                                  "the rewritten token is the mother's LABEL (decay/0:particle/0:LABEL)" if okt
                                                  else f"the rename writes `{val.sig() if val is not None else '?'}` {tt.errors[:1]}, not the mother name of the copied table")
        else:
            ctx.violation("C08.3", k, where(ff, w.node), f"the mother rename writes into an object that is not the deep copy ({r[0]} {r[1]}): the SOURCE table is renamed")
    # source lookup by name -> position of the same list
    ok = False
    for c in pf.calls_in(ff.node):
        if txt(c.func) in ("copy.deepcopy", "deepcopy") and c.args:
            import re as _re
            t = _re.sub(r" for [\w, ()]+ in ", " for _ in ", flow.text(c.args[0]))
            E = "__elem__(enumerate(self._parsed_decays))"
            want = f"self._parsed_decays[{{{E}[1].children[0].children[0].value: {E}[0] for _ in enumerate(self._parsed_decays)}}[__elem__(self.dict_decays2copy().items())[1]]]"
            if t == want:
                ok = True
    (ctx.holds if ok else ctx.violation)("C08.3", ckey(ff, None, "source"), where(ff, ff.node),
                                          "the source of a copy is the table named by the statement's second label" if ok
                                          else "the source tree of a CopyDecay is not looked up by the statement's second label")


def _self_store_nodes(ff, attr):
    out = []
    for st in pf.iter_stmts(ff.node.body):
        if isinstance(st, (ast.Assign, ast.AnnAssign)):
            ts = st.targets if isinstance(st, ast.Assign) else [st.target]
            if any(isinstance(t, ast.Attribute) and t.attr == attr and isinstance(t.value, ast.Name) and t.value.id == "self" for t in ts):
                out.append(st)
    return out


def c08_5(ctx, ss):
    ff, flow = fn(ss, DEC, "DecFileParser.parse")
    cfg = flow.cfg
    for attr in ("_include_ccdecays", "_parsed_dec_file", "_parsed_decays"):
        sts = _self_store_nodes(ff, attr)
        k = ckey(ff, None, f"reassign:{attr}")
        if sts and cfg.must_pass({cfg.node_of(s) for s in sts}):
            ctx.holds("C08.5", k, where(ff, sts[0]), f"parse() assigns self.{attr} on every normal path", len(sts))
        else:
            ctx.violation("C08.5", k, where(ff, ff.node), f"parse() can complete without re-assigning self.{attr}: a second parse() keeps state of the first")
    # the switch is assigned from the argument before it is read
    sts = _self_store_nodes(ff, "_include_ccdecays")
    reads = [a for a in pf.walk_no_nested(ff.node) if isinstance(a, ast.Attribute) and a.attr == "_include_ccdecays" and isinstance(a.ctx, ast.Load)]
    ok = bool(sts) and all(cfg.dominates(cfg.node_of(sts[0]), flow.node_of_expr(r)) for r in reads)
    v = flow.expand(sts[0].value) if sts else None
    ok_v = v is not None and txt(v) in ("include_ccdecays or False", "include_ccdecays", "bool(include_ccdecays)")
    (ctx.holds if ok and ok_v else ctx.violation)("C08.5", ckey(ff, None, "switch"), where(ff, sts[0] if sts else ff.node),
                                                  "self._include_ccdecays := include_ccdecays before any read" if ok and ok_v
                                                  else f"the conjugate switch is not (only) the argument of this parse() call: `{txt(v) if v is not None else None}`")
    # the list of tables is rebuilt from the new tree
    g, gflow = fn(ss, DEC, "DecFileParser._find_parsed_decays")
    sts = _self_store_nodes(g, "_parsed_decays")
    ok = len(sts) == 1 and txt(sts[0].value) == "get_decays(self._parsed_dec_file)"
    (ctx.holds if ok else ctx.violation)("C08.5", ckey(g, None, "rebuilt"), where(g, g.node),
                                          "the table list is rebuilt from the newly parsed tree" if ok else "the table list is not rebuilt from the newly parsed tree (e.g. appended to the old one)")


def c08_copy_guard(ctx, ss):
    ff, flow = fn(ss, DEC, "DecFileParser.parse")
    calls = [c for c in pf.calls_in(ff.node) if txt(c.func) == "self._add_decays_to_be_copied"]
    k = ckey(ff, None, "copy-step")
    if not calls:
        ctx.violation("C08.3", k, where(ff, ff.node), "parse() never creates the CopyDecay tables")
        return
    from ..core import guards
    for c in calls:
        conds = [(txt(flow.expand(e)), pol) for kind, e, pol in guards.path_conditions(ff.node, stmt_of(ff, c)) if kind == "if"]
        ok = conds in ([], [("self.dict_decays2copy()", True)], [("len(self.dict_decays2copy()) > 0", True)], [("bool(self.dict_decays2copy())", True)])
        (ctx.holds if ok else ctx.violation)("C08.3", k, where(ff, c), "the copy step runs whenever the file has CopyDecay statements" if ok
                                              else f"the copy step runs under {conds}: CopyDecay statements can be ignored")
    # every CopyDecay statement is honoured inside the step
    g, gflow = fn(ss, DEC, "DecFileParser._add_decays_to_be_copied")
    loops = [n for n in pf.walk_no_nested(g.node) if isinstance(n, ast.For) and any(txt(x.func) in ("copy.deepcopy", "deepcopy") for x in pf.calls_in(n))]
    okl = len(loops) == 1 and txt(gflow.expand(loops[0].iter)) == "self.dict_decays2copy().items()" and not any(isinstance(x, (ast.Break, ast.Continue)) for x in ast.walk(loops[0]))
    (ctx.holds if okl else ctx.violation)("C08.3", ckey(g, None, "all-statements"), where(g, loops[0] if loops else g.node),
                                          "every CopyDecay statement is processed" if okl else "not every CopyDecay statement is processed")


def c08_6(ctx, ss):
    ef = effects(ss)
    cg = callgraph(ss)
    key = f"{DECAY}:_expand_decay_modes"
    if key not in cg.funcs:
        raise AnchorMissing("_expand_decay_modes not found")
    mut = ef.sum[key].mutated_params
    callers = [s for s in cg.callers_of(key) if s.caller != key]
    ctx.count("call_sites", len(callers))
    if "decay_chain" not in mut:
        ctx.holds("C08.6", ckey(cg.funcs[key], None, "pure"), where(cg.funcs[key], cg.funcs[key].node), "_expand_decay_modes does not mutate its argument", 1)
        return
    allowed = {f"{DEC}:DecFileParser.expand_decay_modes": "self.build_decay_chains", f"{DECAY}:DecayChain.to_string": "self.to_dict"}
    for s in callers:
        cf_ = cg.funcs[s.caller]
        from ..core.defuse import flow_of
        fl = flow_of(ss, cf_)
        a = s.node.args[0] if s.node.args else None
        k = ckey(cf_, None, "expand-arg")
        if a is None:
            raise AnchorMissing("call of _expand_decay_modes without positional chain")
        ex = fl.expand(a)
        builder = allowed.get(s.caller)
        if builder and isinstance(ex, ast.Call) and txt(ex.func) == builder:
            ctx.holds("C08.6", k, where(cf_, s.node), f"{cf_.qualname}: the chain handed to the in-place expansion is the direct result of {builder}()", 2)
        else:
            r = ef.root(fl, a)
            if r[0] == "fresh":
                ctx.holds("C08.6", k, where(cf_, s.node), f"{cf_.qualname}: argument is fresh ({r[1]})", 2)
            else:
                ctx.violation("C08.6", k, where(cf_, s.node),
                              f"{cf_.qualname} passes `{txt(ex)[:80]}` ({r[0]} {r[1]}) to _expand_decay_modes, which rewrites its argument in place")
    ctx.floor("C08.6", "call sites of _expand_decay_modes", len(callers), 2)
    # the two builders create new containers on every call
    for short, q in ((DECAY, "DecayMode.to_dict"), (DECAY, "DecayChain.to_dict.recursively_replace")):
        ff, flow = fn(ss, short, q)
        ok = True
        for r in returns(ff):
            v = r.value
            if isinstance(v, ast.Name):
                ds = flow.defs_of(v)
                v = ds[0].value if len(ds) == 1 and ds[0].kind == "assign" else None
            if not isinstance(v, ast.Dict):
                ok = False
        (ctx.holds if ok else ctx.violation)("C08.6", ckey(ff, None, "new-dict"), where(ff, ff.node),
                                              f"{q} returns a dict display created by this call" if ok else f"{q} does not return a newly created dict")


CACHE_DECOS = {"lru_cache", "cache", "cacher", "cached_property", "functools.lru_cache", "functools.cache"}


def c08_7(ctx, ss):
    ef = effects(ss)
    n = 0
    for k, ff in ef.cg.funcs.items():
        decos = set(ff.decorators)
        if decos & CACHE_DECOS:
            n += 1
            from ..core.defuse import flow_of
            fl = flow_of(ss, ff)
            bad = [r for r in returns(ff) if r.value is not None and not _immutable(fl.expand(r.value), ff.node.name)]
            kk = ckey(ff, None, "cached-immutable")
            if bad:
                ctx.violation("C08.7", kk, where(ff, bad[0]), f"cached function {ff.qualname} returns `{txt(bad[0].value)[:60]}`, a possibly mutable object shared between calls")
            else:
                ctx.holds("C08.7", kk, where(ff, ff.node), f"cached function {ff.qualname} returns strings only", len(returns(ff)))
    ctx.count("cached_functions", n)


def _immutable(e: ast.AST, self_name: str = "") -> bool:
    if isinstance(e, (ast.Constant, ast.JoinedStr)):
        return True
    if isinstance(e, ast.IfExp):
        return _immutable(e.body, self_name) and _immutable(e.orelse, self_name)
    if isinstance(e, ast.Call) and isinstance(e.func, ast.Name) and e.func.id == "__phi__":
        return all(_immutable(a, self_name) for a in e.args)
    if isinstance(e, ast.Call) and isinstance(e.func, ast.Name) and e.func.id == self_name:
        return True     # recursion: same (immutable) result type
    if isinstance(e, ast.Attribute) and e.attr in ("evtgen_name", "name", "pdg_name"):
        return True
    if isinstance(e, ast.Subscript):
        return "NameMap" in txt(e.value) or "BiMap" in txt(e.value)
    if isinstance(e, ast.Call) and isinstance(e.func, ast.Name) and e.func.id in ("str", "float", "int", "bool", "tuple", "frozenset"):
        return True
    return False
