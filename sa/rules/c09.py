"""C09 — decay chains are the recursive unfolding of the tables (DESIGN.md §4 C09)."""
from __future__ import annotations

import ast

from ..core import guards
from ..core import pyfacts as pf
from ..core.defuse import is_identity
from ..core.match import call_arg, txt
from ..core.source import AnchorMissing
from .common import (DEC, builder_sites, ckey, enclosing, enclosing_try_parts, fn, handler_names,
                     is_empty_list, method_calls, returns, single_def, stmt_of, where)

PROP = "C09"
FILES = [DEC]
EXPLANATION = (
    "Static rules on DecFileParser.build_decay_chains / _find_decay_modes: C09.1 exactly one appended entry per "
    "decay line and it is that line's _decay_mode_details; C09.2 the replacement store uses the enumerate index of "
    "the daughter it replaces and the recursive chain of that same daughter; C09.3 the stable set is forwarded "
    "unchanged into the recursion; C09.4 the recursion is unreachable for a stable daughter and reached otherwise; "
    "C09.5 only DecayNotFound is caught around the recursion, the top-level lookup is outside any handler and "
    "_find_decay_modes raises DecayNotFound on fall-through; C09.6 the result is keyed by the mother parameter and "
    "the function writes no parser state. Decided on every path / call site of the current source, not on samples.")
NOT_DECIDED = ["termination on cyclic tables (excluded by the quantifier)",
               "equality of the produced dictionary with a reference unfolding (needs execution)"]
WRAP = ("set", "frozenset", "list", "tuple")
F = "DecFileParser.build_decay_chains"


def _recursive_calls(ff):
    return method_calls(ff, ("build_decay_chains",), ("self",))


def run(ctx, ss):
    ctx.guard("C09.1", c09_1, ss)
    ctx.guard("C09.2", c09_2, ss)
    ctx.guard("C09.3", c09_3, ss)
    ctx.guard("C09.4", c09_4, ss)
    ctx.guard("C09.5", c09_5, ss)
    ctx.guard("C09.6", c09_6, ss)
    from .shared import reading_path
    ctx.guard("C09.6", reading_path, ss, "C09.6", ["DecFileParser.build_decay_chains"], "a decay chain")


def _result_builder(ff, flow):
    """The local list that becomes the value of the returned {mother: <list>} dict."""
    rets = returns(ff)
    if len(rets) != 1:
        raise AnchorMissing(f"{F}: expected one return, found {len(rets)}")
    r = rets[0]
    v = r.value
    if isinstance(v, ast.Name):
        d = single_def(flow, v)
        if d is None or d.kind != "assign":
            raise AnchorMissing(f"{F}: returned name has no single assignment")
        v = d.value
    if not (isinstance(v, ast.Dict) and len(v.keys) == 1):
        raise AnchorMissing(f"{F}: return value is not a one-key dict literal")
    return r, v.keys[0], v.values[0]


def c09_1(ctx, ss):
    ff, flow = fn(ss, DEC, F)
    ctx.count("functions")
    r, key, val = _result_builder(ff, flow)
    if isinstance(val, ast.ListComp):
        raise AnchorMissing(f"{F}: comprehension-built result not supported (the per-daughter replacement needs statements)")
    if not isinstance(val, ast.Name):
        raise AnchorMissing(f"{F}: dict value is not a local list")
    d = single_def(flow, val)
    if d is None or d.kind != "assign" or not is_empty_list(d.value):
        raise AnchorMissing(f"{F}: result list is not initialised to an empty list exactly once")
    sites = builder_sites(ff, flow, val.id)
    appends = [s for s in sites if s[1] == "append"]
    others = [s for s in sites if s[1] != "append"]
    for st, m, _ in others:
        ctx.violation("C09.1", ckey(ff, st), where(ff, st),
                      f"result list `{val.id}` is also changed by `{m}`: entries are no longer one per decay line in order")
    if not appends:
        ctx.violation("C09.1", ckey(ff, r), where(ff, r), "no entry is ever appended to the returned list")
        return
    for st, _, args in appends:
        loops = enclosing(ff, st, (ast.For, ast.While))
        if not loops:
            ctx.violation("C09.1", ckey(ff, st), where(ff, st), "append to the result list is outside the per-decay-line loop")
            continue
        outer = loops[-1]
        if not isinstance(outer, ast.For):
            raise AnchorMissing(f"{F}: outer loop is not a for loop")
        it = flow.expand(outer.iter)
        fcalls = [c for c in ast.walk(it) if isinstance(c, ast.Call) and isinstance(c.func, ast.Attribute)
                  and c.func.attr == "_find_decay_modes"]
        if len(fcalls) != 1 or not fcalls[0].args or not is_identity(fcalls[0].args[0], "mother"):
            ctx.violation("C09.1", ckey(ff, outer, "iter"), where(ff, outer),
                          f"the per-line loop does not iterate self._find_decay_modes(mother): iterates `{txt(it)[:120]}`")
            continue
        # no slicing / filtering / reordering wrapper between the call and the loop
        top = it
        while isinstance(top, ast.Call) and isinstance(top.func, ast.Name) and top.func.id in ("list", "tuple", "iter") and len(top.args) == 1:
            top = top.args[0]
        if top is not fcalls[0]:
            ctx.violation("C09.1", ckey(ff, outer, "iter"), where(ff, outer),
                          f"decay lines are sliced, filtered or reordered before the loop: `{txt(it)[:120]}`")
            continue
        if len(loops) > 1:
            ctx.violation("C09.1", ckey(ff, st), where(ff, st), "append happens inside the per-daughter loop, not once per decay line")
            continue
        hdr = flow.cfg.node_of(outer)
        node = flow.cfg.node_of(st)
        lo, hi, _ = flow.cfg.count_per_iteration(hdr, lambda n, node=node: n.id == node)
        if (lo, hi) != (1, 1):
            ctx.violation("C09.1", ckey(ff, st), where(ff, st),
                          f"per decay line the entry is appended between {lo} and {'many' if hi >= 99 else hi} times, not exactly once "
                          "(some path through the loop body skips or repeats the append)")
        else:
            ctx.holds("C09.1", ckey(ff, st), where(ff, st), "exactly one append per iteration of the loop over self._find_decay_modes(mother)", 3)
        # the appended object is the details of the loop variable
        a = flow.expand(args[0]) if args else None
        ok = False
        if isinstance(a, ast.Call) and isinstance(a.func, ast.Attribute) and a.func.attr == "_decay_mode_details" and a.args:
            first = a.args[0]
            ok = (isinstance(first, ast.Call) and isinstance(first.func, ast.Name) and first.func.id == "__elem__"
                  and txt(first.args[0]) == txt(it))
        if ok:
            ctx.holds("C09.1", ckey(ff, st, "payload"), where(ff, st), "appended entry is self._decay_mode_details(<this line>)", 2)
        else:
            ctx.violation("C09.1", ckey(ff, st, "payload"), where(ff, st),
                          f"appended entry is not the details of the current decay line: `{txt(a)[:140] if a is not None else '?'}`")


def _stores_into_fs(ff, flow):
    out = []
    for st in pf.iter_stmts(ff.node.body):
        if isinstance(st, ast.Assign):
            for t in st.targets:
                if isinstance(t, ast.Subscript) and isinstance(t.value, ast.Subscript):
                    inner = t.value
                    if isinstance(inner.slice, ast.Constant) and inner.slice.value == "fs":
                        out.append((st, t))
                elif isinstance(t, ast.Subscript) and isinstance(t.value, ast.Name):
                    # the daughters list taken into a local first: fs_list = d["fs"]; fs_list[i] = ...
                    e = flow.expand(t.value)
                    if isinstance(e, ast.Subscript) and isinstance(e.slice, ast.Constant) and e.slice.value == "fs":
                        out.append((st, t))
    return out


def c09_2(ctx, ss):
    ff, flow = fn(ss, DEC, F)
    rec = _recursive_calls(ff)
    if not rec:
        ctx.violation("C09.2", ckey(ff), where(ff, ff.node), "no recursive call: daughters are never unfolded")
        return
    stores = _stores_into_fs(ff, flow)
    if not stores:
        ctx.violation("C09.2", ckey(ff, None, "no-replacement"), where(ff, rec[0]),
                      "the chain returned by the recursive call is never stored into the entry's daughters list: decaying daughters stay bare names")
        return
    for st, t in stores:
        idx = t.slice
        base = t.value            # d["fs"]
        k = ckey(ff, st)
        if not isinstance(idx, ast.Name):
            ctx.violation("C09.2", k, where(ff, st),
                          f"replacement position `{txt(idx)}` is not the loop index of the daughter (e.g. a value search picks the first equal daughter)")
            continue
        di = single_def(flow, idx)
        if di is None or di.kind != "for" or di.path != (0,) or not (
                isinstance(di.value, ast.Call) and isinstance(di.value.func, ast.Name) and di.value.func.id == "enumerate"
                and len(di.value.args) == 1 and not di.value.keywords):
            ctx.violation("C09.2", k, where(ff, st), f"replacement index `{idx.id}` is not the index of an enumerate() over the daughters")
            continue
        enum_arg = di.value.args[0]
        if flow.text(enum_arg) != flow.text(base):
            ctx.violation("C09.2", k, where(ff, st),
                          f"index enumerates `{flow.text(enum_arg)[:80]}` but the store writes into `{flow.text(base)[:80]}`")
            continue
        # value: recursive call on the daughter of the same iteration
        v = st.value
        vcall = None
        if isinstance(v, ast.Name):
            dv = single_def(flow, v)
            if dv is not None and dv.kind == "assign" and isinstance(dv.value, ast.Call):
                vcall = dv.value
        elif isinstance(v, ast.Call):
            vcall = v
        if vcall is None or not any(vcall is c for c in rec):
            ctx.violation("C09.2", k, where(ff, st), f"stored value `{txt(v)}` is not the chain returned by the recursive call")
            continue
        a0 = call_arg(vcall, 0, "mother")
        okd = False
        if isinstance(a0, ast.Name):
            da = single_def(flow, a0)
            okd = da is not None and da.kind == "for" and da.stmt is di.stmt and da.path == (1,)
        if not okd:
            ctx.violation("C09.2", k, where(ff, st),
                          f"recursive call unfolds `{txt(a0) if a0 is not None else '?'}`, not the daughter at the stored position")
            continue
        ctx.holds("C09.2", k, where(ff, st), "d['fs'][i] = build_decay_chains(fs, …) with (i, fs) from the same enumerate(d['fs'])", 4)
    ctx.count("call_sites", len(rec))


def c09_3(ctx, ss):
    ff, flow = fn(ss, DEC, F)
    rec = _recursive_calls(ff)
    if "stable_particles" not in ff.params:
        raise AnchorMissing(f"{F}: parameter stable_particles not found")
    pos = ff.params.index("stable_particles") - 1
    for c in rec:
        a = call_arg(c, pos, "stable_particles")
        k = ckey(ff, c)
        if a is None:
            ctx.violation("C09.3", k, where(ff, c), "recursive call does not pass stable_particles: sub-chains are built with the default (empty) stable set")
        elif flow.is_identity_of(a, "stable_particles", WRAP):
            ctx.holds("C09.3", k, where(ff, c), "stable_particles forwarded unchanged", 2)
        else:
            ctx.violation("C09.3", k, where(ff, c), f"recursive call passes `{flow.text(a)[:100]}` instead of the caller's stable set")
    # the parameter itself must not be rebound / mutated before use
    for d in flow.defs:
        if d.name == "stable_particles" and d.kind != "param":
            if not (d.kind == "assign" and is_identity(flow.expand(d.value), "stable_particles", WRAP)):
                ctx.violation("C09.3", ckey(ff, d.stmt), where(ff, d.stmt), "stable_particles is rebound to a different value inside the function")
    ctx.floor("C09.3", "recursive calls", len(rec), 1)


def c09_4(ctx, ss):
    ff, flow = fn(ss, DEC, F)
    for c in _recursive_calls(ff):
        st = stmt_of(ff, c)
        a0 = call_arg(c, 0, "mother")
        if a0 is None:
            raise AnchorMissing("recursive call without a mother argument")
        a0t = flow.text(a0)
        conds = [cd for cd in guards.path_conditions(ff.node, st) if cd[0] in ("if", "while")]

        def is_stable_test(e):
            e = flow.expand(e) if not getattr(e, "_expanded", False) else e
            if isinstance(e, ast.Compare) and len(e.ops) == 1 and isinstance(e.ops[0], (ast.In, ast.NotIn)):
                if txt(e.left) == a0t and is_identity(e.comparators[0], "stable_particles", WRAP):
                    return isinstance(e.ops[0], ast.In)
            return None

        def atom_true(e):     # assumption: daughter IS stable
            r = is_stable_test(e)
            return None if r is None else r

        def atom_false(e):    # assumption: daughter is NOT stable
            r = is_stable_test(e)
            return None if r is None else (not r)

        def benign(e):
            e = flow.expand(e)
            return isinstance(e, ast.Call) and isinstance(e.func, ast.Name) and e.func.id == "isinstance"

        k = ckey(ff, c)
        r1 = guards.reachable_under(conds, atom_true, flow)
        if r1 is False:
            ctx.holds("C09.4", k + " :: stable=>cut", where(ff, c), "assuming the daughter is in stable_particles the recursive call is unreachable", len(conds) + 1)
        else:
            ctx.violation("C09.4", k + " :: stable=>cut", where(ff, c),
                          "a daughter listed in stable_particles can still reach the recursive call (no membership guard dominates it)")
        extra = []
        for kind, e, pol in conds:
            ex = flow.expand(e)
            v = guards.k3(ex, atom_false)
            if v is None and not benign(e):
                extra.append((e, pol))
            elif v is not None and v != pol:
                extra.append((e, pol))
        if extra:
            e, pol = extra[0]
            ctx.violation("C09.4", k + " :: unstable=>unfold", where(ff, c),
                          f"the recursion is additionally conditional on `{'' if pol else 'not '}{txt(e)}`: some non-stable daughters are not unfolded")
        else:
            ctx.holds("C09.4", k + " :: unstable=>unfold", where(ff, c), "no other condition guards the recursive call", len(conds) + 1)


def c09_5(ctx, ss):
    ff, flow = fn(ss, DEC, F)
    for c in _recursive_calls(ff):
        parts = enclosing_try_parts(ff, c)
        k = ckey(ff, c)
        body_tries = [p for p in parts if p[1] == "body"]
        if not body_tries:
            ctx.violation("C09.5", k, where(ff, c), "recursive call is not protected by a DecayNotFound handler: a daughter without a table aborts the chain")
            continue
        bad = False
        for t, _, _ in body_tries:
            for h in t.handlers:
                names = handler_names(h)
                if names != ["DecayNotFound"]:
                    ctx.violation("C09.5", ckey(ff, h, "handler"), where(ff, h),
                                  f"handler around the recursion catches {names}, wider than DecayNotFound: real errors are swallowed and the daughter silently left bare")
                    bad = True
                elif any(isinstance(x, (ast.Raise, ast.Return, ast.Break)) for s in h.body for x in ast.walk(s)):
                    # (`continue` is accepted: it moves on to the next daughter, leaving this one bare — the same as `pass` when the
                    #  only work left in the iteration is the store of the sub-chain)
                    ctx.violation("C09.5", ckey(ff, h, "handler"), where(ff, h), "DecayNotFound handler does not simply keep the bare name (it exits the loop or re-raises)")
                    bad = True
            if t.finalbody:
                raise AnchorMissing("finally block around the recursion not understood")
        if not bad:
            ctx.holds("C09.5", k, where(ff, c), "recursion wrapped by `except DecayNotFound` only", 2)
    # top-level lookup outside any handler
    tops = [c for c in method_calls(ff, ("_find_decay_modes",), ("self",))]
    if not tops:
        raise AnchorMissing(f"{F}: no call to _find_decay_modes")
    for c in tops:
        a0 = call_arg(c, 0, "mother")
        if a0 is None or not flow.is_identity_of(a0, "mother"):
            continue
        parts = [p for p in enclosing_try_parts(ff, c) if p[1] == "body"]
        if parts:
            ctx.violation("C09.5", ckey(ff, c, "toplevel"), where(ff, c), "the top-level lookup of the mother is inside a try: the documented DecayNotFound no longer propagates")
        else:
            ctx.holds("C09.5", ckey(ff, c, "toplevel"), where(ff, c), "top-level _find_decay_modes(mother) is outside any handler", 1)
    # _find_decay_modes raises DecayNotFound on fall-through
    gf, gflow = fn(ss, DEC, "DecFileParser._find_decay_modes")
    cfg = gflow.cfg
    rets = returns(gf)
    ret_nodes = {cfg.node_of(r) for r in rets}
    falls = cfg.reachable(cfg.entry, cfg.exit, avoid=ret_nodes, skip_labels=("exc", "raise", "assertfail"))
    raises = [n for n in pf.walk_no_nested(gf.node) if isinstance(n, ast.Raise)]
    rn = [r for r in raises if r.exc is not None and "DecayNotFound" in txt(r.exc)]
    if falls or not rn:
        ctx.violation("C09.5", ckey(gf, None, "fallthrough"), where(gf, gf.node),
                      "_find_decay_modes can finish without returning a table and without raising DecayNotFound")
    else:
        ctx.holds("C09.5", ckey(gf, None, "fallthrough"), where(gf, rn[0]), "every path without a matching table ends in raise DecayNotFound", len(rets) + len(rn))
    # the search: first table, among ALL parsed tables, whose mother name equals the argument (loop or next(generator) form)
    from ..core.search import searches
    found = searches(gf.node)
    if not found:
        raise AnchorMissing("_find_decay_modes: no first-match search (loop with return / next(generator)) recognised")
    mparam = gf.params[1] if len(gf.params) > 1 else "mother"
    for sr in found:
        it = txt(gflow.expand(sr.iter))
        guarded = [c for c in guards.path_conditions(gf.node, sr.anchor) if c[0] in ("if", "exc")]
        okl = it in ("self._parsed_decays", "list(self._parsed_decays)", "tuple(self._parsed_decays)") and not sr.early_exit and not guarded
        (ctx.holds if okl else ctx.violation)("C09.5", ckey(gf, None, "all-tables"), where(gf, sr.anchor),
                                              "the table of the mother is searched among all parsed decay tables" if okl
                                              else f"_find_decay_modes does not look through every table (`{it[:60]}`{', leaves the search early' if sr.early_exit else ''}): mothers beyond it are 'not found'")
        extra = [txt(e) for e, pol in sr.extra] + [txt(e) for e, pol in sr.preds if "get_decay_mother_name" not in txt(e)]
        if extra:
            ctx.violation("C09.5", ckey(gf, sr.ret, "extra-guard"), where(gf, sr.ret), f"the table lookup additionally depends on `{extra[0][:80]}` (e.g. a memo of earlier misses): an existing table can be reported as not found")
        eqs = [(e, pol) for e, pol in sr.preds if "get_decay_mother_name" in txt(e)]
        ok = len(eqs) == 1 and eqs[0][1] is True and isinstance(eqs[0][0], ast.Compare) and len(eqs[0][0].ops) == 1 and isinstance(eqs[0][0].ops[0], ast.Eq)
        if ok:
            sides = [eqs[0][0].left, eqs[0][0].comparators[0]]
            names = [x for x in sides if isinstance(x, ast.Call) and txt(x.func).endswith("get_decay_mother_name") and len(x.args) == 1 and txt(x.args[0]) == sr.var]
            other = [x for x in sides if not (isinstance(x, ast.Call) and txt(x.func).endswith("get_decay_mother_name"))]
            ok = len(names) == 1 and len(other) == 1 and gflow.is_identity_of(other[0], mparam)
        fd = [c for c in ast.walk(sr.result) if isinstance(c, ast.Call) and isinstance(c.func, ast.Attribute) and c.func.attr == "find_data"]
        same_tree = bool(fd) and txt(fd[0].func.value) == sr.var
        lit = bool(fd) and fd[0].args and isinstance(fd[0].args[0], ast.Constant) and fd[0].args[0].value == "decayline"
        if ok and same_tree and lit:
            ctx.holds("C09.5", ckey(gf, None, "hit"), where(gf, sr.ret), "returns the decaylines of the tree whose mother name equals the argument", 3)
        else:
            ctx.violation("C09.5", ckey(gf, None, "hit"), where(gf, sr.ret),
                          f"_find_decay_modes returns `{txt(sr.result)[:100]}` not guarded by mother-name equality of the same tree")
    ctx.count("functions", 2)


def c09_6(ctx, ss):
    ff, flow = fn(ss, DEC, F)
    r, key, val = _result_builder(ff, flow)
    # the model field is the bare model name (no PHOTOS prefix) in chains
    dcalls = method_calls(ff, ("_decay_mode_details",), ("self",))
    okp = bool(dcalls) and all((a := call_arg(c, 1, "display_photos_keyword")) is not None and isinstance(a, ast.Constant) and a.value is False for c in dcalls)
    (ctx.holds if okp else ctx.violation)("C09.6", ckey(ff, None, "bare-model"), where(ff, dcalls[0] if dcalls else ff.node),
                                          "chain entries carry the bare model name (display_photos_keyword=False)" if okp
                                          else "chain entries are built with the PHOTOS keyword prefixed to the model name: the `model` field is no longer the line's model")
    if flow.is_identity_of(key, "mother"):
        ctx.holds("C09.6", ckey(ff, r, "key"), where(ff, r), "result is keyed by the mother parameter", 1)
    else:
        ctx.violation("C09.6", ckey(ff, r, "key"), where(ff, r), f"result key is `{flow.text(key)}`, not the requested mother")
    # no write to parser state, no module-level memo
    bad = []
    for n in pf.walk_no_nested(ff.node):
        tgt = None
        if isinstance(n, (ast.Assign, ast.AugAssign, ast.AnnAssign)):
            ts = n.targets if isinstance(n, ast.Assign) else [n.target]
            for t in ts:
                base = t
                while isinstance(base, (ast.Attribute, ast.Subscript)):
                    base = base.value
                if isinstance(t, (ast.Attribute, ast.Subscript)) and isinstance(base, ast.Name):
                    ds = flow.defs_of(base) if isinstance(base.ctx, ast.Load) else []
                    if base.id == "self" or any(d.kind == "global" for d in ds):
                        bad.append(n)
        elif isinstance(n, (ast.Global, ast.Nonlocal)):
            bad.append(n)
    for n in bad:
        ctx.violation("C09.6", ckey(ff, n), where(ff, n), "build_decay_chains writes parser or module state (result would depend on earlier calls)")
    if not bad:
        ctx.holds("C09.6", ckey(ff, None, "no-state-write"), where(ff, ff.node), "no store to self.* or module state in build_decay_chains", 1)
    no_state_effects(ctx, ss, "C09.6", ff)


def _shared_attr(ss, ff, attr_root: str) -> bool:
    """Is `self.X` an attribute shared by all instances (declared in the class body and never bound on the instance)?"""
    if not attr_root.startswith("self."):
        return True          # module / class-level name
    name = attr_root[5:].split(".")[0].split("[")[0]
    mf = pf.module_facts(ss, ff.module)
    cf = mf.classes.get(ff.cls) if ff.cls else None
    if cf is None:
        return False
    in_body = name in cf.class_attrs
    bound_on_instance = any(isinstance(n, (ast.Assign, ast.AnnAssign)) and any(isinstance(t, ast.Attribute) and t.attr == name and txt(t.value) == "self"
                                                                                for t in (n.targets if isinstance(n, ast.Assign) else [n.target]))
                            for m in cf.methods.values() for n in pf.walk_no_nested(m.node))
    return in_body and not bound_on_instance


def no_state_effects(ctx, ss, rule, ff, shared_only: bool = False):
    """Effect analysis: nothing the function runs (helpers, lookups, accessors) writes parser / class / module state.
    shared_only: only state shared between parser instances counts (a per-instance memo is C08's business, not this rule's)."""
    from ..core.effects import effects
    ef = effects(ss)
    ws = [w for w in ef.transitive_state_writes(ff.key) if not (w.root[0] == "state" and w.root[1] in ("self._grammar", "self._grammar_info"))]
    if shared_only:
        ws = [w for w in ws if w.root[0] != "state" or _shared_attr(ss, ef.cg.funcs[w.func], w.root[1])]
    k = ckey(ff, None, "no-state-effects")
    st = [w for w in ws if w.root[0] == "state"]
    if st:
        w = st[0]
        wf = ef.cg.funcs[w.func]
        ctx.violation(rule, k, where(wf, w.node), f"{ff.qualname} (through {wf.qualname}) writes {w.root[1]} ({w.how}): what it returns depends on earlier calls, possibly of other parser instances")
    else:
        ctx.holds(rule, k, where(ff, ff.node), f"{ff.qualname} and everything it calls on the parser write no parser / class / module state", len(ws) + 1)
