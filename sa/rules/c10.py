"""C10 — expansion enumerates every complete decay path once (DESIGN.md §4 C10)."""
from __future__ import annotations

import ast

from ..core import guards
from ..core import pyfacts as pf
from ..core.defuse import is_identity
from ..core.larkfacts import grammar_facts
from ..core.match import call_arg, phi_alts, txt
from ..core.source import AnchorMissing
from .common import DEC, DECAY, DECGRAMMAR, UTIL, builder_sites, ckey, enclosing, fn, is_empty_list, returns, single_def, stmt_of, where

PROP = "C10"
FILES = [DEC, DECAY, UTIL, DECGRAMMAR]
EXPLANATION = (
    "C10.1 in _expand_decay_modes each daughter contributes exactly one factor (dict daughters: their own expanded modes, "
    "plain names: themselves), the factor list is re-initialised per mode and itertools.product receives all of it; C10.2 "
    "nullable flow: a decay table with no lines (grammatical) must not reach the product as an empty factor — checked "
    "link by link (grammar, _find_decay_modes, build_decay_chains, factor construction); C10.3 the recursion forwards "
    "aliases and top=False, and the public entry passes the file's aliases and the full chain; C10.4 each descriptor is "
    "format_descriptor(alias-resolved mother, canonical daughters string of the chosen tuple, top) appended once per tuple.")
NOT_DECIDED = ["the count formula as arithmetic over runtime tables", "equality with an independently enumerated path set"]
E = "_expand_decay_modes"


def run(ctx, ss):
    for r, f in (("C10.1", c10_1), ("C10.2", c10_2), ("C10.3", c10_3), ("C10.4", c10_4)):
        ctx.guard(r, f, ss)
    # the expansion is computed from the chain dictionary of build_decay_chains: share its lookup / purity clauses
    from .c05 import _as
    from .c09 import c09_5, no_state_effects
    ctx.guard("C10.5", lambda c, s: _as(c, s, c09_5, "C10.5"), ss)
    ctx.guard("C10.5", lambda c, s: no_state_effects(c, s, "C10.5", pf.func(s, DEC, "DecFileParser.expand_decay_modes")), ss)
    from .shared import memo_discipline, reading_path
    ctx.guard("C10.5", memo_discipline, ss, "C10.5", ["decay/decay.py:_expand_decay_modes"], "an expansion")
    ctx.guard("C10.5", reading_path, ss, "C10.5", ["DecFileParser.expand_decay_modes"], "an expansion")
    # C10.6 'each descriptor spells out precisely that choice': the renderer formats every (mother, daughters) pair with the pattern in force (C13.2 shared)
    from .c13 import c13_2
    ctx.guard("C10.6", lambda c, s: _as(c, s, c13_2, "C10.6"), ss)


def _product_call(ff):
    cs = [c for c in pf.calls_in(ff.node) if txt(c.func) in ("product", "itertools.product")]
    if len(cs) != 1:
        raise AnchorMissing(f"{E}: expected one itertools.product call, found {len(cs)}")
    return cs[0]


def c10_1(ctx, ss):
    ff, flow = fn(ss, DECAY, E)
    pc = _product_call(ff)
    k = ckey(ff, None, "product")
    if not (len(pc.args) == 1 and isinstance(pc.args[0], ast.Starred) and isinstance(pc.args[0].value, ast.Name) and not pc.keywords):
        ctx.violation("C10.1", k + " :: all-factors", where(ff, pc), f"itertools.product receives `{txt(pc)[:80]}`: not one factor per daughter (sliced / partial / repeated)")
        return
    name = pc.args[0].value.id
    d = single_def(flow, pc.args[0].value)
    if d is None or d.kind != "assign" or not is_empty_list(d.value):
        ctx.violation("C10.1", k + " :: all-factors", where(ff, pc), "the factor list reaching itertools.product is not a list initialised empty exactly once per mode")
        return
    ctx.holds("C10.1", k + " :: all-factors", where(ff, pc), f"product(*{name}) with {name} the complete factor list", 2)
    # initialised inside the per-mode loop that also contains the product
    mode_loops = enclosing(ff, stmt_of(ff, pc), (ast.For,))
    init_loops = enclosing(ff, d.stmt, (ast.For,))
    if mode_loops and init_loops and init_loops[0] is mode_loops[-1]:
        ctx.holds("C10.1", k + " :: per-mode", where(ff, d.stmt), "the factor list is re-initialised for every decay mode", 1)
    else:
        ctx.violation("C10.1", k + " :: per-mode", where(ff, d.stmt), "the factor list is not re-initialised per decay mode: factors of earlier modes leak into later products")
    sites = builder_sites(ff, flow, name)
    apps = [s for s in sites if s[1] == "append"]
    other = [s for s in sites if s[1] != "append"]
    for st, m, _ in other:
        ctx.violation("C10.1", ckey(ff, st), where(ff, st), f"the factor list is also changed by `{m}`")
    seen_kinds = {}
    fs_loop = None
    for st, _, args in apps:
        lps = enclosing(ff, st, (ast.For,))
        if not lps:
            raise AnchorMissing("factor append outside a loop")
        fs_loop = lps[0]
        conds = [c for c in guards.path_conditions(ff.node, st, stop_at=fs_loop) if c[0] == "if"]
        kinds = [txt(e) for _, e, pol in conds if pol]
        a = args[0]
        tv = isinstance(fs_loop.target, ast.Name) and fs_loop.target.id
        if any(kk.replace(" ", "") == f"isinstance({tv},dict)" for kk in kinds):
            seen_kinds["dict"] = (st, a)
        elif any(kk.replace(" ", "") == f"isinstance({tv},str)" for kk in kinds):
            seen_kinds["str"] = (st, a)
        else:
            ctx.violation("C10.1", ckey(ff, st), where(ff, st), f"a factor is appended under `{kinds}`: not one of the two daughter kinds (dict / str)")
    if fs_loop is None:
        ctx.violation("C10.1", k + " :: factors", where(ff, pc), "no factor is ever appended")
        return
    it = txt(flow.expand(fs_loop.iter))
    if not it.startswith("_get_fs(__elem__(_get_modes(decay_chain)))"):
        ctx.violation("C10.1", ckey(ff, None, "over-all-daughters"), where(ff, fs_loop), f"factors are collected over `{it[:80]}`, not over every daughter of the mode")
    else:
        ctx.holds("C10.1", ckey(ff, None, "over-all-daughters"), where(ff, fs_loop), "factors are collected over every daughter of the mode, in order", 1)
    hdr = flow.cfg.node_of(fs_loop)
    nodes = {flow.cfg.node_of(st) for st, _, _ in apps}
    lo, hi, _ = flow.cfg.count_per_iteration(hdr, lambda n: n.id in nodes)
    if hi > 1:
        ctx.violation("C10.1", ckey(ff, None, "one-factor"), where(ff, fs_loop), "a daughter can contribute more than one factor")
    elif set(seen_kinds) != {"dict", "str"}:
        ctx.violation("C10.1", ckey(ff, None, "one-factor"), where(ff, fs_loop),
                      f"only daughters of kind {sorted(seen_kinds)} contribute a factor: the others silently shorten every product (paths lost)")
    else:
        ctx.holds("C10.1", ckey(ff, None, "one-factor"), where(ff, fs_loop), "every daughter (dict or str) contributes exactly one factor", 3)
    if "str" in seen_kinds:
        st, a = seen_kinds["str"]
        ok = isinstance(a, ast.List) and len(a.elts) == 1 and txt(a.elts[0]) == fs_loop.target.id
        (ctx.holds if ok else ctx.violation)("C10.1", ckey(ff, None, "str-factor"), where(ff, st),
                                              "a plain daughter contributes [itself]" if ok else f"a plain daughter contributes `{txt(a)[:60]}`")
    if "dict" in seen_kinds:
        st, a = seen_kinds["dict"]
        ae = flow.expand(a)
        t = txt(ae)
        core = ae
        if isinstance(core, ast.BoolOp) and isinstance(core.op, ast.Or) and len(core.values) == 2 and isinstance(core.values[1], (ast.List, ast.Tuple)) \
                and len(core.values[1].elts) == 1:
            core = core.values[0]
        ok = isinstance(core, ast.Call) and txt(core.func) == "_get_modes" and len(core.args) == 1 and \
            txt(core.args[0]) == f"__elem__({txt(flow.expand(fs_loop.iter))})"
        (ctx.holds if ok else ctx.violation)("C10.1", ckey(ff, None, "dict-factor"), where(ff, st),
                                              "a decaying daughter contributes its own expanded modes" if ok else f"a decaying daughter contributes `{t[:60]}`")


def c10_2(ctx, ss):
    gf = grammar_facts(ss, DECGRAMMAR)
    l1 = "T:particle" in set(gf.word_strs("decay"))
    # L2: _find_decay_modes returns the tuple without an emptiness check
    f2, fl2 = fn(ss, DEC, "DecFileParser._find_decay_modes")
    l2 = True
    for r in returns(f2):
        conds = [txt(fl2.expand(e)) for kind, e, pol in guards.path_conditions(f2.node, r) if kind == "if"]
        if any("find_data('decayline')" in c for c in conds) or isinstance(r.value, ast.BoolOp):
            l2 = False
    # L3: build_decay_chains nests the result of the recursion without an emptiness check
    f3, fl3 = fn(ss, DEC, "DecFileParser.build_decay_chains")
    l3 = True
    for st in pf.iter_stmts(f3.node.body):
        if isinstance(st, ast.Assign) and isinstance(st.targets[0], ast.Subscript) and "build_decay_chains" in fl3.text(st.value):
            conds = [txt(e) for kind, e, pol in guards.path_conditions(f3.node, st) if kind == "if"]
            vn = txt(st.value)
            if any(vn in c for c in conds):
                l3 = False
    # L4: the dict branch appends the daughter's modes without a non-empty fallback
    f4, fl4 = fn(ss, DECAY, E)
    pc = _product_call(f4)
    name = pc.args[0].value.id if pc.args and isinstance(pc.args[0], ast.Starred) and isinstance(pc.args[0].value, ast.Name) else None
    l4 = True
    site = None
    if name:
        for st, m, args in builder_sites(f4, fl4, name):
            a = fl4.expand(args[0]) if args else None
            if a is not None and "_get_modes(" in txt(a):
                site = st
                if isinstance(a, ast.BoolOp) and isinstance(a.op, ast.Or) and txt(a.values[0]).startswith("_get_modes("):
                    fb = a.values[1]
                    if isinstance(fb, (ast.List, ast.Tuple)) and len(fb.elts) == 1:
                        l4 = False
                if isinstance(a, ast.IfExp):
                    l4 = False
                conds = [txt(e) for kind, e, pol in guards.path_conditions(f4.node, st) if kind == "if"]
                if any("_get_modes(" in c and "isinstance" not in c for c in conds):
                    l4 = False
    k = f"{DECAY}:{E} :: empty-block-erases-paths"
    links = {"grammar allows an empty Decay block": l1, "_find_decay_modes returns an empty tuple unchecked": l2,
             "build_decay_chains nests the empty chain unchecked": l3, "the dict daughter's (empty) mode list becomes a product factor": l4}
    if all(links.values()):
        ctx.violation("C10.2", k, where(f4, site or f4.node),
                      "a daughter declared stable through an empty Decay block reaches itertools.product as an EMPTY factor: every path through it "
                      "vanishes from the expansion (" + "; ".join(links) + ")", 4)
    else:
        broken = [n for n, v in links.items() if not v]
        ctx.holds("C10.2", k, where(f4, site or f4.node), f"an empty decay table cannot become an empty product factor (guarded: not `{broken[0]}`)", 4)


def c10_3(ctx, ss):
    ff, flow = fn(ss, DECAY, E)
    rec = [c for c in pf.calls_in(ff.node) if txt(c.func) == E]
    if not rec:
        ctx.violation("C10.3", ckey(ff, None, "recursion"), where(ff, ff.node), "sub-decays are never expanded (no recursive call)")
        return
    for c in rec:
        k = ckey(ff, None, "recursive-call")
        a = call_arg(c, None, "aliases")
        if a is not None and flow.is_identity_of(a, "aliases"):
            ctx.holds("C10.3", k + " :: aliases", where(ff, c), "aliases forwarded to the recursion", 1)
        else:
            ctx.violation("C10.3", k + " :: aliases", where(ff, c), "aliases are not forwarded to the recursion: decaying aliases below the top level keep their alias name")
        t = call_arg(c, None, "top")
        if t is not None and isinstance(t, ast.Constant) and t.value is False:
            ctx.holds("C10.3", k + " :: top", where(ff, c), "nested levels are rendered with top=False", 1)
        else:
            ctx.violation("C10.3", k + " :: top", where(ff, c), "nested levels are not rendered with top=False")
        # recursion runs on every dict daughter of every mode
        lps = enclosing(ff, c, (ast.For,))
        ok = len(lps) == 2 and txt(flow.expand(lps[1].iter)) == "_get_modes(decay_chain)" and txt(lps[0].iter).startswith("_get_fs(")
        conds = [txt(e).replace(" ", "") for kind, e, pol in guards.path_conditions(ff.node, stmt_of(ff, c), stop_at=lps[-1] if lps else None) if kind == "if" and pol]
        okc = len(conds) == 1 and conds[0].startswith("isinstance(") and conds[0].endswith(",dict)")
        (ctx.holds if ok and okc else ctx.violation)("C10.3", k + " :: everywhere", where(ff, c),
                                                     "every dict daughter of every mode is expanded recursively" if ok and okc
                                                     else "the recursive expansion does not visit every dict daughter of every mode")
    # public entry
    pf_, pflow = fn(ss, DEC, "DecFileParser.expand_decay_modes")
    calls = [c for c in pf.calls_in(pf_.node) if txt(c.func) == E]
    ok = len(calls) == 1 and call_arg(calls[0], None, "aliases") is not None and pflow.text(call_arg(calls[0], None, "aliases")) == "self.dict_aliases()" \
        and calls[0].args and pflow.text(calls[0].args[0]) == "self.build_decay_chains(particle)" \
        and (call_arg(calls[0], None, "top") is None or txt(call_arg(calls[0], None, "top")) == "True")
    (ctx.holds if ok else ctx.violation)("C10.3", ckey(pf_, None, "entry"), where(pf_, pf_.node),
                                          "expand_decay_modes(p) = _expand_decay_modes(build_decay_chains(p), aliases=dict_aliases())" if ok
                                          else "the public entry does not pass the full chain of the particle and the file's aliases")
    r = returns(pf_)
    okr = len(r) == 1 and (r[0].value is calls[0] if calls else False)
    if calls and not okr:
        ctx.violation("C10.3", ckey(pf_, None, "entry-returns"), where(pf_, pf_.node), "the public entry does not return the expansion unchanged")


def c10_4(ctx, ss):
    ff, flow = fn(ss, DECAY, E)
    pc = _product_call(ff)
    fd = [c for c in pf.calls_in(ff.node) if txt(c.func).endswith("format_descriptor")]
    if len(fd) != 1:
        raise AnchorMissing(f"{E}: expected one format_descriptor call")
    c = fd[0]
    k = ckey(ff, None, "descriptor")
    a = [flow.expand(x) for x in c.args]
    if len(a) != 3 or c.keywords:
        raise AnchorMissing("format_descriptor call shape not understood")
    mother_ok = txt(a[0]) in ("aliases.get(next(iter(decay_chain)), next(iter(decay_chain))) if aliases else next(iter(decay_chain))",
                              "aliases.get(next(iter(decay_chain)), next(iter(decay_chain))) if aliases else next(iter(decay_chain))")
    (ctx.holds if mother_ok else ctx.violation)("C10.4", k + " :: mother", where(ff, c),
                                                "mother = alias-resolved key of the chain" if mother_ok else f"the descriptor's mother is `{txt(a[0])[:100]}`")
    want_fs = f"DaughtersDict(__elem__({txt(flow.expand(pc))})).to_string()"
    fs_ok = txt(a[1]) == want_fs
    (ctx.holds if fs_ok else ctx.violation)("C10.4", k + " :: daughters", where(ff, c),
                                            "daughters = DaughtersDict(<chosen tuple>).to_string() (canonical multiset order)" if fs_ok
                                            else f"the descriptor's daughters are `{txt(a[1])[:120]}`, not the canonical string of the chosen tuple")
    top_ok = is_identity(a[2], "top")
    (ctx.holds if top_ok else ctx.violation)("C10.4", k + " :: top", where(ff, c), "the top flag is passed through" if top_ok else f"the top flag passed is `{txt(a[2])}`")
    # appended once per tuple, returned and stored
    rets = returns(ff)
    # every exit must hand back the descriptors built from THIS chain's modes
    acc = [r for r in rets if isinstance(r.value, ast.Name) and any(
        d.kind == "assign" and is_empty_list(d.value) for d in flow.defs if d.name == r.value.id)]
    for r in rets:
        if r not in acc:
            ctx.violation("C10.4", k + " :: other-exit", where(ff, r),
                          f"`return {txt(r.value)[:70]}` hands back something other than the descriptors built from this chain's own decay lines "
                          "(e.g. a memo shared between sub-chains: two decaying names resolving to one key get each other's descriptors)")
    rn = acc[0].value.id if acc else None
    if rn is None:
        raise AnchorMissing(f"{E}: no exit returns a locally accumulated descriptor list")
    rets = acc
    sites = builder_sites(ff, flow, rn)
    ploop = enclosing(ff, c, (ast.For,))
    adds = [st for st, m, args in sites if m in ("append", "iadd")]
    ok = False
    if len(adds) == 1 and ploop and ploop[0].iter is pc:
        hdr = flow.cfg.node_of(ploop[0])
        node = flow.cfg.node_of(adds[0])
        lo, hi, _ = flow.cfg.count_per_iteration(hdr, lambda n, node=node: n.id == node)
        payload = [args for st, m, args in sites if st is adds[0]][0][0]
        pt = flow.text(payload)
        ok = (lo, hi) == (1, 1) and "format_descriptor(" in pt
    (ctx.holds if ok else ctx.violation)("C10.4", k + " :: once", where(ff, adds[0] if adds else ff.node),
                                         "exactly one descriptor is added per element of the product" if ok else "descriptors are not added exactly once per element of the product")
    # the expansion is stored back into the chain dictionary: that is how the parent level reads its daughters' descriptors
    sb = [s_ for s_ in pf.iter_stmts(ff.node.body) if isinstance(s_, ast.Assign) and isinstance(s_.targets[0], ast.Subscript)
          and txt(s_.targets[0].value) == "decay_chain" and txt(s_.value) == rn]
    oksb = len(sb) == 1 and flow.text(sb[0].targets[0].slice) in ("next(iter(decay_chain))", "next(iter(decay_chain))") and flow.cfg.must_pass({flow.cfg.node_of(sb[0])})
    (ctx.holds if oksb else ctx.violation)("C10.4", k + " :: store-back", where(ff, sb[0] if sb else ff.node),
                                           "the descriptors replace the mode list in the chain dictionary (read by the enclosing level)" if oksb
                                           else "the descriptors are not stored back under the chain's own key: the enclosing level would multiply out raw mode dictionaries")
    dflt = {a.arg: d for a, d in zip(ff.node.args.kwonlyargs, ff.node.args.kw_defaults)}
    okt = "top" in dflt and isinstance(dflt["top"], ast.Constant) and dflt["top"].value is True
    (ctx.holds if okt else ctx.violation)("C10.4", k + " :: top-default", where(ff, ff.node), "top defaults to True" if okt else "`top` no longer defaults to True: top-level descriptors are rendered like nested ones")
    init = single_def(flow, rets[0].value)
    ok_init = init is not None and init.kind in ("assign", "aug")
    # the accumulator must be initialised empty outside the mode loop
    inits = [d for d in flow.defs if d.name == rn and d.kind == "assign"]
    ok_init = len(inits) == 1 and is_empty_list(inits[0].value) and not enclosing(ff, inits[0].stmt, (ast.For,))
    (ctx.holds if ok_init else ctx.violation)("C10.4", k + " :: accumulate", where(ff, inits[0].stmt if inits else ff.node),
                                              "descriptors of all modes accumulate in one list" if ok_init else "the descriptor list is reset or not initialised empty")
