"""C11 — class, dictionary and parser forms convert losslessly (DESIGN.md §4 C11)."""
from __future__ import annotations

import ast

from ..core import guards
from ..core import pyfacts as pf
from ..core.match import canon, call_arg, phi_alts, txt
from ..core.source import AnchorMissing
from .common import DECAY, builder_sites, ckey, enclosing, fn, returns, single_def, stmt_of, where

PROP = "C11"
FILES = [DECAY]
EXPLANATION = (
    "C11.1 writer/reader agreement of DecayMode: to_dict writes bf, fs and every metadata key; from_dict forwards a deep "
    "copy of the WHOLE input as keywords; __init__ takes fs as the daughters and stores every other keyword; C11.2 "
    "DecayChain.to_dict replaces a decaying daughter at every position (enumerate index, no break, guard = membership in "
    "the decay map only); C11.3 the dictionary reader must accept what that writer emits (the same mother key once per "
    "position); C11.4 one canonical order and multiplicity-aware length/iteration of final states; C11.5 from_pdgids maps "
    "every id and forwards bf and metadata; C11.6 the DaughtersDict constructor normalises str / mapping / iterable input; "
    "C11.7 the reader replaces each nested dictionary by its key at the same position and recurses into that element.")
NOT_DECIDED = ["equality of the rebuilt object with the original (needs execution)", "parser-form round trip 'up to order'"]


def run(ctx, ss):
    for r, f in (("C11.1", c11_1), ("C11.2", c11_2), ("C11.3", c11_3), ("C11.4", c11_4), ("C11.5", c11_5), ("C11.6", c11_6), ("C11.7", c11_7), ("C11.7", c11_7b), ("C11.7", c11_7c), ("C11.7", c11_8)):
        ctx.guard(r, f, ss)
    # C11.8: nothing on the way from the observed entry points is memoised on a parser / tree / path / container (shared.py)
    from .shared import memo_for
    ctx.guard("C11.8", memo_for, ss, "C11", "C11.8", "a conversion")
    ctx.guard("C11.1", chain_ctor_clauses, ss, "C11.1")


def c11_1(ctx, ss):
    # writer
    ff, flow = fn(ss, DECAY, "DecayMode.to_dict")
    rets = returns(ff)
    if len(rets) != 1 or not isinstance(rets[0].value, ast.Name):
        raise AnchorMissing("DecayMode.to_dict: return is not a local dict")
    nm = rets[0].value.id
    d = single_def(flow, rets[0].value)
    k = ckey(ff, None, "writer")
    from .common import dict_entries
    ents, est, econd = dict_entries(ff, flow, nm)
    base = {k_.strip("'\""): txt(v) for k_, v in ents if k_ != "**"}
    ok_base = base.get("bf") == "self.bf" and base.get("fs") in ("self.daughters.to_list()", "sorted(self.daughters.elements())")
    (ctx.holds if ok_base else ctx.violation)("C11.1", k + " :: bf-fs", where(ff, ff.node),
                                              "to_dict writes bf = self.bf and fs = self.daughters.to_list()" if ok_base else f"to_dict starts from {base}")
    spreads = [txt(v) for k_, v in ents if k_ == "**"]
    # every metadata key is written, after bf / fs (so that the dictionary form has them all)
    ok_u = spreads == ["self.metadata"] and not econd and ents and ents[-1][0] == "**"
    (ctx.holds if ok_u else ctx.violation)("C11.1", k + " :: metadata", where(ff, ff.node),
                                           "to_dict adds every metadata key (update / ** of self.metadata)" if ok_u else "to_dict does not write all metadata keys: user metadata is lost in the dictionary form")
    dels = [n for n in pf.walk_no_nested(ff.node) if isinstance(n, ast.Delete) or (isinstance(n, ast.Call) and isinstance(n.func, ast.Attribute) and n.func.attr in ("pop", "popitem", "clear"))]
    if dels:
        ctx.violation("C11.1", k + " :: drops", where(ff, dels[0]), "to_dict removes keys from the dictionary it returns")
    # reader
    ff, flow = fn(ss, DECAY, "DecayMode.from_dict")
    rets = returns(ff)
    k = ckey(ff, None, "reader")
    ok = False
    why = "no single return"
    rv = rets[0].value if len(rets) == 1 else None
    if isinstance(rv, ast.Name):
        d_ = single_def(flow, rv)
        rv = d_.value if d_ is not None and d_.kind == "assign" and d_.path == () else rv
    if isinstance(rv, ast.Call) and txt(rv.func) in ("cls", "DecayMode"):
        c = rv
        star = [kw for kw in c.keywords if kw.arg is None]
        if len(star) == 1 and not c.args and len(c.keywords) == 1:
            src = txt(flow.expand(star[0].value))
            if src in ("deepcopy(decay_mode_dict)", "copy.deepcopy(decay_mode_dict)", "dict(decay_mode_dict)", "decay_mode_dict"):
                ok = True
                # nothing is removed from the copy before the call
                nm = star[0].value.id if isinstance(star[0].value, ast.Name) else None
                if nm and any(m in ("pop", "popitem", "clear") for st, m, a in builder_sites(ff, flow, nm)) or \
                        any(isinstance(n, ast.Delete) for n in pf.walk_no_nested(ff.node)):
                    ok, why = False, "keys are removed from the input before it is forwarded"
            else:
                why = f"forwards `{src[:80]}`"
        else:
            why = f"constructs the mode with `{txt(c)[:80]}`: not every key of the input is forwarded"
    (ctx.holds if ok else ctx.violation)("C11.1", k, where(ff, ff.node), "from_dict forwards (a copy of) the whole input dictionary as keywords" if ok
                                          else f"from_dict: {why} — metadata keys of the dictionary form are dropped")
    ctor_clauses(ctx, ss, "C11.1")


def ctor_clauses(ctx, ss, rule):
    """DecayMode(bf, daughters, **info) keeps what it is given (shared by C11.1 and C12.5: flatten builds its result through it)"""
    ff, flow = fn(ss, DECAY, "DecayMode.__init__")
    k = ckey(ff, None, "ctor")
    st_bf = [s for s in pf.iter_stmts(ff.node.body) if isinstance(s, ast.Assign) and txt(s.targets[0]) == "self.bf"]
    ok = len(st_bf) == 1 and txt(st_bf[0].value) == "bf"
    (ctx.holds if ok else ctx.violation)(rule, k + " :: bf", where(ff, ff.node), "self.bf = bf" if ok else "the branching fraction is not stored unchanged")
    st_d = [s for s in pf.iter_stmts(ff.node.body) if isinstance(s, ast.Assign) and txt(s.targets[0]) == "self.daughters"]
    okd = False
    if len(st_d) == 1:
        v = flow.expand(st_d[0].value)
        if isinstance(v, ast.Call) and txt(v.func) == "DaughtersDict" and len(v.args) == 1:
            alts_ = sorted(txt(a) for a in phi_alts(v.args[0]))
            okd = alts_ in (["daughters", "info.pop('fs')"],)
            # the pop branch only when no daughters were given
            pops = [d for d in flow.defs if d.name == "daughters" and d.kind == "assign"]
            for d in pops:
                conds = [(txt(e), pol) for kind, e, pol in guards.path_conditions(ff.node, d.stmt) if kind == "if"]
                if sorted(conds) != [("'fs' in info", True), ("daughters is None", True)]:
                    okd = False
    (ctx.holds if okd else ctx.violation)(rule, k + " :: fs", where(ff, ff.node),
                                          "daughters = DaughtersDict(daughters, or info.pop('fs') when no daughters are given)" if okd
                                          else "the 'fs' entry of the dictionary form does not become the daughters")
    from .common import dict_entries
    ents, est, econd = dict_entries(ff, flow, "self.metadata")
    spreads = [txt(v) for k_, v in ents if k_ == "**"]
    oku = spreads == ["info"] and not econd
    (ctx.holds if oku else ctx.violation)(rule, k + " :: metadata", where(ff, ff.node),
                                          "every extra keyword is stored in metadata" if oku else "extra keywords (user metadata) are not all stored")
    # metadata default keys come first, so that the user's values override them
    keys_ = [k_.strip("'\"") for k_, v in ents if k_ != "**"]
    okm = sorted(keys_) == ["model", "model_params"] and bool(ents) and ents[-1][0] == "**" and all(isinstance(v, ast.Constant) and v.value == "" for k_, v in ents if k_ != "**")
    (ctx.holds if okm else ctx.violation)(rule, k + " :: defaults", where(ff, ff.node),
                                          "metadata starts with the two default keys, then takes the user's" if okm else "metadata defaults are missing or overwrite the user's values")


def chain_ctor_clauses(ctx, ss, rule):
    """DecayChain(mother, decays) keeps exactly what it is given (shared by C11, C12 and C13: every conversion, flattening and
    descriptor reads the chain through these two attributes)"""
    ff, flow = fn(ss, DECAY, "DecayChain.__init__")
    p_m, p_d = ff.params[1], ff.params[2]
    k = ckey(ff, None, "chain-ctor")
    for attr, par in (("mother", p_m), ("decays", p_d)):
        st = [s for s in pf.iter_stmts(ff.node.body) if isinstance(s, ast.Assign) and txt(s.targets[0]) == f"self.{attr}"]
        v = txt(flow.expand(st[0].value)) if len(st) == 1 else None
        ok = len(st) == 1 and v in (par, f"dict({par})", f"{par}.copy()", f"copy.copy({par})", f"copy({par})", f"{{**{par}}}") \
            and not [c for c in guards.path_conditions(ff.node, st[0], skip_raise_guards=True) if c[0] == "if"]
        (ctx.holds if ok else ctx.violation)(rule, k + f" :: {attr}", where(ff, st[0] if st else ff.node),
                                              f"self.{attr} = the {attr} given" if ok else f"the chain does not keep the {attr} it is given unchanged (stores `{v}`): entries are dropped, added or reordered")


def c11_2(ctx, ss):
    ff, flow = fn(ss, DECAY, "DecayChain.to_dict.recursively_replace")
    stores = [s for s in pf.iter_stmts(ff.node.body) if isinstance(s, ast.Assign) and isinstance(s.targets[0], ast.Subscript)]
    k = ckey(ff, None, "per-position")
    if len(stores) != 1:
        raise AnchorMissing("recursively_replace: expected one positional store")
    st = stores[0]
    lps = enclosing(ff, st, (ast.For,))
    t = st.targets[0]
    whole_slice = isinstance(t.slice, ast.Slice) and t.slice.lower is None and t.slice.upper is None and t.slice.step is None
    import copy as _copy
    t_load = _copy.deepcopy(t)
    t_load.ctx = ast.Load()
    whole_key = isinstance(st.value, ast.ListComp) and len(st.value.generators) == 1 and not whole_slice \
        and flow.text(st.value.generators[0].iter) == f"{flow.text(t.value)}[{txt(t.slice)}]"         # D['fs'] = [… for x in <the same D['fs']>]
    if not lps and (whole_slice or whole_key):
        # whole-list form: L[:] = [recursively_replace(x) if x in self.decays else x for x in L]   (or D['fs'] = [… for x in D['fs']])
        v = st.value
        same_src = (txt(v.generators[0].iter) == txt(t.value)) if whole_slice else whole_key
        okc = isinstance(v, ast.ListComp) and len(v.generators) == 1 and not v.generators[0].ifs and same_src \
            and isinstance(v.generators[0].target, ast.Name) and isinstance(v.elt, ast.IfExp)
        if whole_key:
            t = ast.Subscript(value=t, slice=ast.Constant(value="__whole__"), ctx=ast.Load())      # frame check: the list is t.value = D['fs']
        why_ = "the replacement is not an element-wise map over the whole list"
        if okc:
            el = v.generators[0].target.id
            atoms = guards.canon_cond(v.elt.test, True)
            yes, no = (v.elt.body, v.elt.orelse) if atoms[0][1] else (v.elt.orelse, v.elt.body)
            okc = len(atoms) == 1 and txt(atoms[0][0]) == f"{el} in self.decays" and isinstance(yes, ast.Call) and txt(yes.func) == "recursively_replace" \
                and len(yes.args) == 1 and txt(yes.args[0]) == el and txt(no) == el
            why_ = f"element is `{txt(v.elt)[:80]}`"
        if okc:
            ctx.holds("C11.2", k, where(ff, st), "every position whose daughter decays is replaced by that daughter's own sub-chain (element-wise map over the whole list)", 4)
        else:
            ctx.violation("C11.2", k, where(ff, st), why_)
        lps = [None]
    if not lps:
        raise AnchorMissing("positional store outside a loop")
    lp = lps[0]
    if lp is None:
        pass
    else:
        _c11_2_loop(ctx, ff, flow, k, st, t, lp)
    _c11_2_frame(ctx, ss, ff, flow, t)


def _c11_2_loop(ctx, ff, flow, k, st, t, lp):
    it = lp.iter
    ok_enum = isinstance(it, ast.Call) and txt(it.func) == "enumerate" and len(it.args) == 1 and txt(it.args[0]) == txt(t.value) \
        and isinstance(lp.target, ast.Tuple) and len(lp.target.elts) == 2
    if not ok_enum:
        ctx.violation("C11.2", k, where(ff, st), f"the replacement does not index the list it enumerates (`{txt(it)[:60]}` vs `{txt(t.value)}`)")
        return
    idx, el = (e.id for e in lp.target.elts)
    ok_idx = txt(t.slice) == idx
    v = st.value
    ok_val = isinstance(v, ast.Call) and txt(v.func) == "recursively_replace" and len(v.args) == 1 and txt(v.args[0]) == el
    conds = [(txt(e), pol) for kind, e, pol in guards.path_conditions(lp, st) if kind == "if"]
    ok_guard = conds == [(f"{el} in self.decays", True)]
    exits = [x for x in ast.walk(lp) if isinstance(x, (ast.Break, ast.Return)) or (isinstance(x, ast.Continue))]
    if ok_idx and ok_val and ok_guard and not exits:
        ctx.holds("C11.2", k, where(ff, st), "every position whose daughter decays is replaced by that daughter's own sub-chain (no break)", 4)
    else:
        why = []
        if not ok_idx:
            why.append(f"index `{txt(t.slice)}` is not the enumerate index")
        if not ok_val:
            why.append(f"value `{txt(v)[:60]}`")
        if not ok_guard:
            why.append(f"guard {conds}")
        if exits:
            why.append("the loop ends early (break / continue / return): only the first of several identical decaying daughters is expanded")
        ctx.violation("C11.2", k, where(ff, st), "; ".join(why))


def _c11_2_frame(ctx, ss, ff, flow, t):
    # the list is the mode's own fs and the mode is appended once, result keyed by mother
    lst = flow.expand(t.value)
    if isinstance(t.slice, ast.Constant) and t.slice.value == "__whole__" and isinstance(t.value, ast.Subscript):
        lst = ast.Subscript(value=flow.expand(t.value.value), slice=t.value.slice, ctx=ast.Load())
    ok_src = txt(lst) == "self.decays[mother].to_dict()['fs']"
    rets = returns(ff)
    ok_ret = len(rets) == 1 and isinstance(rets[0].value, ast.Dict) and len(rets[0].value.keys) == 1 and txt(rets[0].value.keys[0]) == "mother"
    (ctx.holds if ok_src and ok_ret else ctx.violation)("C11.2", ckey(ff, None, "frame"), where(ff, ff.node),
                                                        "works on the fs list of self.decays[mother].to_dict(), returned as {mother: [mode]}" if ok_src and ok_ret
                                                        else f"frame: list `{txt(lst)[:60]}`, return `{txt(rets[0].value)[:60] if rets else None}`")
    # the mode dictionary is put into the result exactly once
    rn = rets[0].value.values[0] if ok_ret else None
    okapp = False
    if isinstance(rn, ast.Name):
        sites = builder_sites(ff, flow, rn.id)
        okapp = len(sites) == 1 and sites[0][1] == "append" and flow.text(sites[0][2][0]) == "self.decays[mother].to_dict()" \
            and flow.cfg.must_pass({flow.cfg.node_of(sites[0][0])})
    elif isinstance(rn, (ast.List, ast.Tuple)) and len(rn.elts) == 1:
        # literal form: return {mother: [dm]}
        okapp = flow.text(rn.elts[0]) == "self.decays[mother].to_dict()"
    (ctx.holds if okapp else ctx.violation)("C11.2", ckey(ff, None, "mode-kept"), where(ff, ff.node),
                                            "the (expanded) mode dictionary is the single entry of the mother's list" if okapp else "the mode dictionary is not put into the result exactly once")
    top, tflow = fn(ss, DECAY, "DecayChain.to_dict")
    r = returns(top)
    okt = len(r) == 1 and txt(r[0].value) == "recursively_replace(self.mother)"
    (ctx.holds if okt else ctx.violation)("C11.2", ckey(top, None, "entry"), where(top, top.node),
                                          "to_dict() = recursively_replace(self.mother)" if okt else "to_dict does not start from the chain's mother")


def c11_3(ctx, ss):
    ff, flow = fn(ss, DECAY, "_build_decay_modes")
    raises = [r for r in pf.walk_no_nested(ff.node) if isinstance(r, ast.Raise)]
    key = f"{DECAY}:_build_decay_modes :: rejects-repeated-mother"
    bad = None
    cmp_ok = False
    repeat_raises = []
    for r in raises:
        atoms = [(flow.expand(e), pol) for kind, e, pol in guards.path_conditions(ff.node, r) if kind == "if"]
        P0 = ff.params[0]
        mem = [(e, pol) for e, pol in atoms if isinstance(e, ast.Compare) and isinstance(e.ops[0], ast.In) and txt(e.comparators[0]) == P0]
        # `seen = modes.get(mother)` … `seen is not None`: the same membership fact
        mem += [(e, not pol) for e, pol in atoms if isinstance(e, ast.Compare) and isinstance(e.ops[0], ast.Is) and txt(e.comparators[0]) == "None"
                and isinstance(e.left, ast.Call) and txt(e.left.func) == f"{P0}.get"]
        if not mem:
            continue
        repeat_raises.append(r)
        # canonical atoms: `a != b` holds  ==  (`a == b`, False)
        differs = [(e, pol) for e, pol in atoms if isinstance(e, ast.Compare) and isinstance(e.ops[0], ast.Eq) and pol is False
                   and (f"{ff.params[0]}[" in txt(e) or f"{ff.params[0]}.get(" in txt(e)) and ("from_dict(" in txt(e) or ".to_dict()" in txt(e))]
        if all(pol for _, pol in mem) and len(differs) == 1 and len(atoms) == len(mem) + 1:
            cmp_ok = True
        elif all(pol for _, pol in mem) and len(atoms) == len(mem):
            bad = r
    # any other raise whose guard mentions the collected modes (e.g. a negated or an `or` form of the conflict test)
    others = [r for r in raises if r not in repeat_raises and any(ff.params[0] in txt(flow.expand(e)) for kind, e, pol in guards.path_conditions(ff.node, r) if kind == "if")]
    if others and bad is None:
        ctx.violation("C11.3", key, where(ff, others[0]),
                      f"a mother is refused under `{[(txt(e)[:70], pol) for kind, e, pol in guards.path_conditions(ff.node, others[0]) if kind == 'if']}`, not exactly when it was already "
                      "collected with a different decay mode: identical repeated sub-decays are rejected, or conflicting ones accepted")
        return
    if bad is None and repeat_raises and not cmp_ok:
        ctx.violation("C11.3", key, where(ff, repeat_raises[0]),
                      "a mother seen again is refused under a condition other than 'already collected AND its decay mode differs': identical repeated sub-decays "
                      "(which DecayChain.to_dict emits) are rejected, or conflicting ones accepted")
        return
    if bad is not None:
        ctx.violation("C11.3", key, where(ff, bad),
                      "the dictionary reader raises whenever a mother key was already seen, but DecayChain.to_dict emits the same key once per position "
                      "of a repeated decaying daughter (D0 -> pi0 pi0, pi0 -> gamma gamma): such a chain cannot be rebuilt from its own dictionary", 2)
    else:
        if cmp_ok:
            ctx.holds("C11.3", key, where(ff, ff.node), "a mother seen again is refused exactly when its decay mode differs from the one collected", len(raises) + 1)
        else:
            ctx.violation("C11.3", key, where(ff, ff.node), "a dictionary in which a mother has two different decay modes is not refused: the rebuilt chain silently keeps one of them")


def c11_8(ctx, ss):
    ff, flow = fn(ss, DECAY, "_has_no_subdecay")
    r = returns(ff)
    ok = len(r) == 1 and txt(r[0].value) in (canon("all((isinstance(p, str) for p in ds))"), canon("all(isinstance(p, str) for p in ds)"), canon("not any((isinstance(p, dict) for p in ds))"))
    (ctx.holds if ok else ctx.violation)("C11.7", ckey(ff, None, "classify"), where(ff, ff.node),
                                          "a final state has no sub-decay iff ALL its entries are names" if ok else f"_has_no_subdecay is `{txt(r[0].value) if r else None}`")
    ff, flow = fn(ss, DECAY, "DecayMode.to_dict")
    fixes = [s_ for s_ in pf.iter_stmts(ff.node.body) if isinstance(s_, ast.Assign) and isinstance(s_.targets[0], ast.Subscript) and txt(s_.targets[0].slice) == "'model_params'"]
    for s_ in fixes:
        conds = [(txt(e), pol) for kind, e, pol in guards.path_conditions(ff.node, s_) if kind == "if"]
        import re as _re
        ok = len(conds) == 1 and conds[0][1] and bool(_re.fullmatch(r"\w+\['model_params'\] is None", conds[0][0])) and isinstance(s_.value, ast.Constant) and s_.value.value == ""
        (ctx.holds if ok else ctx.violation)("C11.1", ckey(ff, None, "params-none"), where(ff, s_),
                                              "only a missing (None) parameter list is normalised to ''" if ok else f"model_params is overwritten under {conds}")


def c11_4(ctx, ss):
    from .c13 import c13_1
    from .c05 import _as
    _as(ctx, ss, c13_1, "C11.4")
    for q, want, msg in (("DaughtersDict.__len__", "sum(self.values())", "length counts multiplicities"),
                         ("DaughtersDict.__iter__", "self.elements()", "iteration yields each daughter as often as it occurs")):
        ff, flow = fn(ss, DECAY, q)
        r = returns(ff)
        ok = len(r) == 1 and txt(r[0].value) == want
        (ctx.holds if ok else ctx.violation)("C11.4", ckey(ff, None, "shape"), where(ff, ff.node), f"{q} = {want}: {msg}" if ok
                                              else f"{q} returns `{txt(r[0].value)[:60] if r else None}`, expected {want}")
    ff, flow = fn(ss, DECAY, "DaughtersDict.__add__")
    r = returns(ff)
    ok = len(r) == 1 and flow.text(r[0].value) in ("self.__class__(super().__add__(other))", "DaughtersDict(super().__add__(other))")
    (ctx.holds if ok else ctx.violation)("C11.4", ckey(ff, None, "shape"), where(ff, ff.node), "__add__ = class(Counter.__add__)" if ok else "__add__ is not the Counter sum re-wrapped")


def c11_5(ctx, ss):
    ff, flow = fn(ss, DECAY, "DecayMode.from_pdgids")
    rets = returns(ff)
    k = ckey(ff, None, "pdgids")
    # every exit builds the mode from bf, the mapped ids (or None when no ids are given) and all metadata
    kinds = set()
    fwd = bool(rets)
    MAP = "EvtGenName2PDGIDBiMap[PDGID(__elem__(daughters))]"
    map_nodes = []
    for r in rets:
        c = r.value
        if not isinstance(c, ast.Call):
            fwd = False
            continue
        bf = call_arg(c, 0, "bf")
        star = [kw for kw in c.keywords if kw.arg is None and txt(kw.value) == "info"]
        if bf is None or txt(bf) != "bf" or not star:
            fwd = False
        dd = call_arg(c, 1, "daughters")
        e = flow.expand(dd) if dd is not None else None
        for a_ in (phi_alts(e) if e is not None else [None]):
            if a_ is None or (isinstance(a_, ast.Constant) and a_.value is None):
                kinds.add("empty")
            elif isinstance(a_, ast.ListComp) and len(a_.generators) == 1 and not a_.generators[0].ifs and txt(a_.generators[0].iter) == "daughters" and txt(a_.elt) == MAP:
                kinds.add("map")
            else:
                kinds.add("other:" + txt(a_)[:60])
    # the mapping is what is used whenever ids are given: the statement that computes it runs under `daughters` (truthy) only
    for n_ in pf.walk_no_nested(ff.node):
        if isinstance(n_, ast.ListComp) and "EvtGenName2PDGIDBiMap" in txt(n_):
            st_ = stmt_of(ff, n_)
            conds = sorted((txt(e_), pol) for kind, e_, pol in guards.path_conditions(ff.node, st_, skip_raise_guards=True) if kind == "if")
            map_nodes.append(conds)
    cond_ok = bool(map_nodes) and all(c_ in ([], [("daughters", True)]) for c_ in map_nodes)
    okf = fwd and "map" in kinds and not [k_ for k_ in kinds if k_.startswith("other")] and cond_ok
    (ctx.holds if okf else ctx.violation)("C11.5", k + " :: map", where(ff, ff.node),
                                          "every PDG ID is mapped through the EvtGen bi-map, bf and metadata forwarded" if okf
                                          else "from_pdgids does not map every id (in order) or drops bf / metadata")
    oke = fwd and "empty" in kinds
    (ctx.holds if oke else ctx.violation)("C11.5", k + " :: empty", where(ff, ff.node),
                                          "without ids an empty mode with bf and metadata is built" if oke else "the no-daughters branch drops bf or metadata")


def c11_6(ctx, ss):
    ff, flow = fn(ss, DECAY, "DaughtersDict.__init__")
    sup = [c for c in pf.calls_in(ff.node) if txt(c.func) == "super().__init__"]
    if len(sup) != 1:
        raise AnchorMissing("DaughtersDict.__init__: expected one super().__init__ call")
    c = sup[0]
    k = ckey(ff, None, "normalise")
    a = flow.expand(c.args[0]) if c.args else None
    alts_ = sorted(txt(x) for x in phi_alts(a)) if a is not None else []
    want = sorted(["iterable", "iterable.split()", canon("{__elem__(iterable.items())[0]: __elem__(iterable.items())[1] for k, v in iterable.items() if __elem__(iterable.items())[1] > 0}")])
    okk = any(kw.arg is None and txt(kw.value) == "kwds" for kw in c.keywords)
    (ctx.holds if alts_ == want and okk else ctx.violation)("C11.6", k, where(ff, c),
                                                            "str → split(), mapping → positive counts, otherwise unchanged; keyword counts forwarded" if alts_ == want and okk
                                                            else f"constructor passes {alts_} (keywords forwarded: {okk}) to Counter")
    for d in [d for d in flow.defs if d.name == "iterable" and d.kind == "assign"]:
        conds = [(txt(e), pol) for kind, e, pol in guards.path_conditions(ff.node, d.stmt) if kind == "if"]
        v = txt(d.value)
        if v == "iterable.split()":
            ok = sorted(conds) in (sorted([("isinstance(iterable, dict)", False), ("iterable", True), ("isinstance(iterable, str)", True)]),
                                   sorted([("isinstance(iterable, dict)", False), ("isinstance(iterable, str)", True)]))   # ''.split() == [] as well
            (ctx.holds if ok else ctx.violation)("C11.6", k + " :: str", where(ff, d.stmt), "a str argument is split on blanks" if ok else f"split applies under {conds}")
        elif v.startswith("{"):
            ok = conds == [("isinstance(iterable, dict)", True)]
            (ctx.holds if ok else ctx.violation)("C11.6", k + " :: dict", where(ff, d.stmt), "a mapping keeps its positive counts" if ok else f"the count filter applies under {conds}")


def c11_7(ctx, ss):
    ff, flow = fn(ss, DECAY, "_build_decay_modes")
    k = ckey(ff, None, "reader-positions")
    stores = [s for s in pf.iter_stmts(ff.node.body) if isinstance(s, ast.Assign) and isinstance(s.targets[0], ast.Subscript)
              and txt(s.targets[0].value) != ff.params[0]]
    loops = [l for l in pf.iter_stmts(ff.node.body) if isinstance(l, ast.For) and any(txt(c.func) == "_build_decay_modes" for c in pf.calls_in(l))
             and not any(isinstance(x, ast.For) and x is not l and any(txt(c.func) == "_build_decay_modes" for c in pf.calls_in(x)) for x in ast.walk(l))]
    if len(loops) != 1:
        raise AnchorMissing("_build_decay_modes: expected one loop that recurses into nested dictionaries")
    lp = loops[0]
    rec = [c for c in pf.calls_in(lp) if txt(c.func) == "_build_decay_modes"]
    # (`continue` is allowed: a guard clause `if not isinstance(x, dict): continue` shows up in the path conditions below)
    clean = not any(isinstance(x, ast.Break) for x in ast.walk(lp)) and len(rec) == 1 and txt(rec[0].args[0]) == ff.params[0]
    ok = False
    form = "?"
    if len(stores) == 1 and isinstance(lp.iter, ast.Call) and txt(lp.iter.func) == "enumerate" and isinstance(lp.target, ast.Tuple):
        # in-place form: L[i] = key of the nested dictionary
        st = stores[0]
        form = "in place"
        idx, el = (e.id for e in lp.target.elts)
        conds = [(txt(e), pol) for kind, e, pol in guards.path_conditions(lp, st) if kind == "if"]
        ok = txt(st.targets[0].slice) == idx and txt(st.targets[0].value) == txt(lp.iter.args[0]) and txt(st.value) in (f"next(iter({el}))", f"next(iter({el}))") \
            and conds == [(f"isinstance({el}, dict)", True)] and clean and txt(rec[0].args[1]).endswith(f"[{idx}]")
    elif not stores:
        # append form: a fresh list receives, for every element in order, the key of a nested dictionary or the element itself
        form = "append"
        st = lp
        el = lp.target.id if isinstance(lp.target, ast.Name) else (lp.target.elts[1].id if isinstance(lp.target, ast.Tuple) and len(lp.target.elts) == 2 else None)
        apps = [c for c in pf.calls_in(lp) if isinstance(c.func, ast.Attribute) and c.func.attr == "append"]
        if el and len(apps) == 2 and len({txt(c.func.value) for c in apps}) == 1:
            byv = {}
            for c in apps:
                conds = [(txt(e), pol) for kind, e, pol in guards.path_conditions(lp, next(x for x in pf.iter_stmts(lp.body) if isinstance(x, ast.Expr) and x.value is c)) if kind == "if"]
                byv[txt(c.args[0])] = conds
            keyforms = [v for v in byv if v in (f"next(iter({el}))", f"next(iter({el}))")]
            rconds = [(txt(e), pol) for kind, e, pol in guards.path_conditions(lp, next(x for x in pf.iter_stmts(lp.body) if isinstance(x, ast.Expr) and x.value is rec[0])) if kind == "if"] if len(rec) == 1 else None
            ok = len(keyforms) == 1 and byv.get(keyforms[0]) == [(f"isinstance({el}, dict)", True)] and byv.get(el) == [(f"isinstance({el}, dict)", False)] and clean \
                and rconds == [(f"isinstance({el}, dict)", True)] and (txt(rec[0].args[1]) == el or txt(rec[0].args[1]).endswith("]"))
    else:
        raise AnchorMissing("_build_decay_modes: positional replacement of nested dictionaries not understood")
    (ctx.holds if ok else ctx.violation)("C11.7", k, where(ff, st),
                                          f"each nested dictionary is replaced by its key at its own position ({form}) and the reader recurses into that element" if ok
                                          else "the reader does not replace / recurse position by position")


def c11_7b(ctx, ss):
    """the mode stored for the mother carries every key of its dictionary (user metadata included)"""
    ff, flow = fn(ss, DECAY, "_build_decay_modes")
    sets = [s for s in pf.iter_stmts(ff.node.body) if isinstance(s, ast.Assign) and isinstance(s.targets[0], ast.Subscript)
            and txt(s.targets[0].value) == ff.params[0]]
    if not sets:
        raise AnchorMissing("_build_decay_modes stores no mode")
    vals = [a for s in sets for a in phi_alts(flow.expand(s.value))]
    COPIES = ("deepcopy", "copy.deepcopy", "copy", "copy.copy", "dict")

    def whole(e):
        """e denotes (a copy of) one whole mode dictionary of the input"""
        if isinstance(e, ast.Call) and txt(e.func) == "__phi__":
            return all(whole(a) for a in e.args)
        while True:
            if isinstance(e, ast.Call) and txt(e.func) in COPIES and len(e.args) == 1 and not e.keywords:
                e = e.args[0]
            elif isinstance(e, ast.Call) and isinstance(e.func, ast.Attribute) and e.func.attr == "copy" and not e.args:
                e = e.func.value
            else:
                break
        return isinstance(e, ast.Call) and txt(e.func) == "__elem__"

    bad = []
    for v in vals:
        if isinstance(v, ast.Call) and txt(v.func) in ("DecayMode.from_dict",) and len(v.args) == 1 and whole(v.args[0]):
            continue
        if isinstance(v, ast.Call) and txt(v.func) == "DecayMode" and any(kw.arg is None and "__elem__" in txt(kw.value) for kw in v.keywords):
            continue
        bad.append(txt(v)[:120])
    okb = len(vals) >= 1 and not bad
    (ctx.holds if okb else ctx.violation)("C11.7", ckey(ff, None, "reader-modes"), where(ff, sets[0]),
                                          "every branch stores a DecayMode built from the whole mode dictionary (all keys carried)" if okb
                                          else f"a mode is built as `{(bad or ['?'])[0]}`: keys of the mode dictionary other than the ones picked (user metadata) are lost")


def c11_7c(ctx, ss):
    ch, cflow = fn(ss, DECAY, "DecayChain.from_dict")
    r = returns(ch)
    okc = len(r) == 1 and cflow.text(r[0].value) in ("cls(next(iter(decay_chain_dict)), {})", "cls(next(iter(decay_chain_dict)), decay_modes)") and \
        any(txt(c.func) == "_build_decay_modes" and txt(c.args[1]) == "decay_chain_dict" for c in pf.calls_in(ch.node))
    (ctx.holds if okc else ctx.violation)("C11.7", ckey(ch, None, "entry"), where(ch, ch.node),
                                          "DecayChain.from_dict = cls(first key, modes collected from the whole dictionary)" if okc else "DecayChain.from_dict frame changed")
