"""C12 — flattening multiplies branching fractions and keeps the leaves (DESIGN.md §4 C12)."""
from __future__ import annotations

import ast

from ..core import guards
from ..core import pyfacts as pf
from ..core.effects import effects
from ..core.match import canon, phi_alts, txt
from ..core.source import AnchorMissing
from .common import DECAY, ckey, enclosing, fn, returns, stmt_of, where

PROP = "C12"
FILES = [DECAY]
EXPLANATION = (
    "C12.1 effect analysis: flatten writes neither the chain nor its argument — every mutated object is a fresh local "
    "(copy of the top-level final state, list of keys); C12.2 the substitution loop ranges over ALL non-stable decaying "
    "particles (mother first) and repeats while any of them remains in the final state; C12.3 within one substitution the "
    "multiplicity is read before any update and the same (particle, multiplicity) pair drives the exponent, the number of "
    "daughter additions and the removal; C12.4 the result is a new chain {mother: DecayMode(product, leaves, **top-level "
    "metadata)}; visible_bf is the flattened bf; C12.5 the DecayMode constructor that receives the product and the leaves "
    "stores them unchanged (no rounding / conversion of bf, daughters = DaughtersDict(leaves), every keyword to metadata).")
NOT_DECIDED = ["that the computed number equals the product over the tree and the multiset equals the leaves (arithmetic over runtime values): not applicable",
               "order-independence as an equality of results"]
F = "DecayChain.flatten"


def _roles(ff, flow):
    """(fs_name, bf_name): the locals handed to the result's DecayMode(product, leaves, …)."""
    from .common import returns as _r
    for r in _r(ff):
        for c in ast.walk(r.value) if r.value is not None else []:
            if isinstance(c, ast.Call) and txt(c.func) == "DecayMode" and len(c.args) == 2 and all(isinstance(a, ast.Name) for a in c.args):
                return c.args[1].id, c.args[0].id
    raise AnchorMissing("flatten: result DecayMode(product, leaves, …) with two local names not found")


def run(ctx, ss):
    for r, f in (("C12.1", c12_1), ("C12.2", c12_2), ("C12.3", c12_3), ("C12.4", c12_4)):
        ctx.guard(r, f, ss)
    from .c11 import ctor_clauses
    ctx.guard("C12.5", ctor_clauses, ss, "C12.5")
    # C12.6: nothing on the way from the observed entry points is memoised on a parser / tree / path / container (shared.py)
    from .shared import memo_for
    ctx.guard("C12.6", memo_for, ss, "C12", "C12.6", "a flattening")
    from .c11 import chain_ctor_clauses
    ctx.guard("C12.5", chain_ctor_clauses, ss, "C12.5")


def c12_1(ctx, ss):
    ef = effects(ss)
    ff, flow = fn(ss, DECAY, F)
    s = ef.sum[ff.key]
    k = ckey(ff, None, "pure")
    ctx.count("write_sites", len(ef.local[ff.key]))
    bad = list(s.state_writes)
    mp = [p for p in s.mutated_params if p != "self"]
    if bad:
        w = bad[0]
        ctx.violation("C12.1", k, where(ff, w.node), f"flatten mutates the original chain: {w.how} on {w.root[0]} {w.root[1]}")
    elif mp:
        ctx.violation("C12.1", k, where(ff, ff.node), f"flatten mutates its argument {mp}")
    else:
        ctx.holds("C12.1", k, where(ff, ff.node), f"all {len(ef.local[ff.key])} write sites of flatten act on fresh locals", len(ef.local[ff.key]) + 1)
    # the working final state is a copy of the top-level daughters
    FS, BF = _roles(ff, flow)
    defs = [d for d in flow.defs if d.name == FS and d.kind == "assign"]
    ok = len(defs) == 1 and txt(defs[0].value) in ("DaughtersDict(self.decays[self.mother].daughters)", "DaughtersDict(self.top_level_decay().daughters)",
                                                  "copy(self.decays[self.mother].daughters)", "deepcopy(self.decays[self.mother].daughters)")
    (ctx.holds if ok else ctx.violation)("C12.1", ckey(ff, None, "fs-copy"), where(ff, defs[0].stmt if defs else ff.node),
                                          "the working final state is a copy of the top-level daughters" if ok
                                          else f"the working final state is `{txt(defs[0].value) if defs else None}` (not a copy of the top-level daughters)")


def _keys_alts(flow, name_node):
    e = flow.expand(name_node)
    return phi_alts(e)


def c12_2(ctx, ss):
    ff, flow = fn(ss, DECAY, F)
    fors = [n for n in pf.walk_no_nested(ff.node) if isinstance(n, ast.For) and isinstance(n.target, ast.Name) and any(
        isinstance(x, ast.AugAssign) for x in ast.walk(n))]
    whiles = [n for n in pf.walk_no_nested(ff.node) if isinstance(n, ast.While)]
    if len(whiles) != 1:
        raise AnchorMissing("flatten: expected one while loop")
    wl = whiles[0]
    inner = [n for n in fors if any(n is x for x in ast.walk(wl))]
    outer_for = [n for n in inner if not enclosing(ff, n, (ast.For,))]
    if len(outer_for) != 1:
        raise AnchorMissing("flatten: substitution for-loop not found")
    lp = outer_for[0]
    k = ckey(ff, None, "loop")
    if not isinstance(lp.iter, ast.Name):
        ctx.violation("C12.2", k + " :: all-keys", where(ff, lp), f"the substitution loop ranges over `{txt(lp.iter)}`: only part of the decaying particles is ever substituted")
        return
    kname = lp.iter.id
    defs = [d for d in flow.defs if d.name == kname and d.kind == "assign"]
    from .common import guarded_values
    gv = guarded_values(ff, flow, defs)
    texts = sorted(txt(v) for _, v in gv)
    FILT = (canon("[k for k in self.decays if k not in stable_particles]"), canon("[k for k in self.decays if k not in stable_particles]"))
    ALLK = ("list(self.decays)", "list(self.decays)", canon("[k for k in self.decays]"))
    alt_ok = bool(texts) and all(t in FILT + ALLK for t in texts)
    if alt_ok:
        ctx.holds("C12.2", k + " :: all-keys", where(ff, lp), "keys = every decaying particle not declared stable; the loop ranges over all of them", len(defs) + 1)
    else:
        ctx.violation("C12.2", k + " :: all-keys", where(ff, lp), f"keys are {texts}")
    # the filtered alternative is the one taken when a stable set is given (an empty filter is the same as no filter)
    for conds, v in gv:
        if txt(v) in FILT and conds not in ([("stable_particles", True)], []):
            ctx.violation("C12.2", k + " :: stable-branch", where(ff, lp), f"the stable-set filter applies under {conds}")
        if txt(v) in ALLK and conds not in ([("stable_particles", False)],):
            ctx.violation("C12.2", k + " :: stable-branch", where(ff, lp), f"all particles are substituted under {conds}: a given stable set is ignored")
    # while condition: recomputed from the same keys
    cond = wl.test
    cd = [d for d in flow.defs if isinstance(cond, ast.Name) and d.name == cond.id and d.kind == "assign"]
    vals = sorted(txt(d.value) for d in cd)
    anyd = [d for d in cd if txt(d.value).startswith("any(")]
    okw = False
    if isinstance(cond, ast.Name) and "True" in vals and len(anyd) == 1 and len(cd) == 2:
        g = anyd[0].value.args[0]
        if isinstance(g, ast.GeneratorExp) and len(g.generators) == 1 and not g.generators[0].ifs and txt(g.generators[0].iter) == kname \
                and isinstance(g.elt, ast.Compare) and txt(g.elt).replace(" ", "") == f"{_roles(ff, flow)[0]}[{g.generators[0].target.id}]>0":
            # recomputed at the end of every while iteration
            okw = any(anyd[0].stmt is s for s in wl.body)
    elif isinstance(cond, ast.Call) and txt(cond.func) == "any":
        okw = f" in {kname}" in txt(cond) and "> 0" in txt(cond)
    (ctx.holds if okw else ctx.violation)("C12.2", k + " :: fixpoint", where(ff, wl),
                                          "substitution repeats while any non-stable decaying particle is left in the final state" if okw
                                          else f"the repeat condition is {vals or txt(cond)}: the loop can stop while decaying particles remain (or never re-evaluates)")
    # mother first
    ins = [c for c in pf.calls_in(ff.node) if txt(c.func) == f"{kname}.insert"]
    okm = len(ins) == 1 and txt(ins[0]) == f"{kname}.insert(0, {kname}.pop({kname}.index(self.mother)))"
    (ctx.holds if okm else ctx.violation)("C12.2", k + " :: mother-first", where(ff, ins[0] if ins else ff.node),
                                          "the mother is moved to the front of the keys" if okm else "the mother is not moved to the front (keys.insert(0, keys.pop(keys.index(self.mother))))")
    # no early exit
    exits = [x for x in ast.walk(wl) if isinstance(x, (ast.Break, ast.Continue, ast.Return))]
    if exits:
        ctx.violation("C12.2", k + " :: early-exit", where(ff, exits[0]), "the substitution loop can end early")


def c12_3(ctx, ss):
    ff, flow = fn(ss, DECAY, F)
    augs = [n for n in pf.walk_no_nested(ff.node) if isinstance(n, ast.AugAssign)]
    mult = [a for a in augs if isinstance(a.op, ast.Mult)]
    sub = [a for a in augs if isinstance(a.op, ast.Sub)]
    add = [a for a in augs if isinstance(a.op, ast.Add)]
    k = ckey(ff, None, "step")
    if len(mult) != 1 or len(sub) != 1 or len(add) != 1:
        ctx.violation("C12.3", k, where(ff, ff.node),
                      f"a substitution step needs one multiplication of the branching fraction, one addition of the daughters and one removal of the particle; found {len(mult)}, {len(add)}, {len(sub)}")
        return
    lp = [l for l in enclosing(ff, mult[0], (ast.For,))][0]
    kv = lp.target.id
    # n_k read before any update
    m = mult[0]
    FS, BF = _roles(ff, flow)
    KEEP = {FS, kv}
    mv = flow.expand(m.value, keep=KEEP)
    want_pow = f"self.decays[{kv}].bf ** {FS}[{kv}]"
    mv_t = txt(mv)
    okp = isinstance(m.target, ast.Name) and m.target.id == BF and mv_t == want_pow
    (ctx.holds if okp else ctx.violation)("C12.3", k + " :: factor", where(ff, m),
                                          "visible bf *= bf(k) ** multiplicity(k)" if okp else f"the factor is `{mv_t[:80]}`, expected `{want_pow}`")
    # init of the product
    init = [d for d in flow.defs if isinstance(m.target, ast.Name) and d.name == m.target.id and d.kind == "assign"]
    oki = len(init) == 1 and txt(init[0].value) in ("self.bf", "self.top_level_decay().bf", "self.decays[self.mother].bf")
    # the mother is in keys and fs initially holds the mother's daughters, so the top-level bf must not be counted twice:
    # vis_bf starts at self.bf and the mother is only substituted if it occurs among its own daughters (never for acyclic chains)
    (ctx.holds if oki else ctx.violation)("C12.3", k + " :: init", where(ff, init[0].stmt if init else ff.node),
                                          "the product starts from the top-level branching fraction" if oki else f"the product starts from `{txt(init[0].value) if init else None}`")
    a = add[0]
    rl = enclosing(ff, a, (ast.For,))
    oka = txt(a.target) == FS and txt(flow.expand(a.value, keep=KEEP)) == f"self.decays[{kv}].daughters" and rl and txt(flow.expand(rl[0].iter, keep=KEEP)) == f"range({FS}[{kv}])"
    (ctx.holds if oka else ctx.violation)("C12.3", k + " :: add", where(ff, a),
                                          "the daughters of k are added multiplicity(k) times" if oka else "the daughters of k are not added exactly multiplicity(k) times")
    s = sub[0]
    sv = txt(flow.expand(s.value, keep=KEEP))
    oks = txt(s.target) == f"{FS}[{kv}]" and sv == f"{FS}[{kv}]"
    (ctx.holds if oks else ctx.violation)("C12.3", k + " :: remove", where(ff, s),
                                          "k is removed multiplicity(k) times" if oks else f"k is decreased by `{sv}`")
    # ordering: the multiplicity local is assigned before the first update of fs in the body
    nk = [d for d in flow.defs if d.kind == "assign" and txt(d.value) == f"{FS}[{kv}]"]
    cfg = flow.cfg
    oko = len(nk) == 1 and all(cfg.dominates(cfg.node_of(nk[0].stmt), cfg.node_of(x)) for x in (m, a, s)) \
        and not cfg.reachable(cfg.node_of(a), cfg.node_of(m), avoid={cfg.node_of(lp)}) and not cfg.reachable(cfg.node_of(s), cfg.node_of(rl[0]) if rl else cfg.node_of(a), avoid={cfg.node_of(lp)})
    (ctx.holds if oko else ctx.violation)("C12.3", k + " :: read-before-update", where(ff, nk[0].stmt if nk else ff.node),
                                          "the multiplicity is read once, before the final state is updated" if oko else "the multiplicity is re-read after the final state was updated")
    conds = [(txt(e), pol) for kind, e, pol in guards.path_conditions(lp, m) if kind == "if"]
    okg = conds == [(f"{kv} in {FS}", True)]
    (ctx.holds if okg else ctx.violation)("C12.3", k + " :: guard", where(ff, m), "substitution happens iff k is in the final state" if okg else f"substitution is guarded by {conds}")


def c12_4(ctx, ss):
    ff, flow = fn(ss, DECAY, F)
    rets = returns(ff)
    k = ckey(ff, None, "result")
    if len(rets) != 1:
        raise AnchorMissing("flatten: expected one return")
    v = rets[0].value
    ok = isinstance(v, ast.Call) and txt(v.func) in ("self.__class__", "DecayChain", "type(self)") and len(v.args) == 2 and txt(v.args[0]) == "self.mother" \
        and isinstance(v.args[1], ast.Dict) and len(v.args[1].keys) == 1 and txt(v.args[1].keys[0]) == "self.mother"
    if not ok:
        ctx.violation("C12.4", k, where(ff, rets[0]), f"flatten returns `{txt(v)[:100]}`, not a new chain {{mother: mode}}")
        return
    dm = v.args[1].values[0]
    FS, BF = _roles(ff, flow)
    augm = [n for n in pf.walk_no_nested(ff.node) if isinstance(n, ast.AugAssign) and isinstance(n.op, ast.Mult) and isinstance(n.target, ast.Name)]
    okm = isinstance(dm, ast.Call) and txt(dm.func) == "DecayMode" and len(dm.args) == 2 and len(augm) == 1 and txt(dm.args[0]) == augm[0].target.id and txt(dm.args[1]) == FS
    star = [kw for kw in dm.keywords if kw.arg is None] if isinstance(dm, ast.Call) else []
    okmeta = len(star) == 1 and flow.text(star[0].value) in ("self.top_level_decay().metadata", "self.decays[self.mother].metadata")
    (ctx.holds if okm else ctx.violation)("C12.4", k + " :: mode", where(ff, rets[0]), "the single mode is DecayMode(product, leaves, …)" if okm else f"the mode is `{txt(dm)[:80]}`")
    (ctx.holds if okmeta else ctx.violation)("C12.4", k + " :: metadata", where(ff, rets[0]),
                                             "the top-level model information / metadata is kept" if okmeta else "the top-level model information is not carried into the flattened chain")
    vb, vflow = fn(ss, DECAY, "DecayChain.visible_bf")
    r = returns(vb)
    okv = len(r) == 1 and txt(r[0].value) == "self.flatten().bf"
    (ctx.holds if okv else ctx.violation)("C12.4", ckey(vb, None, "visible_bf"), where(vb, vb.node), "visible_bf = self.flatten().bf" if okv else f"visible_bf is `{txt(r[0].value) if r else None}`")
    bf, bflow = fn(ss, DECAY, "DecayChain.bf")
    r = returns(bf)
    okb = len(r) == 1 and txt(r[0].value) in ("self.top_level_decay().bf", "self.decays[self.mother].bf")
    tl, _ = fn(ss, DECAY, "DecayChain.top_level_decay")
    r2 = returns(tl)
    okb = okb and len(r2) == 1 and txt(r2[0].value) == "self.decays[self.mother]"
    (ctx.holds if okb else ctx.violation)("C12.4", ckey(bf, None, "bf"), where(bf, bf.node), "bf = branching fraction of self.decays[self.mother]" if okb else "bf / top_level_decay no longer denote the mother's own mode")
