"""C13 — a descriptor string determines the tree (DESIGN.md §4 C13)."""
from __future__ import annotations

import ast
import string

from ..core import guards
from ..core import pyfacts as pf
from ..core.match import call_arg, txt
from ..core.source import AnchorMissing
from .common import DECAY, UTIL, ckey, fn, returns, where

PROP = "C13"
FILES = [DECAY, UTIL]
EXPLANATION = (
    "C13.1 daughters are canonically sorted at every level (the final-state string goes through "
    "DaughtersDict(...).to_string() = ' '.join(sorted(elements()))); C13.2 three-valued evaluation of format_descriptor: "
    "top ⇒ decay_pattern, not top ⇒ sub_decay_pattern; to_string starts with top=True on a fresh dictionary of the chain, "
    "the recursion uses top=False; mother/daughters are bound to the right placeholders; C13.3 the default nested pattern is "
    "bracket-delimited and both defaults carry exactly the two placeholders; C13.4 the dictionary the string is rendered from "
    "expands a decaying daughter at every position where it occurs (shared with C11.2).")
NOT_DECIDED = ["injectivity of the rendering for names that themselves contain parentheses and quotes (depends on the name tables): not applicable",
               "reading the string back (no parser for descriptors exists in the package)"]


def run(ctx, ss):
    from .c10 import c10_3, c10_4
    from .c05 import _as
    ctx.guard("C13.1", lambda c, s: _as(c, s, c10_4, "C13.1"), ss)
    ctx.guard("C13.1", c13_1, ss)
    ctx.guard("C13.2", c13_2, ss)
    ctx.guard("C13.2", lambda c, s: _as(c, s, c10_3, "C13.2"), ss)
    ctx.guard("C13.3", c13_3, ss)
    # to_string renders self.to_dict(): every position of a repeated decaying daughter must be expanded there
    from .c11 import c11_2
    ctx.guard("C13.4", lambda c, s: _as(c, s, c11_2, "C13.4"), ss)
    # C13.5: nothing on the way from the observed entry points is memoised on a parser / tree / path / container (shared.py)
    from .shared import memo_for
    ctx.guard("C13.5", memo_for, ss, "C13", "C13.5", "a descriptor")
    from .c11 import chain_ctor_clauses
    ctx.guard("C13.4", chain_ctor_clauses, ss, "C13.4")
    # C13.6 the rendered daughters of one level are sorted through DaughtersDict(<tuple of rendered strings>): its constructor
    # takes every element of a list / tuple as ONE entry (C11.6 shared) -- a single rendered sub-decay is not split into words
    from .c05 import _as
    from .c11 import c11_6
    ctx.guard("C13.6", lambda c, s: _as(c, s, c11_6, "C13.6"), ss)


def c13_1(ctx, ss):
    for q in ("DaughtersDict.to_string", "DaughtersDict.to_list"):
        ff, flow = fn(ss, DECAY, q)
        r = returns(ff)
        v = txt(r[0].value) if len(r) == 1 and r[0].value is not None else ""
        want = "' '.join(sorted(self.elements()))" if q.endswith("to_string") else "sorted(self.elements())"
        alt = "' '.join(self.to_list())" if q.endswith("to_string") else None
        ok = v == want or (alt is not None and v == alt)
        (ctx.holds if ok else ctx.violation)("C13.1", ckey(ff, None, "canonical"), where(ff, ff.node),
                                              f"{q} = {want}" if ok else f"{q} returns `{v[:80]}`: daughters are no longer listed in one canonical (sorted, with multiplicity) order")


def c13_2(ctx, ss):
    ff, flow = fn(ss, UTIL, "DescriptorFormat.format_descriptor")
    rets = returns(ff)
    got = {}
    for r in rets:
        v = flow.expand(r.value)
        conds = [c for c in guards.path_conditions(ff.node, r) if c[0] == "if"]

        def mk(val):
            def atom(e):
                if isinstance(e, ast.Name) and e.id == "top":
                    return val
                return None
            return atom
        for val in (True, False):
            if guards.reachable_under(conds, mk(val), flow) is not False:
                # which pattern?
                vv = guards.simplify(v, mk(val))
                got.setdefault(val, []).append((r, vv))
    for val, key in ((True, "decay_pattern"), (False, "sub_decay_pattern")):
        k = ckey(ff, None, f"top={val}")
        cands = got.get(val, [])
        want = f"DescriptorFormat.config['{key}'].format(mother=mother, daughters=daughters)"
        if len(cands) == 1 and txt(cands[0][1]) == want:
            ctx.holds("C13.2", k, where(ff, cands[0][0]), f"top={val} ⇒ config['{key}'].format(mother=mother, daughters=daughters)", 3)
        else:
            ctx.violation("C13.2", k, where(ff, ff.node), f"with top={val} the descriptor is `{[txt(x[1])[:120] for x in cands]}`, expected `{want}`")
    dflt = ff.node.args.defaults
    okd = len(dflt) == 1 and isinstance(dflt[0], ast.Constant) and dflt[0].value is True
    (ctx.holds if okd else ctx.violation)("C13.2", ckey(ff, None, "top-default"), where(ff, ff.node),
                                          "format_descriptor renders the top-level pattern by default" if okd else "format_descriptor(top=…) no longer defaults to True")
    # to_string: fresh dictionary, top=True, single descriptor returned
    tf, tflow = fn(ss, DECAY, "DecayChain.to_string")
    calls = [c for c in pf.calls_in(tf.node) if txt(c.func) == "_expand_decay_modes"]
    ok = len(calls) == 1 and calls[0].args and tflow.text(calls[0].args[0]) == "self.to_dict()" and \
        (call_arg(calls[0], None, "top") is None or txt(call_arg(calls[0], None, "top")) == "True") and call_arg(calls[0], None, "aliases") is None
    (ctx.holds if ok else ctx.violation)("C13.2", ckey(tf, None, "entry"), where(tf, tf.node),
                                          "to_string renders self.to_dict() with the top-level pattern" if ok else "to_string does not render self.to_dict() with top=True")
    r = returns(tf)
    okr = len(r) == 1 and tflow.text(r[0].value) == "_expand_decay_modes(self.to_dict(), top=True)[0]"
    (ctx.holds if okr else ctx.violation)("C13.2", ckey(tf, None, "result"), where(tf, tf.node),
                                           "to_string returns the single descriptor" if okr else f"to_string returns `{tflow.text(r[0].value)[:80] if r else None}`")


def c13_3(ctx, ss):
    mf = pf.module_facts(ss, UTIL)
    cf = mf.classes.get("DescriptorFormat")
    if cf is None or "config" not in cf.class_attrs:
        raise AnchorMissing("DescriptorFormat.config not found")
    try:
        cfg = ast.literal_eval(cf.class_attrs["config"])
    except Exception as e:
        raise AnchorMissing(f"DescriptorFormat.config is not a literal: {e}")
    W = f"src/decaylanguage/{UTIL}:{cf.node.lineno}"
    if set(cfg) != {"decay_pattern", "sub_decay_pattern"}:
        ctx.violation("C13.3", f"{UTIL}:DescriptorFormat.config :: keys", W, f"default config has keys {sorted(cfg)}")
        return
    for key, pat in cfg.items():
        ph = {t[1] for t in string.Formatter().parse(pat) if isinstance(t[1], str)}
        k = f"{UTIL}:DescriptorFormat.config :: {key}"
        if ph == {"mother", "daughters"}:
            ctx.holds("C13.3", k + " :: placeholders", W, f"default {key} {pat!r} has exactly {{mother}} and {{daughters}}", 1)
        else:
            ctx.violation("C13.3", k + " :: placeholders", W, f"default {key} {pat!r} has placeholders {sorted(ph)}")
        if pat.index("{mother}") > pat.index("{daughters}") if ph == {"mother", "daughters"} else False:
            ctx.violation("C13.3", k + " :: order", W, f"default {key} renders the daughters before the mother")
    sub = cfg["sub_decay_pattern"]
    pairs = {"(": ")", "[": "]", "<": ">", "{": "}"}

    def delimited(pat):
        parts = list(string.Formatter().parse(pat))
        head = parts[0][0] if parts else ""
        tail = parts[-1][0] if parts and parts[-1][1] is None else ""
        return bool(head) and head[0] in pairs and tail.endswith(pairs[head[0]])
    if delimited(sub):
        ctx.holds("C13.3", f"{UTIL}:DescriptorFormat.config :: brackets", W, f"default nested pattern {sub!r} is delimited by {sub[0]}…{sub[-1]}", 1)
    else:
        ctx.violation("C13.3", f"{UTIL}:DescriptorFormat.config :: brackets", W, f"default nested pattern {sub!r} is not bracket-delimited: nesting cannot be read back from the string")
    top = cfg["decay_pattern"]
    if delimited(top):
        ctx.violation("C13.3", f"{UTIL}:DescriptorFormat.config :: top-plain", W, "the default top-level pattern is bracketed like a nested one")
