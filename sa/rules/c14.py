"""C14 — descriptor format settings are scoped and validated (DESIGN.md §4 C14)."""
from __future__ import annotations

import ast

from ..core import guards
from ..core import pyfacts as pf
from ..core.match import canon, txt
from ..core.source import AnchorMissing
from .common import UTIL, ckey, enclosing, fn, returns, stmt_of, where

PROP = "C14"
FILES = [UTIL]
EXPLANATION = (
    "Typestate of the DescriptorFormat context manager decided structurally: C14.1 what __exit__ restores is only ever "
    "written by __enter__, from a read of the class-level format that precedes the installation of the new one; C14.2 the "
    "snapshots form a stack (append in __enter__, pop of the same attribute in __exit__) so the same object can be "
    "re-entered; C14.3 every path of __exit__ restores, independent of the exception arguments; C14.4 who-may-write: the "
    "only store to DescriptorFormat.config in the package is in set_config and nothing mutates it in place; C14.5 "
    "validate-before-write: the store is dominated by the completed validation loop over both patterns, the stored object "
    "is the validated one, the raise is reached exactly on set inequality; C14.6 validator and formatter agree on the "
    "placeholder names; C14.7 the renderer is stateless: it writes no class / module state, reads only the format in force "
    "at the time of the call, is not cached, and every branch formats with a pattern taken from that format.")
NOT_DECIDED = ["equality of rendered strings after arbitrary histories (needs execution); the stack model itself is decided structurally"]
C = "DescriptorFormat"


def run(ctx, ss):
    for r, f in (("C14.1", c14_1), ("C14.3", c14_3), ("C14.4", c14_4), ("C14.5", c14_5), ("C14.6", c14_6), ("C14.7", c14_7)):
        ctx.guard(r, f, ss)
    # C14.8: rendering is not memoised under a key that leaves out the format in force (shared.py)
    from .shared import memo_for
    ctx.guard("C14.8", memo_for, ss, "C14", "C14.8", "a rendering")


def _is_config(e: ast.AST) -> bool:
    t = txt(e)
    return t in (f"{C}.config", "cls.config", "self.config", "self.__class__.config", "type(self).config")


def _reads_config(e: ast.AST) -> bool:
    return any(isinstance(x, ast.Attribute) and _is_config(x) and isinstance(x.ctx, ast.Load) for x in ast.walk(e))


def c14_1(ctx, ss):
    ex, exflow = fn(ss, UTIL, f"{C}.__exit__")
    en, enflow = fn(ss, UTIL, f"{C}.__enter__")
    ini, iniflow = fn(ss, UTIL, f"{C}.__init__")
    restores = [c for c in pf.calls_in(ex.node) if txt(c.func).endswith("set_config")]
    key = f"{UTIL}:{C} :: snapshot-at-entry"
    if not restores:
        ctx.violation("C14.3", ckey(ex, None, "restores"), where(ex, ex.node), "__exit__ never restores a format")
        return
    c = restores[0]
    arg = next((kw.value for kw in c.keywords if kw.arg is None), None)
    if arg is None:
        raise AnchorMissing("__exit__: restore call is not set_config(**snapshot)")
    arg = exflow.expand(arg)
    # stack or slot?
    attr, is_stack = None, False
    if isinstance(arg, ast.Call) and isinstance(arg.func, ast.Attribute) and arg.func.attr == "pop" and isinstance(arg.func.value, ast.Attribute) \
            and txt(arg.func.value.value) == "self" and (not arg.args or txt(arg.args[0]) == "-1"):
        attr, is_stack = arg.func.value.attr, True
    elif isinstance(arg, ast.Attribute) and txt(arg.value) == "self":
        attr = arg.attr
    else:
        raise AnchorMissing(f"__exit__ restores `{txt(arg)}`: neither self.<slot> nor self.<stack>.pop()")
    # writers of self.<attr> in the class
    mf = pf.module_facts(ss, UTIL)
    cf = mf.classes[C]
    snaps = []      # (method, node, expr that reads the class-level format)
    pushes = 0
    for mname, m in cf.methods.items():
        fl = __import__("sa.core.defuse", fromlist=["flow_of"]).flow_of(ss, m)
        for st in pf.iter_stmts(m.node.body):
            if isinstance(st, (ast.Assign, ast.AnnAssign)):
                ts = st.targets if isinstance(st, ast.Assign) else [st.target]
                if any(isinstance(t, ast.Attribute) and t.attr == attr and txt(t.value) == "self" for t in ts) and st.value is not None:
                    v = fl.expand(st.value)
                    if _reads_config(v):
                        snaps.append((m, st, v, "store"))
                    elif not (isinstance(v, (ast.List,)) and not v.elts):
                        snaps.append((m, st, v, "store-other"))
            elif isinstance(st, ast.Expr) and isinstance(st.value, ast.Call) and isinstance(st.value.func, ast.Attribute) \
                    and txt(st.value.func.value) == f"self.{attr}" and st.value.func.attr in ("append", "insert", "extend"):
                v = fl.expand(st.value.args[-1])
                pushes += 1
                snaps.append((m, st, v, "push"))
    if not snaps:
        ctx.violation("C14.1", key, where(ex, c), f"nothing ever saves the format in force into self.{attr}: __exit__ cannot restore it")
        return
    ok = True
    for m, st, v, how in snaps:
        if m.node.name != "__enter__":
            ok = False
            ctx.violation("C14.1", key, where(m, st),
                          f"the format restored on exit is saved in {m.node.name} (`{txt(st)[:70]}`), not when the context is entered: a context object created "
                          "earlier restores a stale format")
            continue
        if not _reads_config(v):
            ok = False
            ctx.violation("C14.1", key, where(m, st), f"what __enter__ saves (`{txt(v)[:60]}`) is not the class-level format in force")
            continue
        # the read must precede the installation of the new format
        installs = [x for x in pf.calls_in(en.node) if txt(x.func).endswith("set_config")]
        if not installs:
            ok = False
            ctx.violation("C14.1", key, where(en, en.node), "__enter__ does not install the new format")
            continue
        cfg = enflow.cfg
        inst = cfg.node_of(stmt_of(en, installs[0]))
        # statement that READS config (the def of the saved value, or the push itself)
        read_stmt = st
        if isinstance(st, ast.Expr) and st.value.args and isinstance(st.value.args[-1], ast.Name):
            ds = enflow.defs_of(st.value.args[-1])
            if len(ds) == 1 and ds[0].stmt is not None:
                read_stmt = ds[0].stmt
        rn = cfg.node_of(read_stmt)
        if cfg.dominates(rn, inst) and rn != inst:
            ctx.holds("C14.1", key, where(en, read_stmt), "the saved format is read in __enter__ before the new one is installed", 3)
        else:
            ok = False
            ctx.violation("C14.1", key, where(en, read_stmt), "the format is read after (or without) installing the new one: the context would 'restore' its own format")
        # a copy, not an alias (set_config rebinds, so an alias is safe too; record only)
    # C14.2 stack discipline
    k2 = f"{UTIL}:{C} :: stack"
    if is_stack and pushes >= 1 and all(how == "push" for m, st, v, how in snaps if m.node.name == "__enter__"):
        ctx.holds("C14.2", k2, where(ex, c), f"snapshots are pushed on self.{attr} in __enter__ and popped in __exit__ (re-entrant)", 2)
    else:
        ctx.violation("C14.2", k2, where(ex, c),
                      f"the snapshot is kept in the single slot self.{attr}: entering the same context object again before leaving it overwrites the outer snapshot")
    # a failed installation must not leave a dangling snapshot: push after the install, or install cannot fail before push
    if is_stack:
        for m, st, v, how in snaps:
            if how == "push" and m.node.name == "__enter__":
                installs = [x for x in pf.calls_in(en.node) if txt(x.func).endswith("set_config")]
                cfg = enflow.cfg
                if installs and cfg.dominates(cfg.node_of(stmt_of(en, installs[0])), cfg.node_of(st)):
                    ctx.holds("C14.2", k2 + " :: after-install", where(en, st), "the snapshot is pushed only after the new format was validated and installed", 1)
                else:
                    ctx.violation("C14.2", k2 + " :: after-install", where(en, st),
                                  "the snapshot is pushed before the new format is validated: a rejected pattern leaves a dangling snapshot on the stack")
    # __enter__ installs the constructor's patterns
    inst = [x for x in pf.calls_in(en.node) if txt(x.func).endswith("set_config")]
    okn = bool(inst) and any(kw.arg is None and txt(kw.value) == "self.new_config" for kw in inst[0].keywords)
    from .common import dict_entries
    from ..core.defuse import flow_of
    ents, _sts, econd = dict_entries(ini, flow_of(ss, ini), "self.new_config")
    okd = not econd and {k_.strip("'\""): txt(v) for k_, v in ents} == {"decay_pattern": "decay_pattern", "sub_decay_pattern": "sub_decay_pattern"}
    (ctx.holds if okn and okd else ctx.violation)("C14.1", f"{UTIL}:{C} :: installs-own", where(en, en.node),
                                                  "__enter__ installs the two patterns given to the constructor" if okn and okd
                                                  else "__enter__ does not install the constructor's two patterns in their own slots")


def c14_3(ctx, ss):
    ex, flow = fn(ss, UTIL, f"{C}.__exit__")
    restores = [stmt_of(ex, c) for c in pf.calls_in(ex.node) if txt(c.func).endswith("set_config")]
    if not restores:
        return   # reported by c14_1
    cfg = flow.cfg
    k = f"{UTIL}:{C}.__exit__ :: unconditional"
    if cfg.must_pass({cfg.node_of(s) for s in restores}) and not any(
            c for s in restores for c in guards.path_conditions(ex.node, s) if c[0] in ("if", "exc")):
        ctx.holds("C14.3", k, where(ex, restores[0]), "every path of __exit__ restores, not conditional on the exception arguments", len(restores))
    else:
        ctx.violation("C14.3", k, where(ex, restores[0]), "__exit__ restores the format only on some paths (e.g. only when no exception is in flight)")
    rets = [r for r in returns(ex) if r.value is not None and not (isinstance(r.value, ast.Constant) and r.value.value in (None, False))]
    if rets:
        ctx.violation("C14.3", k + " :: swallow", where(ex, rets[0]), "__exit__ returns a true value: exceptions raised inside the block are swallowed")


def c14_4(ctx, ss):
    n = 0
    writers = []
    for m in pf.all_modules(ss):
        mf = pf.module_facts(ss, m)
        bodies = [(ff, ff.node) for ff in mf.funcs.values()]
        for ff, node in bodies:
            for x in pf.walk_no_nested(node):
                n += 1
                if isinstance(x, (ast.Assign, ast.AnnAssign, ast.AugAssign)):
                    ts = x.targets if isinstance(x, ast.Assign) else [x.target]
                    for t in ts:
                        if isinstance(t, ast.Attribute) and t.attr == "config" and (_is_config(t) or (m == UTIL and txt(t.value) in ("cls", "self"))):
                            writers.append((ff, x, "rebinds"))
                        if isinstance(t, ast.Subscript) and _is_config(t.value):
                            writers.append((ff, x, "mutates in place"))
                elif isinstance(x, ast.Call) and isinstance(x.func, ast.Attribute) and _is_config(x.func.value) and \
                        x.func.attr in ("update", "clear", "pop", "setdefault", "popitem", "__setitem__"):
                    writers.append((ff, x, "mutates in place"))
                elif isinstance(x, ast.Call) and txt(x.func) == "setattr" and x.args and txt(x.args[0]) in (C, "cls") :
                    writers.append((ff, x, "setattr"))
    ctx.count("ast_nodes", n)
    ok = True
    for ff, x, how in writers:
        k = ckey(ff, None, f"writes-config:{how}")
        if ff.module == UTIL and ff.qualname == f"{C}.set_config" and how == "rebinds":
            ctx.holds("C14.4", k, where(ff, x), "set_config is the writer of the process-wide format", 1)
        else:
            ok = False
            ctx.violation("C14.4", k, where(ff, x), f"{ff.qualname} {how} DescriptorFormat.config outside the validating set_config")
    ctx.floor("C14.4", "writers of DescriptorFormat.config", len(writers), 1)
    # embedded example (expected count of offenders on the tree is zero)
    ex = ast.parse("def f():\n    DescriptorFormat.config['decay_pattern'] = 'x'\n").body[0].body[0]
    fired = isinstance(ex.targets[0], ast.Subscript) and _is_config(ex.targets[0].value)
    (ctx.holds if fired else ctx.undecided)("C14.4", "embedded-example", "-", "embedded in-place mutation example is detected" if fired else "embedded example not detected")


def c14_5(ctx, ss):
    ff, flow = fn(ss, UTIL, f"{C}.set_config")
    cfg = flow.cfg
    stores = [s for s in pf.iter_stmts(ff.node.body) if isinstance(s, ast.Assign) and any(_is_config(t) for t in s.targets)]
    if not stores:
        ctx.violation("C14.5", f"{UTIL}:{C}.set_config :: after-validation", where(ff, ff.node),
                      "set_config never installs the validated dictionary as a whole (no `DescriptorFormat.config = …` after the validation loop): "
                      "a format can be half-applied when the second pattern is rejected")
        return
    st = stores[-1]
    k = f"{UTIL}:{C}.set_config"
    loops = [n for n in pf.walk_no_nested(ff.node) if isinstance(n, ast.For)]
    raises = [n for n in pf.walk_no_nested(ff.node) if isinstance(n, ast.Raise)]
    vloops = [lp for lp in loops if any(any(r is x for x in ast.walk(lp)) for r in raises)]
    if not vloops:
        ctx.violation("C14.5", k + " :: validates", where(ff, ff.node), "set_config installs patterns without a validation loop that can raise")
        return
    lp = vloops[0]
    # (a) every store comes after the completed loop
    for i, s_ in enumerate(stores):
        kk = k + " :: after-validation" + (f"#{i}" if len(stores) > 1 and s_ is not st else "")
        if cfg.dominates(cfg.node_of(lp), cfg.node_of(s_)) and not enclosing(ff, s_, (ast.For, ast.While)) and not [c for c in guards.path_conditions(ff.node, s_) if c[0] == "if"]:
            ctx.holds("C14.5", kk, where(ff, s_), "the format is stored only after the validation loop has completed", 2)
        else:
            ctx.violation("C14.5", kk, where(ff, s_), "the format is stored before / inside the validation loop or under a condition: an invalid pattern can be installed")
    # (b) the loop covers both patterns and the stored object is the validated one
    it = flow.expand(lp.iter)
    stored = flow.expand(st.value)
    both = False
    if isinstance(it, ast.Call) and isinstance(it.func, ast.Attribute) and it.func.attr == "values" and isinstance(it.func.value, ast.Dict):
        d = it.func.value
        both = sorted(txt(v) for v in d.values) == ["decay_pattern", "sub_decay_pattern"] and txt(stored) == txt(d) \
            and {k_.value: txt(v) for k_, v in zip(d.keys, d.values)} == {"decay_pattern": "decay_pattern", "sub_decay_pattern": "sub_decay_pattern"}
    elif isinstance(it, (ast.Tuple, ast.List)):
        both = sorted(txt(v) for v in it.elts) == ["decay_pattern", "sub_decay_pattern"]
    if both:
        ctx.holds("C14.5", k + " :: both-patterns", where(ff, lp), "both patterns are validated and the stored dictionary is the validated one", 3)
    else:
        ctx.violation("C14.5", k + " :: both-patterns", where(ff, lp), f"validation iterates `{txt(it)[:80]}` and stores `{txt(stored)[:80]}`: not both patterns / not the validated object")
    # (c) raise exactly on set inequality of the placeholder set of the loop variable
    ok = False
    why = "no raise guarded by a set comparison"
    for r in raises:
        conds = [(flow.expand(e), pol) for kind, e, pol in guards.path_conditions(lp, r) if kind == "if"]
        if len(conds) != 1:
            why = f"raise guarded by {len(conds)} conditions"
            continue
        e, pol = conds[0]
        if isinstance(e, ast.Compare) and len(e.ops) == 1 and isinstance(e.ops[0], (ast.NotEq, ast.Eq)) and (isinstance(e.ops[0], ast.NotEq) == pol):
            sides = [e.left, e.comparators[0]]
            lit = [s for s in sides if isinstance(s, ast.Set)]
            comp = [s for s in sides if isinstance(s, ast.SetComp)]
            if len(lit) == 1 and len(comp) == 1:
                names = sorted(x.value for x in lit[0].elts if isinstance(x, ast.Constant))
                g = comp[0].generators
                src = txt(g[0].iter) if len(g) == 1 else ""
                tgt = isinstance(lp.target, ast.Name) and lp.target.id
                P = f"__elem__({txt(flow.expand(lp.iter))})"
                whole = txt(comp[0]).replace("string.", "") in (
                    canon(f"{{__elem__(Formatter().parse({P}))[1] for t in Formatter().parse({P}) if isinstance(__elem__(Formatter().parse({P}))[1], str)}}"),)
                if names == ["daughters", "mother"] and whole:
                    ok = True
                else:
                    why = f"placeholder comparison is `{txt(e)[:100]}`"
            else:
                why = f"comparison `{txt(e)[:100]}` is not between the pattern's placeholder set and the expected set"
        else:
            why = f"raise guarded by `{txt(e)[:80]}` ({'true' if pol else 'false'}): not set inequality (a superset / subset test lets extra or missing placeholders through)"
    (ctx.holds if ok else ctx.violation)("C14.5", k + " :: rejects", where(ff, raises[0]),
                                          "a pattern is rejected exactly when its placeholder set differs from {mother, daughters}" if ok else why)


def c14_6(ctx, ss):
    ff, flow = fn(ss, UTIL, f"{C}.set_config")
    gf_, gflow = fn(ss, UTIL, f"{C}.format_descriptor")
    sets = [n for n in pf.walk_no_nested(ff.node) if isinstance(n, ast.Set) and all(isinstance(e, ast.Constant) for e in n.elts)]
    # names the formatter supplies: keys of a literal dict passed as **kwargs, or explicit keywords of the formatting call
    b = set()
    for c in pf.calls_in(gf_.node):
        for kw in c.keywords:
            if kw.arg is None:
                v = gflow.expand(kw.value)
                if isinstance(v, ast.Dict) and all(isinstance(k_, ast.Constant) for k_ in v.keys):
                    b |= {k_.value for k_ in v.keys}
            elif kw.arg in ("mother", "daughters") or (isinstance(c.func, ast.Attribute) and c.func.attr == "format"):
                b.add(kw.arg)
    if not sets or not b:
        raise AnchorMissing("placeholder set / names supplied by the formatter not found")
    a = {e.value for e in sets[0].elts}
    k = f"{UTIL}:{C} :: placeholder-agreement"
    if a == b == {"mother", "daughters"}:
        ctx.holds("C14.6", k, where(ff, sets[0]), "validator and formatter agree on {mother, daughters}", 2)
    else:
        ctx.violation("C14.6", k, where(ff, sets[0]), f"validator expects {sorted(a)}, the formatter supplies {sorted(b)}: validated patterns can fail (KeyError) or render wrongly")


def c14_7(ctx, ss):
    """The renderer depends on the format in force at the time of the call and on nothing else: it reads no class /
    module state other than DescriptorFormat.config and writes none (a cache in the renderer survives __exit__)."""
    from ..core.effects import effects
    ff, flow = fn(ss, UTIL, f"{C}.format_descriptor")
    ef = effects(ss)
    k = ckey(ff, None, "stateless-renderer")
    ws = [w for w in ef.transitive_state_writes(ff.key) if w.root[0] == "state"]
    if ws:
        w = ws[0]
        wf = ef.cg.funcs[w.func]
        ctx.violation("C14.7", k, where(wf, w.node), f"the renderer writes {w.root[1]} ({w.how}): what it renders after a block can depend on what was rendered inside the block")
        return
    reads = [a for a in pf.walk_no_nested(ff.node) if isinstance(a, ast.Attribute) and isinstance(a.ctx, ast.Load)
             and txt(a.value) in (C, "cls", "self", "self.__class__", "type(self)")]
    other = [a for a in reads if a.attr != "config"]
    globs = [g for g in pf.walk_no_nested(ff.node) if isinstance(g, (ast.Global, ast.Nonlocal))]
    if other or globs:
        n = (other or globs)[0]
        ctx.violation("C14.7", k, where(ff, n), f"the renderer reads `{txt(n)[:60]}`, state other than the format in force")
        return
    if set(ff.decorators) & {"lru_cache", "cache", "functools.lru_cache", "functools.cache"}:
        ctx.violation("C14.7", k, where(ff, ff.node), "the renderer is cached across calls: the cache key does not include the format in force")
        return
    # each branch takes its pattern from the configuration at call time
    rets = returns(ff)
    bad = []
    for r in rets:
        e = flow.expand(r.value)
        if not (isinstance(e, ast.Call) and isinstance(e.func, ast.Attribute) and e.func.attr == "format" and isinstance(e.func.value, ast.Subscript)
                and _is_config(e.func.value.value)):
            bad.append(r)
    if bad or not rets:
        ctx.violation("C14.7", k, where(ff, (bad or [ff.node])[0]), f"a branch renders `{flow.text(bad[0].value)[:80] if bad else '?'}`: not <format in force>[pattern].format(…)")
    else:
        ctx.holds("C14.7", k, where(ff, ff.node), f"format_descriptor writes no state, reads only {C}.config ({len(reads)} reads) and every branch formats with the pattern in force", len(reads) + len(rets) + 1)
