"""stub"""
from ..core.source import AnchorMissing
PROP="C14"
def run(ctx, ss):
    raise AnchorMissing("rules not built yet")
