"""C15 — one node and one labelled edge per decay line (DESIGN.md §4 C15)."""
from __future__ import annotations

import ast
import re

from ..core import guards
from ..core import pyfacts as pf
from ..core.match import canon, call_arg, phi_alts, txt
from ..core.source import AnchorMissing
from .common import VIEWER, ckey, enclosing, fn, stmt_of, where

PROP = "C15"
FILES = [VIEWER]
EXPLANATION = (
    "C15.1 in iterate_chain every path through one iteration of the per-line loop creates exactly one node (through a "
    "node-creating helper) and exactly one edge, and the loop ranges over all lines; C15.2 node parts and edge label are "
    "subscripted with the loop variable of the same iteration (label = str(line['bf']), parts = line['fs']); C15.3 the names "
    "shown reach html_table_label through order-preserving element-wise maps only (no sorted / set / reversed); C15.4 the "
    "recursion passes the enumerate index of the decaying daughter as link_pos, the edge tail is '<parent>:p<link_pos>' and "
    "cells are written with PORT=\"p<i>\" from enumerate(names): same scheme on both sides; C15.5 node identifiers are the "
    "constant root id or 'dec<next(counter)>' with the module-level counter bound once and never reset; the root node is "
    "created exactly when there is no parent.")
NOT_DECIDED = ["acceptance of the output by Graphviz (external tool): not applicable"]
B = "DecayChainViewer._build_decay_graph"


def run(ctx, ss):
    for r, f in (("C15.1", c15_1), ("C15.2", c15_2), ("C15.3", c15_3), ("C15.4", c15_4), ("C15.5", c15_5)):
        ctx.guard(r, f, ss)
    # C15.6: nothing on the way from the observed entry points is memoised on a parser / tree / path / container (shared.py)
    from .shared import memo_for
    ctx.guard("C15.6", memo_for, ss, "C15", "C15.6", "a graph")
    # C15.6: building a viewer writes no module / class state shared between viewers (a shared graph body would mix their nodes)
    from .shared import no_shared_state
    ctx.guard("C15.6", no_shared_state, ss, "C15.6", [("decay/viewer.py", "DecayChainViewer.__init__")])


def _helpers(ss):
    """Nested helpers that create a graph node (call self.graph.node)."""
    mf = pf.module_facts(ss, VIEWER)
    out = {}
    for q, ff in mf.funcs.items():
        if q.startswith(B + ".") and any(txt(c.func) == "self.graph.node" for c in pf.calls_in(ff.node, nested=False)):
            out[q.split(".")[-1]] = ff
    return out


def _line_loop(ff, flow):
    loops = [n for n in pf.walk_no_nested(ff.node) if isinstance(n, ast.For) and not enclosing(ff, n, (ast.For,))]
    cands = [lp for lp in loops if any(txt(c.func) == "self.graph.edge" for c in pf.calls_in(lp))]
    if len(cands) != 1:
        raise AnchorMissing("iterate_chain: per-line loop not found")
    return cands[0]


def c15_1(ctx, ss):
    ff, flow = fn(ss, VIEWER, f"{B}.iterate_chain")
    helpers = _helpers(ss)
    creators = {n for n in helpers if n != "iterate_chain"}
    lp = _line_loop(ff, flow)
    it = txt(flow.expand(lp.iter))
    k = ckey(ff, None, "per-line")
    if it in ("range(len(subchain))", "subchain", "enumerate(subchain)"):
        ctx.holds("C15.1", k + " :: all-lines", where(ff, lp), f"the loop ranges over every decay line (`{it}`)", 1)
    else:
        ctx.violation("C15.1", k + " :: all-lines", where(ff, lp), f"the per-line loop ranges over `{it}`: not every decay line gets a node and an edge")
    cfg = flow.cfg
    hdr = cfg.node_of(lp)

    def stmts_calling(pred):
        out = set()
        for c in pf.calls_in(lp):
            if pred(c) and not any(isinstance(x, ast.For) and x is not lp for x in enclosing(ff, c, (ast.For,))):
                out.add(cfg.node_of(stmt_of(ff, c)))
        return out
    node_nodes = stmts_calling(lambda c: isinstance(c.func, ast.Name) and c.func.id in creators)
    direct = stmts_calling(lambda c: txt(c.func) == "self.graph.node")
    edge_nodes = stmts_calling(lambda c: txt(c.func) == "self.graph.edge")
    lo, hi, _ = cfg.count_per_iteration(hdr, lambda n: n.id in node_nodes or n.id in direct)
    (ctx.holds if (lo, hi) == (1, 1) else ctx.violation)("C15.1", k + " :: one-node", where(ff, lp),
                                                         "exactly one node is created per decay line on every path" if (lo, hi) == (1, 1)
                                                         else f"between {lo} and {'many' if hi >= 99 else hi} nodes are created per decay line")
    lo, hi, _ = cfg.count_per_iteration(hdr, lambda n: n.id in edge_nodes)
    (ctx.holds if (lo, hi) == (1, 1) else ctx.violation)("C15.1", k + " :: one-edge", where(ff, lp),
                                                         "exactly one edge is created per decay line on every path" if (lo, hi) == (1, 1)
                                                         else f"between {lo} and {'many' if hi >= 99 else hi} edges are created per decay line")
    ctx.count("helpers", len(helpers))
    hs = pf.module_facts(ss, VIEWER).funcs.get(f"{B}.has_subdecay")
    if hs is not None:
        r = [x for x in pf.walk_no_nested(hs.node) if isinstance(x, ast.Return)]
        p0 = hs.params[0]
        okh = len(r) == 1 and txt(r[0].value) in (canon(f"not all((isinstance(p, str) for p in {p0}))"), canon(f"any((not isinstance(p, str) for p in {p0}))"), canon(f"any((isinstance(p, dict) for p in {p0}))"))
        (ctx.holds if okh else ctx.violation)("C15.1", ckey(hs, None, "has_subdecay"), where(hs, hs.node),
                                              "a line has a sub-decay iff some daughter is not a plain name" if okh else f"has_subdecay is `{txt(r[0].value) if r else None}`")
    ws = helpers.get("new_node_with_subchain")
    if ws is not None:
        from ..core.defuse import flow_of
        wflow = flow_of(ss, ws)
        calls = [c for c in pf.calls_in(ws.node, nested=False) if isinstance(c.func, ast.Name) and c.func.id == "html_table_label"]
        a = wflow.expand(calls[0].args[0]) if calls else None
        p0 = ws.params[0]
        okn = isinstance(a, ast.ListComp) and isinstance(a.elt, ast.IfExp) and txt(a.elt.test) == f"isinstance(__elem__({p0}), dict)" \
            and txt(a.elt.body) == f"next(iter(__elem__({p0})))" and txt(a.elt.orelse) == f"__elem__({p0})"
        (ctx.holds if okn else ctx.violation)("C15.3", ckey(ws, None, "names"), where(ws, ws.node),
                                              "a decaying daughter is shown by its name (the key of its sub-chain), others as they are" if okn
                                              else "the names shown in a node with sub-decays are not 'key of the sub-chain, or the daughter itself'")


def c15_2(ctx, ss):
    ff, flow = fn(ss, VIEWER, f"{B}.iterate_chain")
    lp = _line_loop(ff, flow)
    lv = lp.target.id if isinstance(lp.target, ast.Name) else None
    subs = [s for s in ast.walk(lp) if isinstance(s, ast.Subscript) and isinstance(s.value, ast.Name) and s.value.id == "subchain"]
    k = ckey(ff, None, "same-line")
    if txt(lp.iter) == "subchain":
        subs = []
    bad = [s for s in subs if txt(s.slice) != lv]
    if bad:
        ctx.violation("C15.2", k + " :: index", where(ff, bad[0]), f"`{txt(bad[0])}` does not use the loop variable `{lv}`: parts / label are taken from another decay line")
    else:
        ctx.holds("C15.2", k + " :: index", where(ff, lp), f"all {len(subs)} subscripts of subchain use the loop variable", len(subs) + 1)


def c15_3(ctx, ss):
    helpers = _helpers(ss)
    REORDER = {"sorted", "reversed", "set", "frozenset"}
    n = 0
    for name, hf in helpers.items():
        if name == "iterate_chain":
            continue
        from ..core.defuse import flow_of
        hflow = flow_of(ss, hf)
        calls = [c for c in pf.calls_in(hf.node, nested=False) if isinstance(c.func, ast.Name) and c.func.id == "html_table_label"]
        for c in calls:
            n += 1
            a = hflow.expand(c.args[0])
            k = ckey(hf, None, "order")
            bad = [x for x in ast.walk(a) if isinstance(x, ast.Call) and isinstance(x.func, ast.Name) and x.func.id in REORDER] + \
                  [x for x in ast.walk(a) if isinstance(x, ast.Call) and isinstance(x.func, ast.Attribute) and x.func.attr in ("sort", "reverse")] + \
                  [x for x in ast.walk(a) if isinstance(x, ast.Subscript) and isinstance(x.slice, ast.Slice)]
            p0 = hf.params[0]
            ok_src = txt(a) == p0 or (isinstance(a, ast.ListComp) and len(a.generators) == 1 and not a.generators[0].ifs and txt(a.generators[0].iter) == p0)
            if bad:
                ctx.violation("C15.3", k, where(hf, c), f"{name}: the daughters shown are reordered / cut (`{txt(bad[0])[:60]}`): the node no longer lists them in the given order")
            elif not ok_src:
                ctx.violation("C15.3", k, where(hf, c), f"{name}: the names shown are `{txt(a)[:80]}`, not an element-wise map of the daughters")
            else:
                ctx.holds("C15.3", k, where(hf, c), f"{name}: names reach the label in the given order", 2)
        srt = [c for c in pf.calls_in(hf.node) if isinstance(c.func, ast.Attribute) and c.func.attr in ("sort", "reverse") and txt(c.func.value) == hf.params[0]]
        if srt:
            ctx.violation("C15.3", ckey(hf, None, "inplace-sort"), where(hf, srt[0]), f"{name} sorts the daughters in place")
    ctx.floor("C15.3", "label-building call sites", n, 2)
    # every node is registered WITH the label built from its parts (a node without label shows only its internal id)
    for name, hf in helpers.items():
        if name == "iterate_chain":
            continue
        from ..core.defuse import flow_of as _fo
        hflow = _fo(ss, hf)
        for c in [c for c in pf.calls_in(hf.node, nested=False) if txt(c.func) == "self.graph.node"]:
            lab = call_arg(c, 1, "label")
            e_ = hflow.expand(lab) if lab is not None else None
            okl = isinstance(e_, ast.Call) and isinstance(e_.func, ast.Name) and e_.func.id == "html_table_label"
            (ctx.holds if okl else ctx.violation)("C15.3", ckey(hf, None, "node-label"), where(hf, c),
                                                  f"{name}: the node carries the label built from its daughters" if okl
                                                  else f"{name}: the node is registered with label `{txt(e_)[:60] if e_ is not None else None}`: its daughters are not shown")
    # per case (with / without ports): one cell per name showing that name; ports are written exactly in the tagged case
    from .common import case_of as _case_of
    lf0, lflow0 = fn(ss, VIEWER, f"{B}.html_table_label")
    for tags in (True, False):
        def atom(e, tags=tags):
            return tags if txt(e) == "add_tags" else None
        cf, cflow = _case_of(ss, lf0, lflow0, atom, f"tags={tags}")
        p0 = cf.params[0]
        cells = []
        for js in [x for x in pf.walk_no_nested(cf.node) if isinstance(x, ast.JoinedStr)]:
            fvs = [cflow.expand(v.value) for v in js.values if isinstance(v, ast.FormattedValue)]
            shows = [e for e in fvs if any(isinstance(y, ast.Call) and txt(y.func) == "__elem__" and p0 in txt(y) for y in ast.walk(e))
                     and any(isinstance(y, ast.Call) and txt(y.func) == "safe_html_name" for y in ast.walk(e))]
            has_port = any(isinstance(v, ast.Constant) and isinstance(v.value, str) and 'PORT="' in v.value for v in js.values)
            if shows:
                cells.append(has_port)
        kc = ckey(lf0, None, f"cells:{'ports' if tags else 'plain'}")
        okc = len(cells) == 1 and cells[0] == tags
        (ctx.holds if okc else ctx.violation)("C15.3", kc, where(lf0, lf0.node),
                                              f"html_table_label(add_tags={tags}): one cell per name showing the name{', with its port' if tags else ''}" if okc
                                              else f"html_table_label(add_tags={tags}): {len(cells)} cell templates show the names, ports written: {cells} (expected one, with port = {tags})")
    # html_table_label itself iterates in order
    lf, lflow = fn(ss, VIEWER, f"{B}.html_table_label")
    # every iteration that produces cells runs over ALL the names, in order (a for loop or a comprehension; no filter, slice, reordering)
    p0 = lf.params[0]
    srcs = []
    for x in pf.walk_no_nested(lf.node):
        if isinstance(x, ast.For):
            srcs.append((x.iter, [], any(isinstance(y, (ast.Break, ast.Continue)) for y in ast.walk(x))))
        elif isinstance(x, (ast.ListComp, ast.GeneratorExp, ast.SetComp)):
            for g in x.generators:
                srcs.append((g.iter, g.ifs, isinstance(x, ast.SetComp)))
    srcs = [(it, ifs, bad_) for it, ifs, bad_ in srcs if any(isinstance(y, ast.Name) and y.id == p0 for y in ast.walk(lflow.expand(it)))]
    ok = bool(srcs) and all(txt(lflow.expand(it)) in (p0, f"enumerate({p0})") and not ifs and not bad_ for it, ifs, bad_ in srcs)
    (ctx.holds if ok else ctx.violation)("C15.3", ckey(lf, None, "cells"), where(lf, lf.node),
                                          "html_table_label writes one cell per name, in order" if ok
                                          else f"html_table_label does not run over all the names in order ({[txt(it)[:40] for it, _, _ in srcs]})")


def _creator_roles(ss):
    """(plain, tagged): names of the node-creating helpers — the tagged one builds its label with add_tags=True (one port
    per daughter, for lines with a decaying daughter), the plain one without."""
    helpers = _helpers(ss)
    plain = tagged = None
    for name, hf in helpers.items():
        if name == "iterate_chain":
            continue
        calls = [c for c in pf.calls_in(hf.node, nested=False) if isinstance(c.func, ast.Name) and c.func.id == "html_table_label"]
        if not calls:
            continue
        tags = any(kw.arg == "add_tags" and isinstance(kw.value, ast.Constant) and kw.value.value is True for c in calls for kw in c.keywords)
        if tags:
            tagged = name
        else:
            plain = name
    if plain is None or tagged is None:
        raise AnchorMissing("the two node-creating helpers (label with / without ports) were not found")
    return plain, tagged


def c15_4(ctx, ss):
    """Case analysis of one decay line: (line has a decaying daughter?) × (drawn below a port of the parent?).  The function
    is specialised to each case (guards.specialise) and read with the ordinary engines, so duplicated branches, merged
    branches with conditional expressions, guard clauses … all give the same facts."""
    from .common import case_of
    ff, flow = fn(ss, VIEWER, f"{B}.iterate_chain")
    plain, tagged = _creator_roles(ss)
    lp0 = _line_loop(ff, flow)
    lv = lp0.target.id if isinstance(lp0.target, ast.Name) else None
    line = f"subchain[{lv}]" if txt(lp0.iter) != "subchain" else "__elem__(subchain)"
    KEEP = {lv, "top_node", "link_pos"} - {None}
    tails = set()
    rec_total = 0
    for sub in (False, True):
        for link_none in (True, False):
            def atom(e, sub=sub, link_none=link_none):
                t = txt(e)
                if t.startswith("has_subdecay("):
                    return sub
                if t == "link_pos is None":
                    return link_none
                if t == "link_pos":          # truthiness test of the position: 0 is a valid position, so it does not decide
                    return None
                return None
            cf, cflow = case_of(ss, ff, flow, atom, f"sub={sub},port={not link_none}")
            case = f"{'with' if sub else 'without'} decaying daughter, {'top level' if link_none else 'below a port'}"
            kc = f"{VIEWER}:{B}.iterate_chain :: case[{'sub' if sub else 'plain'},{'top' if link_none else 'port'}]"
            lp = _line_loop(cf, cflow)
            edges = [c for c in pf.calls_in(lp) if txt(c.func) == "self.graph.edge"]
            if len(edges) != 1 or len(edges[0].args) < 2:
                ctx.violation("C15.1", kc + " :: one-edge", where(cf, lp), f"{case}: {len(edges)} edge statements remain in this case (expected one)")
                continue
            e = edges[0]
            head = cflow.expand(e.args[1], keep=KEEP)
            want_h = tagged if sub else plain
            okh = isinstance(head, ast.Call) and isinstance(head.func, ast.Name) and head.func.id == want_h and len(head.args) == 1
            (ctx.holds if okh else ctx.violation)("C15.1", kc + " :: edge-head", where(cf, e),
                                                  f"{case}: the edge ends at the node created for this line by {want_h}" if okh
                                                  else f"{case}: the edge ends at `{txt(head)[:70]}` (expected the node created by {want_h}(<daughters of this line>))")
            if okh:
                t2 = txt(head.args[0])
                ok2 = t2 in (f"{line}['fs']", "__elem__(subchain)['fs']")
                (ctx.holds if ok2 else ctx.violation)("C15.2", kc + " :: parts", where(cf, e),
                                                      "node parts = this line's fs" if ok2 else f"the node lists `{t2}`, not the daughters of this decay line")
            lab = call_arg(e, 2, "label")
            t = txt(cflow.expand(lab, keep=KEEP)) if lab is not None else None
            okl = t in (f"str({line}['bf'])", "str(__elem__(subchain)['bf'])")
            (ctx.holds if okl else ctx.violation)("C15.2", kc + " :: label", where(cf, e),
                                                  "edge label = str(this line's bf)" if okl else f"edge label is `{t}`, not the branching fraction of this decay line")
            # tail: the parent itself at top level, the parent's port of the decaying daughter otherwise
            tail = cflow.expand(e.args[0], keep=KEEP)
            if link_none:
                okt = txt(tail) == "top_node"
            else:
                okt = False
                if isinstance(tail, ast.JoinedStr):
                    vals = tail.values
                    if len(vals) == 3 and isinstance(vals[1], ast.Constant) and isinstance(vals[0], ast.FormattedValue) and isinstance(vals[2], ast.FormattedValue):
                        m = re.fullmatch(r":(\w*)", vals[1].value)
                        if m and txt(vals[0].value) == "top_node" and txt(vals[2].value) == "link_pos":
                            okt = True
                            tails.add(m.group(1))
            (ctx.holds if okt else ctx.violation)("C15.4", kc + " :: tail", where(cf, e),
                                                  f"{case}: the edge leaves {'the parent node' if link_none else 'the port <parent>:p<link_pos>'}" if okt
                                                  else f"{case}: edge tail is `{txt(tail)[:70]}`")
            # recursion
            rec = [c for c in pf.calls_in(lp) if isinstance(c.func, ast.Name) and c.func.id == "iterate_chain"]
            kr = kc + " :: recursion"
            if not sub:
                (ctx.holds if not rec else ctx.violation)("C15.4", kr, where(cf, rec[0] if rec else lp),
                                                          "no recursion for a line of plain names" if not rec else "a line without decaying daughter recurses")
                continue
            rec_total += len(rec)
            if len(rec) != 1:
                ctx.violation("C15.4", kr, where(cf, lp), f"{case}: {len(rec)} recursive calls (expected one, inside the loop over the daughters)")
                continue
            c = rec[0]
            lps = enclosing(cf, c, (ast.For,))
            inner = lps[0]
            if not (isinstance(inner.iter, ast.Call) and txt(inner.iter.func) == "enumerate" and isinstance(inner.target, ast.Tuple) and len(inner.target.elts) == 2):
                ctx.violation("C15.4", kr, where(cf, c), "the recursion is not inside an enumerate() over the daughters")
                continue
            idx, el = (x.id for x in inner.target.elts)
            lpos, tn, subarg = call_arg(c, 2, "link_pos"), call_arg(c, 1, "top_node"), (c.args[0] if c.args else None)
            ok_pos = lpos is not None and txt(lpos) == idx
            enum_src = txt(cflow.expand(inner.iter.args[0], keep=KEEP))
            ok_list = okh and enum_src == txt(head.args[0])
            ok_tn = tn is not None and txt(cflow.expand(tn, keep=KEEP)) == txt(head)
            es = f"__elem__(enumerate({enum_src}))[1]"
            ok_sub = subarg is not None and txt(cflow.expand(subarg, keep=KEEP)) in (f"{es}[next(iter({es}))]", f"{es}[next(iter({es}))]")
            conds = [(txt(x), pol) for kind, x, pol in guards.path_conditions(inner, stmt_of(cf, c)) if kind == "if"]
            ok_guard = conds in ([(f"isinstance({el}, str)", False)], [(f"isinstance({el}, dict)", True)])
            exits = any(isinstance(x, (ast.Break, ast.Return)) for x in ast.walk(inner))
            if ok_pos and ok_list and ok_tn and ok_sub and ok_guard and not exits:
                ctx.holds("C15.4", kr, where(cf, c), "iterate_chain(<daughter's lines>, top_node=<this node>, link_pos=<daughter's index in the node>) for every decaying daughter", 5)
            else:
                ctx.violation("C15.4", kr, where(cf, c),
                              f"recursion: link_pos ok={ok_pos}, same list as the node={ok_list} ({txt(head.args[0]) if okh else None} vs {enum_src}), parent node ok={ok_tn}, sub-chain ok={ok_sub}, guard={conds}, early exit={exits}")
    if rec_total == 0:
        ctx.violation("C15.4", ckey(ff, None, "recursion"), where(ff, ff.node), "sub-decays are never drawn (no recursive call)")
    # port scheme agreement: cells carry PORT="<prefix><position>", edges leave "<parent>:<prefix><link_pos>"
    lf, lflow = fn(ss, VIEWER, f"{B}.html_table_label")
    ports = set()
    for js in [x for x in pf.walk_no_nested(lf.node) if isinstance(x, ast.JoinedStr)]:
        parts = js.values
        for i, p_ in enumerate(parts):
            if isinstance(p_, ast.Constant) and isinstance(p_.value, str) and 'PORT="' in p_.value and i + 1 < len(parts) and isinstance(parts[i + 1], ast.FormattedValue):
                prefix = p_.value.split('PORT="')[-1]
                ports.add((prefix, txt(lflow.expand(parts[i + 1].value))))
    k = ckey(ff, None, "ports")
    pos_ok = len(ports) == 1 and next(iter(ports))[1] in ("__elem__(enumerate(names))[0]",)
    ok = len(ports) == 1 and tails == {next(iter(ports))[0]} and pos_ok
    (ctx.holds if ok else ctx.violation)("C15.4", k, where(ff, ff.node),
                                          f"cells carry PORT=\"{next(iter(ports))[0]}<position>\" and edges leave '<parent>:{next(iter(ports))[0]}<link_pos>'" if ok
                                          else f"port naming differs between cells {sorted(ports)} and edge tails {sorted(tails)}")


def _branch_of(ff, node, loop):
    """The direct child statement of `loop` body's if/else branch containing node (or the loop itself)."""
    pm = pf.parent_map(ff.node)
    x = node
    last_if_block = loop
    while id(x) in pm and x is not loop:
        p = pm[id(x)]
        if isinstance(p, ast.If) and any(p is y for y in ast.walk(loop)):
            # which branch
            blk = p.body if any(x is s for s in p.body) else p.orelse
            m = ast.Module(body=blk, type_ignores=[])
            last_if_block = m
        x = p
    return last_if_block


def c15_5(ctx, ss):
    mf = pf.module_facts(ss, VIEWER)
    # counter bound once at module level
    binds = [st for st in mf.tree.body if isinstance(st, (ast.Assign, ast.AnnAssign)) and any(isinstance(t, ast.Name) and t.id == "counter" for t in (st.targets if isinstance(st, ast.Assign) else [st.target]))]
    k = f"{VIEWER}:counter"
    ok = len(binds) == 1 and txt(binds[0].value) in ("iter(itertools.count())", "itertools.count()", "count()", "iter(count())")
    (ctx.holds if ok else ctx.violation)("C15.5", k + " :: bound-once", f"src/decaylanguage/{VIEWER}:{binds[0].lineno if binds else 0}",
                                          "counter = itertools.count() bound once at module level" if ok else f"the id counter is bound {len(binds)} times / to `{txt(binds[0].value) if binds else None}`")
    rebinds = []
    for q, ff in mf.funcs.items():
        for n in pf.walk_no_nested(ff.node):
            if isinstance(n, (ast.Global, ast.Nonlocal)) and "counter" in n.names:
                rebinds.append((ff, n))
            if isinstance(n, (ast.Assign, ast.AugAssign, ast.AnnAssign)):
                ts = n.targets if isinstance(n, ast.Assign) else [n.target]
                if any(isinstance(t, ast.Name) and t.id == "counter" for t in ts):
                    rebinds.append((ff, n))
            if isinstance(n, ast.Assign) and any(isinstance(t, ast.Attribute) and t.attr == "counter" for t in n.targets):
                rebinds.append((ff, n))
    for ff, n in rebinds:
        ctx.violation("C15.5", ckey(ff, None, "counter-reset"), where(ff, n), f"{ff.qualname} rebinds / resets the node id counter: identifiers repeat across graphs of one session")
    if not rebinds:
        ctx.holds("C15.5", k + " :: never-reset", f"src/decaylanguage/{VIEWER}", "no function rebinds the counter", len(mf.funcs))
    # node ids
    n = 0
    for q, ff in mf.funcs.items():
        if not q.startswith(B):
            continue
        from ..core.defuse import flow_of
        fl = flow_of(ss, ff)
        for c in pf.calls_in(ff.node, nested=False):
            if txt(c.func) == "self.graph.node":
                n += 1
                a = fl.expand(c.args[0])
                t = txt(a)
                kk = ckey(ff, c, "id")
                if t == "'mother'" or t == "f'dec{next(counter)}'":
                    ctx.holds("C15.5", kk, where(ff, c), f"node id is {t}", 1)
                else:
                    ctx.violation("C15.5", kk, where(ff, c), f"node id `{t[:60]}` is neither the root id nor a fresh counter value")
                # the helper returns the same id it registered
                if t != "'mother'":
                    rets = [r for r in pf.walk_no_nested(ff.node) if isinstance(r, ast.Return)]
                    okr = len(rets) == 1 and isinstance(rets[0].value, ast.Name) and isinstance(c.args[0], ast.Name) and rets[0].value.id == c.args[0].id
                    (ctx.holds if okr else ctx.violation)("C15.5", ckey(ff, None, "returns-id"), where(ff, ff.node),
                                                          "the helper returns the id of the node it created (one counter draw)" if okr else "the helper returns another id than the one it registered")
    ctx.floor("C15.5", "graph.node call sites", n, 3)
    # root node: created exactly once per graph and the top-level lines hang from it.  Two layouts are equivalent:
    #  (A) iterate_chain creates it when entered without a parent, and the top-level call passes no parent;
    #  (B) the builder creates it unconditionally before the single top-level call, which passes its id as the parent.
    ff, flow = fn(ss, VIEWER, f"{B}.iterate_chain")
    bf, bflow = fn(ss, VIEWER, B)
    roots_in = [c for c in pf.calls_in(ff.node) if txt(c.func) == "self.graph.node"]
    roots_out = [c for c in pf.calls_in(bf.node, nested=False) if txt(c.func) == "self.graph.node"]
    tops = [c for c in pf.calls_in(bf.node, nested=False) if isinstance(c.func, ast.Name) and c.func.id == "iterate_chain"]
    okt = len(tops) == 1 and len(tops[0].args) >= 1 and bflow.text(tops[0].args[0]) in ("self._chain[next(iter(self._chain))]", "self._chain[next(iter(self._chain))]")
    tn = call_arg(tops[0], 1, "top_node") if tops else None
    lp_ = call_arg(tops[0], 2, "link_pos") if tops else None
    ok = False
    if len(roots_in) == 1 and not roots_out:
        conds = [(txt(e), pol) for kind, e, pol in guards.path_conditions(ff.node, stmt_of(ff, roots_in[0])) if kind == "if"]
        ok = conds in ([("top_node", False)], [("top_node is None", True)]) and not enclosing(ff, roots_in[0], (ast.For,))
        okt = okt and tn is None and lp_ is None
    elif len(roots_out) == 1 and not roots_in and tops:
        r0 = roots_out[0]
        cfg = bflow.cfg
        uncond = not [c for c in guards.path_conditions(bf.node, stmt_of(bf, r0)) if c[0] in ("if", "loop", "exc")]
        before = cfg.dominates(cfg.node_of(stmt_of(bf, r0)), cfg.node_of(stmt_of(bf, tops[0])))
        same = tn is not None and r0.args and isinstance(bflow.expand(r0.args[0]), ast.Constant) and txt(bflow.expand(tn)) == txt(bflow.expand(r0.args[0]))
        ok = uncond and before and bool(same)
        okt = okt and bool(same) and lp_ is None
    # the root shows the mother: it is registered with the label built from the chain's mother name
    for rf_, rflow_, rc in [(ff, flow, c) for c in roots_in] + [(bf, bflow, c) for c in roots_out]:
        lab = call_arg(rc, 1, "label")
        e_ = rflow_.expand(lab) if lab is not None else None
        okl = isinstance(e_, ast.Call) and isinstance(e_.func, ast.Name) and e_.func.id == "html_table_label" and e_.args \
            and txt(e_.args[0]) in ("[next(iter(self._chain))]", "[next(iter(self._chain))]")
        (ctx.holds if okl else ctx.violation)("C15.5", ckey(rf_, None, "root-label"), where(rf_, rc),
                                              "the root node shows the chain's mother" if okl else f"the root node is registered with label `{txt(e_)[:60] if e_ is not None else None}`: the mother is not shown")
    (ctx.holds if ok else ctx.violation)("C15.5", ckey(ff, None, "root"), where(ff, (roots_in or [ff.node])[0]) if roots_in else where(bf, (roots_out or [bf.node])[0]),
                                          "the root node is created exactly once, before any decay line is drawn" if ok else "the root node is not created exactly once, when there is no parent")
    (ctx.holds if okt else ctx.violation)("C15.5", ckey(bf, None, "entry"), where(bf, bf.node),
                                          "the graph is built from the lines of the chain's single mother, hanging from the root" if okt else "the top-level call does not start from the chain's mother without a parent")
