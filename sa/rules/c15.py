"""stub"""
from ..core.source import AnchorMissing
PROP="C15"
def run(ctx, ss):
    raise AnchorMissing("rules not built yet")
