"""C16 — printed tables: every mode once, ordered and scaled (DESIGN.md §4 C16)."""
from __future__ import annotations

import ast

from ..core import guards
from ..core import pyfacts as pf
from ..core.defuse import is_identity
from ..core.effects import effects
from ..core.match import call_arg, phi_alts, txt
from ..core.source import AnchorMissing
from .common import DEC, builder_sites, ckey, enclosing, fn, is_empty_list, stmt_of, where

PROP = "C16"
FILES = [DEC]
EXPLANATION = (
    "C16.1 the `ascending` option reaches the sort that fixes the print order (provenance of the sort call); C16.2 finite "
    "case evaluation for ascending ∈ {False, True}: sort direction and index of the reference element are (descending, 0) "
    "or (ascending, −1), key = branching fraction only (stable sort keeps file order among ties); C16.3 contradictory or "
    "out-of-range options raise before anything is printed; C16.4 one collected row per decay line and one printed line per "
    "row; C16.5 both row formats use bf / norm with the same 7-significant-digit format; C16.6 display_photos_keyword and "
    "print_model reach their effect; C16.7 printing writes no parser state; C16.8 a PDG mother name is mapped to its EvtGen name.")
NOT_DECIDED = ["the printed digits", "'sums to 1' under normalisation as arithmetic"]
F = "DecFileParser.print_decay_modes"


def run(ctx, ss):
    for r, f in (("C16.1", c16_1), ("C16.3", c16_3), ("C16.4", c16_4), ("C16.5", c16_5), ("C16.5", c16_5b), ("C16.6", c16_6), ("C16.7", c16_7), ("C16.8", c16_8), ("C16.3", c16_9)):
        ctx.guard(r, f, ss)
    from .c01 import details_fields
    ctx.guard("C16.9", details_fields, ss, "C16.9")
    from .shared import reading_path
    ctx.guard("C16.7", reading_path, ss, "C16.7", ["DecFileParser.print_decay_modes"], "a printed table")
    # C16.10 'values unchanged': the branching fraction written in the file is lexed as ONE number in every notation float() reads (C01.2 shared)
    from .c01 import c01_2
    from .c05 import _as
    ctx.guard("C16.10", lambda c, s: _as(c, s, c01_2, "C16.10"), ss)


def _norm_name(ff, flow):
    """The local that divides the branching fraction in the printed rows (bf / <norm>)."""
    names = set()
    for n in pf.walk_no_nested(ff.node):
        if isinstance(n, ast.BinOp) and isinstance(n.op, ast.Div) and isinstance(n.right, ast.Name) and isinstance(n.left, ast.Name):
            ds = flow.defs_of(n.left)
            if ds and all(d.kind == "for" for d in ds):
                names.add(n.right.id)
    if len(names) != 1:
        raise AnchorMissing(f"print_decay_modes: the common divisor of the printed branching fractions is not a single local ({sorted(names)})")
    return names.pop()


def _sort_calls(ff):
    out = []
    for c in pf.calls_in(ff.node, nested=False):
        if isinstance(c.func, ast.Name) and c.func.id == "sorted":
            out.append(c)
        elif isinstance(c.func, ast.Attribute) and c.func.attr == "sort":
            out.append(c)
    return out


def _direction(c: ast.Call, flow, asc: bool):
    """Direction of a sorted()/sort() call under ascending=asc: 'asc' / 'desc' / None; and whether the key is the bf."""
    def atom(e):
        if isinstance(e, ast.Name) and e.id == "ascending":
            return asc
        return None
    kw = {k.arg: flow.expand(k.value) for k in c.keywords}
    key = kw.get("key")
    rev = kw.get("reverse")
    rv = False if rev is None else guards.k3(rev, atom)
    if rv is None:
        return None, False
    neg, on_bf = False, False
    if key is None:
        on_bf = False     # sorts by the whole tuple: ties are broken by the daughters string, not by file order
        return ("desc" if rv else "asc"), on_bf
    if isinstance(key, ast.Lambda):
        body = guards.simplify(key.body, atom)
        arg = key.args.args[0].arg if key.args.args else None
        if isinstance(body, ast.UnaryOp) and isinstance(body.op, ast.USub):
            neg, body = True, body.operand
        on_bf = isinstance(body, ast.Subscript) and isinstance(body.value, ast.Name) and body.value.id == arg and txt(body.slice) == "0"
    elif txt(key) in ("itemgetter(0)", "operator.itemgetter(0)"):
        on_bf = True
    else:
        return None, False
    d = "desc" if (rv != neg) else "asc"
    return d, on_bf


def c16_1(ctx, ss):
    ff, flow = fn(ss, DEC, F)
    sorts = _sort_calls(ff)
    key = ckey(ff, None, "ascending-reaches-sort")
    if not sorts:
        ctx.violation("C16.1", key, where(ff, ff.node), "the rows are never sorted by branching fraction")
        return
    # the sort that fixes the print order: its result reaches the print loop
    prints = [c for c in pf.calls_in(ff.node) if isinstance(c.func, ast.Name) and c.func.id == "print"]
    if not prints:
        raise AnchorMissing("print_decay_modes prints nothing")
    ploops = enclosing(ff, prints[0], (ast.For,))
    if not ploops:
        raise AnchorMissing("print is not in a loop over the rows")
    it = flow.expand(ploops[0].iter)
    final = [c for c in sorts if txt(flow.expand(c)) == txt(it)] or sorts[-1:]
    c = final[0]
    mentions = any(isinstance(x, ast.Name) and x.id == "ascending" for k in c.keywords for x in ast.walk(flow.expand(k.value)))
    if mentions:
        ctx.holds("C16.1", key, where(ff, c), "the sort that fixes the print order depends on `ascending`", 2)
    else:
        ctx.violation("C16.1", key, where(ff, c), f"the option `ascending` never reaches the sort `{txt(c)[:80]}`: the requested direction is ignored")
    # C16.2 both cases
    # index of the reference element used for scaling
    NORM = _norm_name(ff, flow)
    norm_defs = [d for d in flow.defs if d.name == NORM and d.kind == "assign"]
    ref = None
    for d in norm_defs:
        v = flow.expand(d.value)
        if isinstance(v, ast.BinOp) and isinstance(v.op, ast.Div) and is_identity(v.right, "scale"):
            ref = (d, v.left)
    for asc in (False, True):
        dirn, on_bf = _direction(c, flow, asc)
        k2 = ckey(ff, None, f"case:ascending={asc}")
        want = "asc" if asc else "desc"
        if dirn is None:
            ctx.undecided("C16.2", k2, where(ff, c), "sort direction not understood")
            continue
        if dirn != want:
            ctx.violation("C16.2", k2 + " :: direction", where(ff, c), f"with ascending={asc} the rows are sorted {dirn}ending")
        elif not on_bf:
            ctx.violation("C16.2", k2 + " :: key", where(ff, c), "the sort key is not the branching fraction alone: ties are not kept in file order")
        else:
            ctx.holds("C16.2", k2 + " :: direction", where(ff, c), f"ascending={asc} ⇒ sorted {dirn}ending by branching fraction (stable)", 2)
        if ref is None:
            ctx.violation("C16.2", k2 + " :: reference", where(ff, ff.node), "no `norm = <largest bf> / scale` assignment found")
            continue

        def atom(e, asc=asc):
            if isinstance(e, ast.Name) and e.id == "ascending":
                return asc
            return None
        left = guards.simplify(ref[1], atom)
        # ls[i][0] with i resolved
        idx = None
        if isinstance(left, ast.Subscript) and txt(left.slice) == "0" and isinstance(left.value, ast.Subscript):
            idx = txt(guards.simplify(left.value.slice, atom))
            base_ok = txt(left.value.value) in (txt(guards.simplify(flow.expand(c), atom)), txt(guards.simplify(it, atom)), txt(flow.expand(c)), txt(it))
        elif isinstance(left, ast.Call) and txt(left.func) == "max":
            idx, base_ok = "max", True
        else:
            base_ok = False
        largest = (idx == "max") or (dirn == "desc" and idx == "0") or (dirn == "asc" and idx == "-1")
        if base_ok and largest:
            ctx.holds("C16.2", k2 + " :: reference", where(ff, ref[0].stmt), f"ascending={asc}: the scaling reference (index {idx}) is the largest branching fraction", 2)
        else:
            ctx.violation("C16.2", k2 + " :: reference", where(ff, ref[0].stmt),
                          f"with ascending={asc} the rows are sorted {dirn}ending but the scaling reference is element [{idx}]: the SMALLEST value becomes `scale`")


def c16_3(ctx, ss):
    ff, flow = fn(ss, DEC, F)
    cfg = flow.cfg
    prints = [stmt_of(ff, c) for c in pf.calls_in(ff.node) if isinstance(c.func, ast.Name) and c.func.id == "print"]
    raises = [n for n in pf.walk_no_nested(ff.node) if isinstance(n, ast.Raise)]

    def reach(r, assume):
        conds = [c for c in guards.path_conditions(ff.node, r) if c[0] == "if"]
        return guards.reachable_under(conds, assume, flow)

    def a_both(e):
        t = txt(e)
        if t == "scale is not None":
            return True
        if t == "scale is None":
            return False
        if isinstance(e, ast.Name) and e.id == "normalize":
            return True
        return None

    def a_range(e):
        t = txt(e)
        if t == "scale is not None":
            return True
        if t == "scale is None":
            return False
        if isinstance(e, ast.Name) and e.id == "normalize":
            return False
        if t.replace(" ", "") in ("0.0<scale<=1.0", "0<scale<=1", "0<scale<=1.0", "0.0<scale<=1"):
            return False       # assumption: scale outside ]0, 1]
        return None
    for tag, assume, msg in (("normalize+scale", a_both, "normalize and scale given together"), ("scale-range", a_range, "scale outside ]0, 1]")):
        hit = [r for r in raises if reach(r, assume) is True]
        k = ckey(ff, None, f"refuses:{tag}")
        if hit and all(cfg.dominates(cfg.node_of(hit[0]), cfg.node_of(p)) or not cfg.reachable(cfg.node_of(p), cfg.node_of(hit[0])) for p in prints) \
                and not any(cfg.reachable(cfg.node_of(p), cfg.node_of(hit[0])) for p in prints):
            ctx.holds("C16.3", k, where(ff, hit[0]), f"{msg} ⇒ a raise is reached before anything is printed", 2)
        else:
            ctx.violation("C16.3", k, where(ff, ff.node), f"{msg} is not refused (no raise definitely reached before printing)")
    # in-range scale must not raise
    def a_ok(e):
        t = txt(e)
        if t == "scale is not None":
            return True
        if isinstance(e, ast.Name) and e.id == "normalize":
            return False
        if t.replace(" ", "") in ("0.0<scale<=1.0", "0<scale<=1", "0<scale<=1.0", "0.0<scale<=1"):
            return True
        return None
    bad = [r for r in raises if reach(r, a_ok) is not False]
    (ctx.violation if bad else ctx.holds)("C16.3", ckey(ff, None, "accepts:valid-scale"), where(ff, bad[0] if bad else ff.node),
                                           "a valid scale in ]0, 1] can be refused" if bad else "a scale in ]0, 1] without normalize is accepted", 1)


def c16_4(ctx, ss):
    ff, flow = fn(ss, DEC, F)
    prints = [c for c in pf.calls_in(ff.node) if isinstance(c.func, ast.Name) and c.func.id == "print"]
    ploop = enclosing(ff, prints[0], (ast.For,))[0]
    # rows collected once per decay line
    rows = None
    for d in flow.defs:
        if d.kind == "assign" and is_empty_list(d.value) and builder_sites(ff, flow, d.name):
            rows = d.name
    if rows is None:
        raise AnchorMissing("row list not found")
    apps = [(st, args) for st, m, args in builder_sites(ff, flow, rows) if m == "append"]
    k = ckey(ff, None, "rows")
    if len(apps) != 1:
        ctx.violation("C16.4", k, where(ff, ff.node), f"rows are appended at {len(apps)} places")
        return
    st, args = apps[0]
    lps = enclosing(ff, st, (ast.For,))
    it = txt(flow.expand(lps[0].iter)) if lps else ""
    hdr = flow.cfg.node_of(lps[0]) if lps else None
    okc = False
    if lps and it.startswith("self._find_decay_modes("):
        node = flow.cfg.node_of(st)
        lo, hi, _ = flow.cfg.count_per_iteration(hdr, lambda n: n.id == node)
        okc = (lo, hi) == (1, 1) and len(lps) == 1
    (ctx.holds if okc else ctx.violation)("C16.4", k + " :: collect", where(ff, st),
                                          "exactly one row is collected per decay line of the mother" if okc else f"rows are not collected exactly once per decay line (loop over `{it[:60]}`)")
    # the row carries this line's bf / daughters / model / parameters
    row = flow.expand(args[0])
    dm = "self._decay_mode_details(__elem__(" + it + ")"
    okr = isinstance(row, ast.Tuple) and len(row.elts) == 4 and txt(row.elts[0]).startswith(dm) and txt(row.elts[0]).endswith("['bf']") \
        and "['fs']" in txt(row.elts[1]) and "' '.join(" in txt(row.elts[1]) and "sorted" not in txt(row.elts[1]) \
        and txt(row.elts[2]).endswith("['model']") and "['model_params']" in txt(row.elts[3])
    (ctx.holds if okr else ctx.violation)("C16.4", k + " :: payload", where(ff, st),
                                          "row = (bf, daughters joined in order, model, parameters) of the same decay line" if okr else f"row is `{txt(row)[:160]}`")
    # printing: one print per row, over all rows
    hdr = flow.cfg.node_of(ploop)
    pn = flow.cfg.node_of(stmt_of(ff, prints[0]))
    lo, hi, _ = flow.cfg.count_per_iteration(hdr, lambda n: n.id == pn)
    pit = flow.expand(ploop.iter)
    src_ok = (isinstance(pit, ast.Call) and txt(pit.func) == "sorted" and pit.args and isinstance(pit.args[0], (ast.List, ast.Name, ast.Call))) or txt(ploop.iter) == rows
    sliced = isinstance(ploop.iter, ast.Subscript) or isinstance(pit, ast.Subscript)
    okp = (lo, hi) == (1, 1) and len(prints) == 1 and src_ok and not sliced
    (ctx.holds if okp else ctx.violation)("C16.4", k + " :: print", where(ff, prints[0]),
                                          "exactly one line is printed per collected row" if okp else "not exactly one printed line per collected row (sliced / conditional / repeated)")


def c16_5(ctx, ss):
    ff, flow = fn(ss, DEC, F)
    prints = [c for c in pf.calls_in(ff.node) if isinstance(c.func, ast.Name) and c.func.id == "print"]
    a = flow.expand(prints[0].args[0])
    alts_ = []
    for x in ast.walk(a):
        if isinstance(x, ast.Call) and isinstance(x.func, ast.Name) and x.func.id == "__phi__":
            alts_ = x.args
            break
    if not alts_:
        alts_ = [a]
    specs = []
    for alt in alts_:
        # .format(...) call or f-string
        for x in ast.walk(alt):
            if isinstance(x, ast.Call) and isinstance(x.func, ast.Attribute) and x.func.attr == "format" and isinstance(x.func.value, ast.Constant):
                fmt = x.func.value.value
                import string
                fields = [t for t in string.Formatter().parse(fmt) if t[1] is not None]
                first = fields[0]
                specs.append((first[2], txt(x.args[0]) if x.args else "?"))
                break
            if isinstance(x, ast.JoinedStr):
                fv = [p for p in x.values if isinstance(p, ast.FormattedValue)]
                if fv:
                    spec = "".join(p.value for p in fv[0].format_spec.values if isinstance(p, ast.Constant)) if fv[0].format_spec else ""
                    specs.append((spec, txt(fv[0].value)))
                    break
    k = ckey(ff, None, "row-formats")
    if len(specs) < 2:
        raise AnchorMissing(f"row formats not understood ({len(specs)} found)")
    prec = {s.split(".")[-1] if "." in s else "" for s, _ in specs}
    vals = {v for _, v in specs}
    if prec == {"7g"} and len(vals) == 1 and " / " in next(iter(vals)):
        ctx.holds("C16.5", k, where(ff, prints[0]), f"both row formats print `{next(iter(vals))[:60]}` with 7 significant digits", len(specs))
    else:
        ctx.violation("C16.5", k, where(ff, prints[0]), f"the two row formats disagree or do not use .7g of bf/norm: {specs}")
    # norm: 1.0 by default, sum under normalize, largest/scale under scale
    NORM = _norm_name(ff, flow)
    nd = [d for d in flow.defs if d.name == NORM and d.kind == "assign"]
    texts = sorted(txt(flow.expand(d.value))[:40] for d in nd)
    has_sum = any(t.startswith("sum(") for t in texts)
    has_one = any(t in ("1.0", "1") for t in texts)
    (ctx.holds if has_sum and has_one and len(nd) == 3 else ctx.violation)(
        "C16.5", ckey(ff, None, "norm"), where(ff, nd[0].stmt if nd else ff.node),
        "norm ∈ {1.0, Σ bf (normalize), largest/scale (scale)}" if has_sum and has_one and len(nd) == 3 else f"norm definitions are {texts}")
    for d in nd:
        v = flow.expand(d.value)
        if txt(v).startswith("sum("):
            conds = [(txt(e), pol) for kind, e, pol in guards.path_conditions(ff.node, d.stmt, skip_raise_guards=True) if kind == "if"]
            g0 = v.args[0].generators[0] if isinstance(v.args[0], ast.GeneratorExp) else None
            rows_src = txt(flow.expand(enclosing(ff, prints[0], (ast.For,))[0].iter))
            ok = conds == [("normalize", True)] and g0 is not None and not g0.ifs and txt(g0.iter) in (rows_src, rows_src.replace("sorted(", "", 1)) or (
                conds == [("normalize", True)] and g0 is not None and not g0.ifs and txt(g0.iter).startswith("sorted([") and txt(g0.iter) == rows_src)
            ok = ok and txt(v.args[0].elt) == f"__elem__({txt(g0.iter)})[0]"
            (ctx.holds if ok else ctx.violation)("C16.5", ckey(ff, None, "norm:normalize"), where(ff, d.stmt),
                                                  "normalize ⇒ norm = Σ of all branching fractions" if ok else f"normalisation sum is conditional / partial: {conds} {txt(v)[:60]}")


def c16_5b(ctx, ss):
    """which divisor under which option: Σ bf iff normalize; largest/scale iff (not normalize and a scale is given); else 1"""
    from .common import guarded_values
    ff, flow = fn(ss, DEC, F)
    NORM = _norm_name(ff, flow)
    nd = [d for d in flow.defs if d.name == NORM and d.kind == "assign"]
    k = ckey(ff, None, "norm:options")
    bad = []
    seen = set()
    for conds, v in guarded_values(ff, flow, nd):
        e = flow.expand(v)
        cs = set(conds)
        if isinstance(e, ast.Call) and txt(e.func) == "sum":
            seen.add("sum")
            if cs != {("normalize", True)}:
                bad.append(("Σ bf", conds))
        elif isinstance(e, ast.Constant) and e.value in (1, 1.0):
            seen.add("one")
            if cs not in (set(), {("normalize", False), ("scale is None", True)}):
                bad.append(("1", conds))
        elif isinstance(e, ast.BinOp) and isinstance(e.op, ast.Div) and flow.is_identity_of(e.right, "scale"):
            seen.add("scale")
            if cs != {("normalize", False), ("scale is None", False)}:
                bad.append(("largest / scale", conds))
        else:
            bad.append((txt(e)[:40], conds))
    if bad or seen != {"sum", "one", "scale"}:
        ctx.violation("C16.5", k, where(ff, nd[0].stmt if nd else ff.node),
                      f"the divisor `{bad[0][0]}` is used under {bad[0][1]}" if bad else f"divisor alternatives are {sorted(seen)}, expected Σ bf / largest÷scale / 1")
    else:
        ctx.holds("C16.5", k, where(ff, nd[0].stmt), "Σ bf iff normalize; largest/scale iff a scale is given without normalize; 1 otherwise", 3)


def c16_6(ctx, ss):
    ff, flow = fn(ss, DEC, F)
    calls = [c for c in pf.calls_in(ff.node) if txt(c.func) == "self._decay_mode_details"]
    k = ckey(ff, None, "display_photos_keyword")
    ok = bool(calls) and all((a := call_arg(c, 1, "display_photos_keyword")) is not None and flow.is_identity_of(a, "display_photos_keyword") for c in calls)
    (ctx.holds if ok else ctx.violation)("C16.6", k, where(ff, calls[0] if calls else ff.node),
                                          "display_photos_keyword is forwarded to _decay_mode_details" if ok else "display_photos_keyword does not reach _decay_mode_details")
    prints = [c for c in pf.calls_in(ff.node) if isinstance(c.func, ast.Name) and c.func.id == "print"]
    a = prints[0].args[0]
    # the printed text: under print_model it shows the model and its parameters, otherwise neither; always bf and daughters.
    # Decided on the guarded alternatives of the printed local (any statement shape: if/else assignment, prefix + `+=`, …).
    ploop = enclosing(ff, prints[0], (ast.For,))[0]
    tn = [e.id for e in ploop.target.elts] if isinstance(ploop.target, ast.Tuple) and len(ploop.target.elts) == 4 and all(isinstance(e, ast.Name) for e in ploop.target.elts) else None
    names = [x for x in ast.walk(prints[0].args[0]) if isinstance(x, ast.Name)]
    if tn is None or not names:
        raise AnchorMissing("print_decay_modes: printing loop over (bf, daughters, model, parameters) rows not understood")
    alts = flow.guarded_alternatives(names[0], keep=set(tn))
    if len(alts) == 1 and isinstance(alts[0][1], ast.IfExp):
        # a single conditional expression: split it
        e = alts[0][1]
        alts = [(alts[0][0] + [("if", a_, p_) for a_, p_ in guards.canon_cond(e.test, True)], e.body, alts[0][2]),
                (alts[0][0] + [("if", a_, p_) for a_, p_ in guards.canon_cond(e.test, False)], e.orelse, alts[0][2])]
    seen = {True: 0, False: 0}
    bad = None
    for conds, val, d in alts:
        used = {x.id for x in ast.walk(val) if isinstance(x, ast.Name)}
        has_model = tn[2] in used and tn[3] in used
        partial = (tn[2] in used) != (tn[3] in used)
        pm = [p_ for k_, e_, p_ in conds if k_ == "if" and flow.is_identity_of(e_, "print_model")]
        other = [txt(e_) for k_, e_, p_ in conds if k_ == "if" and not flow.is_identity_of(e_, "print_model")]
        if partial or len(pm) != 1 or other or pm[0] != has_model or tn[0] not in used or tn[1] not in used:
            bad = (conds, val)
        else:
            seen[has_model] += 1
    okm = bad is None and seen[True] >= 1 and seen[False] >= 1
    (ctx.holds if okm else ctx.violation)("C16.6", ckey(ff, None, "print_model"), where(ff, prints[0]),
                                          "print_model selects the row text with model and parameters; bf and daughters are always shown" if okm
                                          else "print_model does not (only) select the row format with model and parameters" + (f": `{txt(bad[1])[:80]}` under {[(txt(e_), p_) for k_, e_, p_ in bad[0] if k_ == 'if']}" if bad else ""))


def c16_7(ctx, ss):
    ef = effects(ss)
    ff, flow = fn(ss, DEC, F)
    ws = [w for w in ef.transitive_state_writes(ff.key) if not (w.root[0] == "state" and w.root[1] in ("self._grammar", "self._grammar_info"))]
    mp = [p for p in ef.sum[ff.key].mutated_params if p != "self"]
    k = ckey(ff, None, "no-write")
    if ws or mp:
        w = ws[0] if ws else None
        ctx.violation("C16.7", k, where(ff, w.node if w else ff.node), f"printing changes stored values: {w.how + ' on ' + str(w.root) if w else 'mutates ' + str(mp)}")
    else:
        ctx.holds("C16.7", k, where(ff, ff.node), "print_decay_modes writes no parser state", len(ef.local[ff.key]) + 1)


def c16_9(ctx, ss):
    """Defaults of the options and completeness of the parameter column."""
    ff, flow = fn(ss, DEC, F)
    a = ff.node.args
    names = [x.arg for x in a.args][-len(a.defaults):]
    got = {n: (d.value if isinstance(d, ast.Constant) else "?") for n, d in zip(names, a.defaults)}
    want = {"pdg_name": False, "print_model": True, "display_photos_keyword": True, "ascending": False, "normalize": False, "scale": None}
    k = ckey(ff, None, "defaults")
    if got == want:
        ctx.holds("C16.3", k, where(ff, ff.node), "defaults: descending order, values unchanged, model and PHOTOS keyword shown, EvtGen mother name", len(want))
    else:
        diff = {n: got.get(n) for n in want if got.get(n) != want[n]}
        ctx.violation("C16.3", k, where(ff, ff.node), f"option defaults changed: {diff} (the property fixes descending order / unchanged values / model and PHOTOS shown by default)")
    # parameter column: every parameter of the line, in order, joined with blanks ('' when there are none) — decided on the
    # expanded 4th field of the collected row, so locals / an explicit empty-list special case / list vs generator do not matter
    rows = None
    for d in flow.defs:
        if d.kind == "assign" and is_empty_list(d.value) and builder_sites(ff, flow, d.name):
            rows = d.name
    apps = [(st, args) for st, m, args in builder_sites(ff, flow, rows) if m == "append"] if rows else []
    if len(apps) != 1:
        raise AnchorMissing("print_decay_modes: the single row append was not found")
    row = flow.expand(apps[0][1][0])
    col = row.elts[3] if isinstance(row, ast.Tuple) and len(row.elts) == 4 else None

    def params_seq(e):
        """e lists str(p) for EVERY p of <details>['model_params'], in order"""
        if isinstance(e, ast.Call) and txt(e.func) in ("list", "tuple") and len(e.args) == 1:
            e = e.args[0]
        if isinstance(e, (ast.ListComp, ast.GeneratorExp)) and len(e.generators) == 1 and not e.generators[0].ifs:
            g = e.generators[0]
            return txt(g.iter).endswith("['model_params']") and isinstance(e.elt, ast.Call) and txt(e.elt.func) == "str" and len(e.elt.args) == 1 \
                and txt(e.elt.args[0]) == f"__elem__({txt(g.iter)})"
        if isinstance(e, ast.Call) and txt(e.func) == "map" and len(e.args) == 2 and txt(e.args[0]) == "str":
            return txt(e.args[1]).endswith("['model_params']")
        return False

    def joined(e):
        return isinstance(e, ast.Call) and isinstance(e.func, ast.Attribute) and e.func.attr == "join" and isinstance(e.func.value, ast.Constant) \
            and e.func.value.value == " " and len(e.args) == 1 and params_seq(e.args[0])
    okp = okj = False
    if col is not None:
        e = col
        if isinstance(e, ast.IfExp):
            # '' exactly when the list is empty, the join otherwise (either arm order; the test decides which)
            atoms = guards.canon_cond(e.test, True)
            empty_when_true = None
            if len(atoms) == 1:
                a0, p0_ = atoms[0]
                if params_seq(a0):
                    empty_when_true = not p0_                # `if L` true -> non-empty
                elif isinstance(a0, ast.Compare) and isinstance(a0.ops[0], ast.Eq) and params_seq(a0.left) and isinstance(a0.comparators[0], (ast.List, ast.Tuple)) \
                        and not a0.comparators[0].elts:
                    empty_when_true = p0_                    # `L == []`
            if empty_when_true is not None:
                empty_arm, join_arm = (e.body, e.orelse) if empty_when_true else (e.orelse, e.body)
                if isinstance(empty_arm, ast.Constant) and empty_arm.value == "" and joined(join_arm):
                    okp = okj = True
        elif joined(e):
            okp = okj = True
        elif isinstance(e, ast.Call) and isinstance(e.func, ast.Attribute) and e.func.attr == "join":
            okj = isinstance(e.func.value, ast.Constant) and e.func.value.value == " "
    (ctx.holds if okp else ctx.violation)("C16.4", ckey(ff, None, "all-params"), where(ff, apps[0][0]),
                                          "the parameter column lists every parameter of the line, in order" if okp else f"the parameter column is `{txt(col)[:100] if col is not None else None}`: it does not list every parameter of the line")
    (ctx.holds if okj else ctx.violation)("C16.4", ckey(ff, None, "params-joined"), where(ff, apps[0][0]),
                                          "parameters are joined with blanks (empty string when there are none)" if okj else "the parameter column is not ' '.join(all parameters)")


def c16_8(ctx, ss):
    for q in (F, "DecFileParser.list_decay_modes"):
        ff, flow = fn(ss, DEC, q)
        calls = [c for c in pf.calls_in(ff.node) if txt(c.func) == "self._find_decay_modes"]
        if not calls:
            raise AnchorMissing(f"{q}: no _find_decay_modes call")
        a = flow.expand(calls[0].args[0])
        alts_ = phi_alts(a)
        texts = sorted(txt(x) for x in alts_)
        k = ckey(ff, None, "pdg-name")
        if texts == ["PDG2EvtGenNameMap[mother]", "mother"]:
            # the mapped alternative must be the one under pdg_name
            d = [dd for dd in flow.defs if dd.name == "mother" and dd.kind == "assign"]
            conds = [(txt(e), pol) for kind, e, pol in guards.path_conditions(ff.node, d[0].stmt, skip_raise_guards=True) if kind == "if"] if d else []
            if conds == [("pdg_name", True)]:
                ctx.holds("C16.8", k, where(ff, calls[0]), "pdg_name ⇒ the mother is looked up as PDG2EvtGenNameMap[mother]", 2)
            else:
                ctx.violation("C16.8", k, where(ff, calls[0]), f"the PDG→EvtGen mapping of the mother is applied under {conds}")
        else:
            ctx.violation("C16.8", k, where(ff, calls[0]), f"the table is looked up for `{texts}`: a PDG-style mother name is not mapped (or always mapped)")
