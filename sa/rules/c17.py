"""C17 — AmpGen option files are read into the amplitudes and tables they state (DESIGN.md §4 C17)."""
from __future__ import annotations

import ast

from ..core import guards
from ..core import pyfacts as pf
from ..core.larkfacts import grammar_facts
from ..core.match import canon, phi_alts, txt
from ..core.source import AnchorMissing
from .common import ACHAIN, AMPGRAMMAR, ATRANS, ckey, enclosing, fn, returns, stmt_of, where

PROP = "C17"
FILES = [ACHAIN, ATRANS, AMPGRAMMAR, "modeling/decay.py"]
EXPLANATION = (
    "C17.1 transformer callbacks and ampgen.lark agree: every callback relied upon names a rule or alias, tuple unpackings "
    "have the arity of every child word of their rule, every get_from_parser key names a tree; C17.2 container-depth typing "
    "of get_from_parser results in read_ampgen (list of child lists → one unpack = child list → second unpack = child; "
    "`.children` is illegal on them); C17.3 table columns agree with the order and number of values the transformer emits; "
    "C17.4 polar→complex conversion is reached exactly when the cartesian switch is off and has the shape "
    "magnitude·exp(i·phase); C17.5 expansion is the product over all daughters with by-name substitution in file order, only "
    "lines of the event-type mother are returned, results are returned in the documented order; C17.6 the cartesian flag is "
    "the integer value of the option token.")
NOT_DECIDED = ["'every text in the options grammar is read without internal error' as a whole (only the typed accessors are checked)",
               "the numeric coupling value; particle-name lookup (third-party data)"]
G = AMPGRAMMAR
RELIED = ["constant", "event_type", "checkfixed", "variable", "cplx_decay_line", "decay"]


def run(ctx, ss):
    for r, f in (("C17.1", c17_1), ("C17.2", c17_2), ("C17.3", c17_3), ("C17.4", c17_4), ("C17.5", c17_5), ("C17.5", c17_7), ("C17.8", c17_8), ("C17.9", c17_9)):
        ctx.guard(r, f, ss)
    # C17.10: nothing on the way from the observed entry points is memoised on a parser / tree / path / container (shared.py)
    from .shared import memo_for
    ctx.guard("C17.10", memo_for, ss, "C17", "C17.10", "a reading")


def c17_1(ctx, ss):
    gf = grammar_facts(ss, G)
    mf = pf.module_facts(ss, ATRANS)
    cf = mf.classes.get("AmpGenTransformer")
    if cf is None:
        raise AnchorMissing("class AmpGenTransformer not found")
    for name in RELIED:
        k = f"{ATRANS}:AmpGenTransformer.{name}"
        if name not in cf.methods:
            ctx.violation("C17.1", k, f"src/decaylanguage/{ATRANS}:{cf.node.lineno}", f"the reader relies on a `{name}` callback that no longer exists")
        elif name not in gf.tree_names:
            ctx.violation("C17.1", k, where(cf.methods[name], cf.methods[name].node), f"callback `{name}` names no rule or alias of {G}: it is never invoked, the raw tree reaches the reader")
        else:
            ctx.holds("C17.1", k, where(cf.methods[name], cf.methods[name].node), f"callback `{name}` names a rule/alias of the grammar", 1)
    # tuple unpack arities
    n = 0
    for name, m in cf.methods.items():
        if name.startswith("_") or name not in gf.tree_names:
            continue
        words = gf.rule_words(name)
        p = m.params[1] if len(m.params) > 1 else None
        bound = {}     # local name -> child index in `lines`
        for st in pf.iter_stmts(m.node.body):
            if isinstance(st, ast.Assign) and isinstance(st.targets[0], (ast.Tuple, ast.List)):
                tg = st.targets[0]
                n += 1
                k = ckey(m, st, "arity")
                if isinstance(st.value, ast.Name) and st.value.id == p:
                    lens = {len(w) for w in words}
                    if lens == {len(tg.elts)} and not gf.unbounded(name):
                        ctx.holds("C17.1", k, where(m, st), f"`{txt(st)[:50]}`: rule `{name}` always has {len(tg.elts)} children", len(words))
                        for i, e in enumerate(tg.elts):
                            if isinstance(e, ast.Name):
                                bound[e.id] = i
                    else:
                        ctx.violation("C17.1", k, where(m, st), f"`{txt(st)[:50]}` unpacks {len(tg.elts)} values but rule `{name}` has {sorted(lens)} children (ValueError)")
                elif isinstance(st.value, ast.Attribute) and st.value.attr == "children":
                    base = st.value.value
                    idx = None
                    if isinstance(base, ast.Name) and base.id in bound:
                        idx = bound[base.id]
                    elif isinstance(base, ast.Subscript) and isinstance(base.value, ast.Name) and base.value.id == p and isinstance(base.slice, ast.Constant):
                        idx = base.slice.value
                    if idx is None:
                        n -= 1
                        continue
                    syms = {w[idx] for w in words if len(w) > idx}
                    bad = [s for s in syms if s[0] != "T"]
                    sub_lens = set()
                    for s in syms:
                        if s[0] == "T":
                            if s[1] in cf.methods and s[1] not in ("particle",):
                                bad.append(("callback-result", s[1]))
                            sub_lens |= {len(w) for w in gf.rule_words(s[1])}
                    if bad:
                        ctx.violation("C17.1", k, where(m, st), f"`{txt(st)[:50]}`: child {idx} of `{name}` can be {bad[0]}, which has no .children")
                    elif sub_lens == {len(tg.elts)}:
                        ctx.holds("C17.1", k, where(m, st), f"`{txt(st)[:50]}`: child {idx} of `{name}` always has {len(tg.elts)} children", len(syms))
                    else:
                        ctx.violation("C17.1", k, where(m, st), f"`{txt(st)[:50]}` unpacks {len(tg.elts)} values but the node has {sorted(sub_lens)} children")
    ctx.count("unpack_sites", n)
    ctx.floor("C17.1", "tuple unpack sites in the transformer", n, 6)
    # get_from_parser keys
    ff, flow = fn(ss, ACHAIN, "AmplitudeChain.read_ampgen")
    keys = [c for c in pf.calls_in(ff.node) if isinstance(c.func, ast.Name) and c.func.id == "get_from_parser"]
    for c in keys:
        lit = c.args[1].value if len(c.args) > 1 and isinstance(c.args[1], ast.Constant) else None
        k = ckey(ff, c, "key")
        if lit in gf.tree_names:
            ctx.holds("C17.1", k, where(ff, c), f"get_from_parser key '{lit}' names a tree", 1)
        else:
            ctx.violation("C17.1", k, where(ff, c), f"get_from_parser key {lit!r} names no tree of {G}: the table is silently empty")
    ctx.floor("C17.1", "get_from_parser sites", len(keys), 5)
    gp, gflow = fn(ss, ATRANS, "get_from_parser")
    r = returns(gp)
    ok = len(r) == 1 and txt(r[0].value) == canon("[v.children for v in parser.find_data(key)]")
    (ctx.holds if ok else ctx.violation)("C17.1", ckey(gp, None, "shape"), where(gp, gp.node),
                                          "get_from_parser returns the child list of every matching node, in document order" if ok else f"get_from_parser returns `{txt(r[0].value) if r else None}`")


def c17_2(ctx, ss):
    ff, flow = fn(ss, ACHAIN, "AmplitudeChain.read_ampgen")
    depth: dict[str, int] = {}
    src: dict[str, str] = {}
    n = 0
    for st in pf.iter_stmts(ff.node.body):
        if isinstance(st, ast.Assign):
            v, t = st.value, st.targets[0]
            if isinstance(v, ast.Call) and isinstance(v.func, ast.Name) and v.func.id == "get_from_parser":
                key = v.args[1].value if len(v.args) > 1 and isinstance(v.args[1], ast.Constant) else "?"
                if isinstance(t, ast.Name):
                    depth[t.id], src[t.id] = 2, key
                elif isinstance(t, (ast.Tuple, ast.List)) and len(t.elts) == 1 and isinstance(t.elts[0], ast.Name):
                    depth[t.elts[0].id], src[t.elts[0].id] = 1, key
                continue
            def single_nest(x, lv=0):
                """((name,),) -> (name, 2): nested single-element unpacking = several unpack levels in one statement"""
                if isinstance(x, (ast.Tuple, ast.List)) and len(x.elts) == 1:
                    return single_nest(x.elts[0], lv + 1)
                return (x, lv) if isinstance(x, ast.Name) and lv > 0 else None
            sn = single_nest(t)
            if sn is not None and sn[1] > 1:
                base = v
                if isinstance(base, ast.Name) and base.id in depth:
                    n += sn[1]
                    k = ckey(ff, None, f"depth:{src[base.id]}:nested")
                    if depth[base.id] - sn[1] < 0:
                        ctx.violation("C17.2", k, where(ff, st), f"`{txt(st)}` unpacks {sn[1]} levels of a value that has {depth[base.id]}")
                    else:
                        depth[sn[0].id], src[sn[0].id] = depth[base.id] - sn[1], src[base.id]
                        ctx.holds("C17.2", k, where(ff, st), f"`{txt(st)}`: depth {depth[base.id]} → {depth[sn[0].id]}", 1)
                continue
            if isinstance(t, (ast.Tuple, ast.List)) and len(t.elts) == 1 and isinstance(t.elts[0], ast.Name):
                base = v
                attr = None
                if isinstance(base, ast.Attribute):
                    attr, base = base.attr, base.value
                if isinstance(base, ast.Name) and base.id in depth:
                    n += 1
                    k = ckey(ff, None, f"depth:{src[base.id]}:{txt(st)[:40]}")
                    if attr is not None:
                        ctx.violation("C17.2", ckey(ff, None, "fast_coherent_sum") if src[base.id] == "fast_coherent_sum" else k, where(ff, st),
                                      f"`{txt(st)}`: `{base.id}` is a {'list of child lists' if depth[base.id] == 2 else 'child list' if depth[base.id] == 1 else 'leaf'} "
                                      f"from get_from_parser('{src[base.id]}'), it has no .{attr} (AttributeError for every text containing that statement)")
                    elif depth[base.id] <= 0:
                        ctx.violation("C17.2", k, where(ff, st), f"`{txt(st)}` unpacks a leaf value")
                    else:
                        depth[t.elts[0].id], src[t.elts[0].id] = depth[base.id] - 1, src[base.id]
                        ctx.holds("C17.2", k, where(ff, st), f"`{txt(st)}`: depth {depth[base.id] + (0 if t.elts[0].id != base.id else 1)} → {depth[t.elts[0].id]}", 1)
    # other uses of `.children` on get_from_parser results
    for a in pf.walk_no_nested(ff.node):
        if isinstance(a, ast.Attribute) and a.attr == "children" and isinstance(a.value, ast.Name) and a.value.id in depth:
            pass   # reported above when it feeds an unpack; a bare use is equally wrong
    # the flag: integer value of the token
    stores = [s for s in pf.iter_stmts(ff.node.body) if isinstance(s, ast.Assign) and txt(s.targets[0]) in ("cls.cartesian", "AmplitudeChain.cartesian")]
    flag_sets = [s for s in stores if not isinstance(s.value, ast.Constant)]
    k = ckey(ff, None, "flag-value")
    if not flag_sets:
        ctx.violation("C17.6", k, where(ff, ff.node), "the FastCoherentSum::UseCartesian option never sets the cartesian switch")
    for s in flag_sets:
        v = s.value
        t = txt(v).replace(" ", "")
        nm = [x.id for x in ast.walk(v) if isinstance(x, ast.Name) and x.id in depth]
        leaf = bool(nm) and depth.get(nm[0]) == 0 and src.get(nm[0]) == "fast_coherent_sum"
        ok_val = any(t == pat.format(n=nm[0]) for pat in ("bool(int({n}))", "int({n})!=0", "int({n})>0", "int({n})==1", "bool(int(str({n})))")) if nm else False
        if leaf and ok_val:
            ctx.holds("C17.6", k, where(ff, s), f"cartesian = {txt(v)} (integer value of the option token)", 2)
        elif nm and not leaf:
            ctx.violation("C17.6", k, where(ff, s), f"cartesian is computed from `{nm[0]}`, which is not the option's token (depth {depth.get(nm[0])})")
        else:
            ctx.violation("C17.6", k, where(ff, s), f"cartesian = `{txt(v)}`: not the integer value of the option (a non-empty token is always truthy, so 'UseCartesian 0' would switch it on)")
        conds = [(txt(e), pol) for kind, e, pol in guards.path_conditions(ff.node, s) if kind == "if"]
        if conds and not all(pol and e in src for e, pol in conds):
            ctx.violation("C17.6", k + " :: guard", where(ff, s), f"the switch is set under {conds}")
    # without the option the coupling convention is polar
    consts = [s for s in stores if isinstance(s.value, ast.Constant)]
    mfa = pf.module_facts(ss, ACHAIN)
    cattr = mfa.classes["AmplitudeChain"].class_attrs.get("cartesian") if "AmplitudeChain" in mfa.classes else None
    okc = all(s.value.value is False for s in consts) and isinstance(cattr, ast.Constant) and cattr.value is False
    (ctx.holds if okc else ctx.violation)("C17.6", ckey(ff, None, "flag-default"), where(ff, consts[0] if consts else ff.node),
                                          "without the option the switch is False (magnitude / phase)" if okc else "without the FastCoherentSum::UseCartesian option the switch is not False")
    ctx.count("unpack_sites", n)
    ctx.floor("C17.2", "single-element unpacks of get_from_parser results", n + 1, 3)


def c17_3(ctx, ss):
    gf = grammar_facts(ss, G)
    mf = pf.module_facts(ss, ATRANS)
    cf = mf.classes["AmpGenTransformer"]
    rf, rflow = fn(ss, ACHAIN, "AmplitudeChain.read_ampgen")
    frames = {}
    for c in pf.calls_in(rf.node):
        if txt(c.func) in ("pd.DataFrame", "pandas.DataFrame", "DataFrame") and c.args:
            cols = next((kw.value for kw in c.keywords if kw.arg == "columns"), None)
            if cols is None:
                continue
            if isinstance(cols, ast.Call) and isinstance(cols.func, ast.Attribute) and cols.func.attr == "split" and isinstance(cols.func.value, ast.Constant):
                names = cols.func.value.value.split()
            elif isinstance(cols, (ast.List, ast.Tuple)):
                names = [e.value for e in cols.elts if isinstance(e, ast.Constant)]
            else:
                raise AnchorMissing("DataFrame columns not a literal")
            srcn = rflow.expand(c.args[0])
            if isinstance(srcn, ast.Call) and txt(srcn.func) == "get_from_parser":
                frames[srcn.args[1].value] = (names, c)
    for cb, want_cols in (("variable", ["name", "fix", "value", "error"]), ("constant", ["name", "value"])):
        m = cf.methods.get(cb)
        if m is None:
            continue
        k = f"{ATRANS}:AmpGenTransformer.{cb} :: columns"
        from ..core.defuse import flow_of
        mflow = flow_of(ss, m)
        r = returns(m)
        lst = None
        if len(r) == 1 and isinstance(r[0].value, ast.Call) and txt(r[0].value.func) == "Tree" and len(r[0].value.args) == 2 and isinstance(r[0].value.args[1], ast.List):
            lst = r[0].value.args[1].elts
            tname = r[0].value.args[0].value if isinstance(r[0].value.args[0], ast.Constant) else None
        if lst is None:
            raise AnchorMissing(f"{cb}: does not return Tree(name, [..])")
        if tname != cb:
            ctx.violation("C17.3", k + " :: name", where(m, r[0]), f"callback `{cb}` returns a tree named {tname!r}: get_from_parser('{cb}') finds nothing")
        # element i derives from child i
        unp = [st for st in pf.iter_stmts(m.node.body) if isinstance(st, ast.Assign) and isinstance(st.targets[0], ast.Tuple) and txt(st.value) == m.params[1]]
        order_ok = False
        if unp:
            names = [e.id for e in unp[0].targets[0].elts]
            used = []
            for e in lst:
                ns = [x.id for x in ast.walk(e) if isinstance(x, ast.Name) and x.id in names]
                used.append(ns[0] if len(ns) == 1 else None)
            order_ok = used == names
        if cb not in frames:
            ctx.violation("C17.3", k, where(rf, rf.node), f"no table is built from get_from_parser('{cb}')")
            continue
        cols, call = frames[cb]
        if cols == want_cols and len(lst) == len(cols) and order_ok:
            ctx.holds("C17.3", k, where(rf, call), f"`{cb}` emits {len(lst)} values in child order ↔ columns {cols}", len(cols))
        else:
            ctx.violation("C17.3", k, where(rf, call), f"`{cb}` emits {len(lst)} values (in child order: {order_ok}) but the table has columns {cols} (expected {want_cols})")
        idx = [c2 for c2 in pf.calls_in(rf.node) if isinstance(c2.func, ast.Attribute) and c2.func.attr == "set_index" and any(call is x for x in ast.walk(c2))]
        oki = bool(idx) and idx[0].args and isinstance(idx[0].args[0], ast.Constant) and idx[0].args[0].value == "name"
        (ctx.holds if oki else ctx.violation)("C17.3", k + " :: index", where(rf, call), "rows are indexed by name" if oki else "the table is not indexed by the name column")
    # value conversions in the callbacks
    for cb, conv in (("variable", {1: None, 2: "float", 3: "float"}), ("constant", {1: "float"})):
        m = cf.methods[cb]
        r = returns(m)
        lst = r[0].value.args[1].elts
        ok = all((conv[i] is None and isinstance(lst[i], ast.Name)) or (isinstance(lst[i], ast.Call) and txt(lst[i].func) == conv[i]) for i in conv) and \
            txt(lst[0]).startswith("str(") and ".children[0]" in txt(lst[0])
        (ctx.holds if ok else ctx.violation)("C17.3", f"{ATRANS}:AmpGenTransformer.{cb} :: conversions", where(m, r[0]),
                                              f"`{cb}`: name as str, numbers as float" if ok else f"`{cb}` emits `{[txt(e) for e in lst]}`")
    m = cf.methods["checkfixed"]
    r = returns(m)
    from ..core.defuse import flow_of
    t = flow_of(ss, m).text(r[0].value) if r else ""
    ok = t in ("int(lines[0]) > 0", "int(lines[0]) != 0", "bool(int(lines[0]))")
    (ctx.holds if ok else ctx.violation)("C17.3", f"{ATRANS}:AmpGenTransformer.checkfixed", where(m, m.node), "fix flag = int(token) > 0" if ok else f"fix flag is `{t}`")


def c17_4(ctx, ss):
    ff, flow = fn(ss, ACHAIN, "AmplitudeChain.from_matched_line")
    stores = [s for s in pf.iter_stmts(ff.node.body) if isinstance(s, ast.Assign) and txt(s.targets[0]) in ('mat["amp"]', "mat['amp']")]
    k = ckey(ff, None, "polar")
    if len(stores) != 1:
        ctx.violation("C17.4", k, where(ff, ff.node), f"expected one polar→complex store, found {len(stores)}")
        return
    s = stores[0]
    conds = [c for c in guards.path_conditions(ff.node, s) if c[0] == "if"]

    def mk(cart):
        def atom(e):
            t = txt(e)
            if t in ("cls.cartesian", "AmplitudeChain.cartesian", "self.cartesian"):
                return cart
            if t == "'amp' in mat":
                return True
            return None
        return atom
    off = guards.reachable_under(conds, mk(False), flow)
    on = guards.reachable_under(conds, mk(True), flow)
    (ctx.holds if off is True else ctx.violation)("C17.4", k + " :: polar", where(ff, s),
                                                   "cartesian off ⇒ the coupling is converted from (magnitude, phase)" if off is True
                                                   else "with the cartesian switch off the polar→complex conversion is not (always) applied")
    (ctx.holds if on is False else ctx.violation)("C17.4", k + " :: cartesian", where(ff, s),
                                                   "cartesian on ⇒ the coupling stays real + i·imaginary" if on is False
                                                   else "with the cartesian switch on the coupling is still converted as if it were polar")
    v = flow.expand(s.value)
    ok = txt(v) in ("mat['amp'].real * np.exp(mat['amp'].imag * 1j)", "mat['amp'].real * numpy.exp(mat['amp'].imag * 1j)", "mat['amp'].real * np.exp(1j * mat['amp'].imag)")
    (ctx.holds if ok else ctx.violation)("C17.4", k + " :: shape", where(ff, s),
                                          "amp = magnitude · exp(i · phase) with magnitude = first column, phase = second" if ok else f"the converted coupling is `{txt(v)[:100]}`")
    # the reads of magnitude / phase precede the store
    r = returns(ff)
    okr = len(r) == 1 and txt(r[0].value) == "cls(**mat)"
    (ctx.holds if okr else ctx.violation)("C17.4", ckey(ff, None, "result"), where(ff, ff.node), "the amplitude is built from the whole matched dictionary" if okr else "from_matched_line does not return cls(**mat)")
    # amp assembled from the two numeric columns in the transformer
    tf, tflow = fn(ss, ATRANS, "AmpGenTransformer.cplx_decay_line")
    st = [x for x in pf.iter_stmts(tf.node.body) if isinstance(x, ast.Assign) and isinstance(x.targets[0], ast.Subscript)
          and isinstance(x.targets[0].slice, ast.Constant) and x.targets[0].slice.value == "amp"]
    oka = len(st) == 1 and tflow.text(st[0].value) == "complex(float(lines[1].children[1]), float(lines[2].children[1]))"
    (ctx.holds if oka else ctx.violation)("C17.4", ckey(tf, None, "columns"), where(tf, tf.node),
                                          "amp = complex(value of the first triple, value of the second triple)" if oka
                                          else f"the two numeric columns are assembled as `{tflow.text(st[0].value) if st else None}`")


def c17_5(ctx, ss):
    ff, flow = fn(ss, ACHAIN, "AmplitudeChain.expand_lines")
    prods = [c for c in pf.calls_in(ff.node) if txt(c.func) in ("product", "itertools.product")]
    k = ckey(ff, None, "expansion")
    ok = False
    if len(prods) == 1 and len(prods[0].args) == 1 and isinstance(prods[0].args[0], ast.Starred):
        e = flow.expand(prods[0].args[0].value)
        ok = isinstance(e, ast.ListComp) and len(e.generators) == 1 and not e.generators[0].ifs and txt(e.generators[0].iter) == "self.daughters" \
            and txt(e.elt) == "__elem__(self.daughters).expand_lines(linelist)"
    (ctx.holds if ok else ctx.violation)("C17.5", k + " :: product", where(ff, prods[0] if prods else ff.node),
                                          "cartesian product over the expansions of ALL daughters" if ok else "the expansion is not the product over every daughter's expansion")
    # each combination becomes one copy with those daughters
    lps = enclosing(ff, prods[0], (ast.For,)) if prods else []
    lp = [n for n in pf.walk_no_nested(ff.node) if isinstance(n, ast.For) and prods and n.iter is prods[0]]
    okc = False
    if lp:
        body = lp[0].body
        apps = [c for c in pf.calls_in(lp[0]) if isinstance(c.func, ast.Attribute) and c.func.attr == "append"]
        sets = [s for s in body if isinstance(s, ast.Assign) and txt(s.targets[0]).endswith(".daughters")]
        okc = len(apps) == 1 and len(sets) == 1 and txt(sets[0].value) == txt(lp[0].target) and flow.text(apps[0].args[0]) in ("copy(self)", "copy.copy(self)") \
            and not any(isinstance(x, (ast.If, ast.Break, ast.Continue)) for x in ast.walk(lp[0]))
    (ctx.holds if okc else ctx.violation)("C17.5", k + " :: copies", where(ff, lp[0] if lp else ff.node),
                                          "one shallow copy per combination, carrying that combination as daughters" if okc else "not exactly one copy per combination of daughter expansions")
    # leaf substitution: by name, in file order
    comps = [n for n in pf.walk_no_nested(ff.node) if isinstance(n, ast.ListComp) and len(n.generators) == 2]
    okl = False
    if comps:
        c = comps[0]
        g1, g2 = c.generators
        t1 = txt(g1.target)
        okl = txt(g1.iter) == "linelist" and [txt(i) for i in g1.ifs] in ([f"{t1}.name == self.name"], [f"self.name == {t1}.name"]) \
            and txt(g2.iter) == f"{txt(g1.target)}.expand_lines(linelist)" and not g2.ifs and txt(c.elt) == txt(g2.target)
    (ctx.holds if okl else ctx.violation)("C17.5", k + " :: by-name", where(ff, comps[0] if comps else ff.node),
                                          "a leaf is replaced by every separately given line of the same name, in file order, each expanded in turn" if okl
                                          else "leaf substitution is not 'every line of the same name, in file order'")
    rets = returns(ff)
    if comps:
        whole = [r for r in rets if flow.expand(r.value) is not None and txt(flow.expand(r.value)) == txt(flow.expand(comps[0]))]
        conds = [(txt(e), pol) for r in whole for kind, e, pol in guards.path_conditions(ff.node, r) if kind == "if"]
        okw = len(whole) == 1 and len(conds) == 2 and conds[0][1] and conds[1] == ("self.daughters", False)
        (ctx.holds if okw else ctx.violation)("C17.5", k + " :: all-alternatives", where(ff, whole[0] if whole else ff.node),
                                              "all separately given alternatives are returned when there is at least one" if okw
                                              else "the list of alternatives is cut / filtered before it is returned")
    okf = any(txt(r.value) == "[self]" for r in rets) and len(rets) == 3
    (ctx.holds if okf else ctx.violation)("C17.5", k + " :: fallback", where(ff, ff.node), "a leaf without separate lines stays itself" if okf else "the fallback [self] for plain leaves changed")
    # read_ampgen frame
    rf, rflow = fn(ss, ACHAIN, "AmplitudeChain.read_ampgen")
    r = returns(rf)
    k2 = ckey(rf, None, "frame")
    okr = len(r) == 1 and isinstance(r[0].value, ast.Tuple) and len(r[0].value.elts) == 4
    if not okr:
        ctx.violation("C17.5", k2, where(rf, rf.node), "read_ampgen does not return (lines, parameters, constants, states)")
        return
    lines_e, pars_e, consts_e, states_e = (rflow.expand(x) for x in r[0].value.elts)
    want_states = "[particle_from_string_name(__elem__(get_from_parser(Lark(__phi__"
    t_states = txt(states_e)
    oks = t_states.startswith("[particle_from_string_name(__elem__(") and "get_from_parser(" in t_states and "'event_type')" in t_states and " if " not in t_states
    (ctx.holds if oks else ctx.violation)("C17.5", k2 + " :: states", where(rf, r[0]), "states = particle of every event-type name, in order" if oks else f"states are `{t_states[:120]}`")
    t_lines = txt(lines_e)
    okl2 = isinstance(lines_e, ast.ListComp) and len(lines_e.generators) == 2 and len(lines_e.generators[0].ifs) == 1 and not lines_e.generators[1].ifs \
        and ".particle == " in txt(lines_e.generators[0].ifs[0]) and "[0]" in txt(lines_e.generators[0].ifs[0]) \
        and "cls.from_matched_line(" in txt(lines_e.generators[0].iter) and "'cplx_decay_line')" in txt(lines_e.generators[0].iter) \
        and ".expand_lines(" in txt(lines_e.generators[1].iter)
    (ctx.holds if okl2 else ctx.violation)("C17.5", k2 + " :: lines", where(rf, r[0]),
                                           "amplitudes = expansion of every line of the event-type mother, in file order" if okl2 else f"amplitudes are `{t_lines[:160]}`")
    okp = "'variable')" in txt(pars_e) and "'constant')" in txt(consts_e)
    (ctx.holds if okp else ctx.violation)("C17.5", k2 + " :: tables", where(rf, r[0]), "parameters ← variable lines, constants ← constant lines" if okp else "the returned tables are not built from the variable / constant lines")
    # the transformer is installed on the parser that reads the text
    lark = [c for c in pf.calls_in(rf.node) if isinstance(c.func, ast.Name) and c.func.id == "Lark"]
    okt = len(lark) == 1 and any(kw.arg == "transformer" and txt(kw.value) == "AmpGenTransformer()" for kw in lark[0].keywords)
    (ctx.holds if okt else ctx.violation)("C17.5", k2 + " :: transformer", where(rf, lark[0] if lark else rf.node),
                                          "the parser is built with AmpGenTransformer()" if okt else "the parser is not built with the AmpGen transformer")


# ---- additional clauses found by auto-mutation triage -------------------------------------------------------
def c17_7(ctx, ss):
    """read_ampgen frame: every decay line / every event-type name is used, in order, and the mother filter is the first state."""
    ff, flow = fn(ss, ACHAIN, "AmplitudeChain.read_ampgen")
    r = returns(ff)
    if len(r) != 1 or not isinstance(r[0].value, ast.Tuple) or len(r[0].value.elts) != 4 or not all(isinstance(e, ast.Name) for e in r[0].value.elts):
        raise AnchorMissing("read_ampgen: return is not a tuple of four locals")
    n_lines, n_pars, n_consts, n_states = (e.id for e in r[0].value.elts)

    def one_def(name):
        ds = [d for d in flow.defs if d.name == name and d.kind == "assign"]
        return ds[-1] if ds else None
    k = ckey(ff, None, "frame2")
    # states
    ds = one_def(n_states)
    oks = False
    if ds is not None and isinstance(ds.value, ast.ListComp) and len(ds.value.generators) == 1 and not ds.value.generators[0].ifs:
        g = ds.value.generators[0]
        src = g.iter
        if isinstance(src, ast.Name) and isinstance(g.target, ast.Name) and txt(ds.value.elt) == f"particle_from_string_name({g.target.id})":
            de = [d for d in flow.defs if d.name == src.id]
            oks = len(de) == 1 and de[0].path == (0,) and isinstance(de[0].value, ast.Call) and txt(de[0].value.func) == "get_from_parser" \
                and isinstance(de[0].value.args[1], ast.Constant) and de[0].value.args[1].value == "event_type" \
                and isinstance(de[0].stmt.targets[0], (ast.Tuple, ast.List)) and len(de[0].stmt.targets[0].elts) == 1
    (ctx.holds if oks else ctx.violation)("C17.5", k + " :: states-all", where(ff, ds.stmt if ds is not None else ff.node),
                                          "states = the particle of EVERY name of the (single) event-type statement, in order" if oks
                                          else "the event-type particles are not all converted, in order, from the single event_type statement")
    # lines
    dl = one_def(n_lines)
    okl = False
    why = "not a two-generator comprehension"
    if dl is not None and isinstance(dl.value, ast.ListComp) and len(dl.value.generators) == 2:
        g0, g1 = dl.value.generators
        why = ""
        if not (isinstance(g0.iter, ast.Name) and isinstance(g0.target, ast.Name)):
            why = f"the source of the decay lines is `{txt(g0.iter)[:60]}` (sliced / filtered)"
        else:
            la = one_def(g0.iter.id)
            lt = g0.target.id
            if not (la is not None and isinstance(la.value, ast.ListComp) and len(la.value.generators) == 1 and not la.value.generators[0].ifs
                    and isinstance(la.value.generators[0].iter, ast.Name) and txt(la.value.elt) == f"cls.from_matched_line({txt(la.value.generators[0].target)})"):
                why = "the amplitude list is not cls.from_matched_line of EVERY complex decay line"
            else:
                src = one_def(la.value.generators[0].iter.id)
                if not (src is not None and isinstance(src.value, ast.Call) and txt(src.value.func) == "get_from_parser" and txt(src.value.args[1]) == "'cplx_decay_line'"):
                    why = "the decay lines do not come from get_from_parser(parsed, 'cplx_decay_line')"
            flt = [txt(i) for i in g0.ifs]
            if not why and flt not in ([f"{lt}.particle == {n_states}[0]"], [f"{n_states}[0] == {lt}.particle"]):
                why = f"the mother filter is {flt}, expected `{lt}.particle == {n_states}[0]`"
            if not why and not (txt(g1.iter) == f"{lt}.expand_lines({g0.iter.id})" and not g1.ifs and txt(dl.value.elt) == txt(g1.target)):
                why = f"the expansion step is `{txt(g1.iter)[:60]}`"
        okl = not why
    (ctx.holds if okl else ctx.violation)("C17.5", k + " :: lines-all", where(ff, dl.stmt if dl is not None else ff.node),
                                          "every complex decay line becomes an amplitude; those of the event-type mother are expanded against all lines, in file order" if okl
                                          else f"amplitude list: {why}")
    # the text that is parsed is the argument / the file content
    pc = [c for c in pf.calls_in(ff.node) if isinstance(c.func, ast.Attribute) and c.func.attr == "parse" and c.args]
    okp = len(pc) == 1 and sorted(txt(x) for x in phi_alts(flow.expand(pc[0].args[0]))) in (["__enter__(open(filename, encoding='utf_8')).read()", "text"],)
    (ctx.holds if okp else ctx.violation)("C17.5", k + " :: input", where(ff, pc[0] if pc else ff.node),
                                          "the parsed text is the `text` argument or the whole file content" if okp else "what is parsed is not the given text / the whole file")
    # expand_lines: the separately given lines win when there are any
    ef_, eflow = fn(ss, ACHAIN, "AmplitudeChain.expand_lines")
    comps = [n for n in pf.walk_no_nested(ef_.node) if isinstance(n, ast.ListComp) and len(n.generators) == 2]
    if comps:
        nm = [d.name for d in eflow.defs if d.kind == "assign" and d.value is comps[0]]
        rr = [x for x in returns(ef_) if nm and txt(x.value) == nm[0]]
        conds = [(txt(e), pol) for x in rr for kind, e, pol in guards.path_conditions(ef_.node, x) if kind == "if"]
        okn = len(rr) == 1 and (nm[0], True) in conds
        (ctx.holds if okn else ctx.violation)("C17.5", ckey(ef_, None, "alternatives-when-present"), where(ef_, rr[0] if rr else ef_.node),
                                              "the separately given lines replace a leaf exactly when there is at least one" if okn
                                              else f"the substitution list is returned under {conds}")


def c17_8(ctx, ss):
    """The transformer's `decay`, `event_type`, `cplx_decay_line` callbacks and from_matched_line keep what is written."""
    gf = grammar_facts(ss, G)
    df, dflow = fn(ss, ATRANS, "AmpGenTransformer.decay")
    p = df.params[1]
    k = ckey(df, None, "decay-callback")
    # name
    nm = [s for s in pf.iter_stmts(df.node.body) if isinstance(s, ast.Assign) and isinstance(s.targets[0], ast.Subscript) and txt(s.targets[0].slice) == "'name'"]
    okn = len(nm) == 1 and dflow.text(nm[0].value) == f"str({p}[0].children[0])"
    (ctx.holds if okn else ctx.violation)("C17.8", k + " :: name", where(df, nm[0] if nm else df.node), "name = the particle label of the first child" if okn else "the line's name is not the label of its first child")
    loops = [n for n in pf.walk_no_nested(df.node) if isinstance(n, ast.For)]
    outer = [l for l in loops if not enclosing(df, l, (ast.For,))]
    okl = len(outer) == 1 and txt(outer[0].iter) == f"{p}[1:]"
    (ctx.holds if okl else ctx.violation)("C17.8", k + " :: children", where(df, outer[0] if outer else df.node),
                                          "every child after the particle is inspected" if okl else f"the callback inspects `{txt(outer[0].iter) if outer else None}`, not every child after the particle")
    want = {"subdecay": "daughters", "spinfactor": "spinfactor", "lineshape": "lineshape"}
    seen = {}
    for st in pf.iter_stmts(df.node.body):
        tg = None
        if isinstance(st, ast.AugAssign) and isinstance(st.target, ast.Subscript):
            tg, val = txt(st.target.slice).strip("'"), st.value
        elif isinstance(st, ast.Expr) and isinstance(st.value, ast.Call) and isinstance(st.value.func, ast.Attribute) and st.value.func.attr == "extend" \
                and isinstance(st.value.func.value, ast.Subscript) and len(st.value.args) == 1:
            tg, val = txt(st.value.func.value.slice).strip("'"), st.value.args[0]        # x[k].extend(v) == x[k] += v for lists
        elif isinstance(st, ast.Assign) and isinstance(st.targets[0], (ast.Tuple,)) and len(st.targets[0].elts) == 1 and isinstance(st.targets[0].elts[0], ast.Subscript):
            tg, val = txt(st.targets[0].elts[0].slice).strip("'"), st.value
        if tg in want.values():
            conds = [(txt(e), pol) for kind, e, pol in guards.path_conditions(df.node, st) if kind == "if"]
            lps = enclosing(df, st, (ast.For,))
            var = lps[0].target.id if lps and isinstance(lps[0].target, ast.Name) else "?"
            tag = [t_ for t_, key in want.items() if key == tg][0]
            ok = (f"{var}.data == '{tag}'", True) in conds and all(pol or "==" in c for c, pol in conds) and txt(val) == f"{var}.children" \
                and not any(isinstance(x, (ast.Break, ast.Continue)) for x in ast.walk(lps[0]))
            # no slicing of the inner loop
            if len(lps) == 2:
                ok = ok and txt(lps[0].iter) == f"{lps[1].target.id}.children" and (f"{lps[1].target.id}.data == 'decaytype'", True) in conds
            seen[tg] = ok
    for tag, key in want.items():
        okk = seen.get(key) is True
        (ctx.holds if okk else ctx.violation)("C17.8", k + f" :: {key}", where(df, df.node),
                                              f"a `{tag}` child becomes the line's {key}" if okk else f"the {key} of a line is not taken from its `{tag}` child (for every such child)")
    init = [s for s in pf.iter_stmts(df.node.body) if isinstance(s, ast.Assign) and isinstance(s.targets[0], ast.Subscript) and txt(s.targets[0].slice) == "'daughters'"]
    oki = len(init) == 1 and txt(init[0].value) == "[]" and not enclosing(df, init[0], (ast.For,))
    (ctx.holds if oki else ctx.violation)("C17.8", k + " :: daughters-init", where(df, df.node), "daughters start empty for every line" if oki else "daughters are not initialised empty per line")
    # event_type
    ef_, eflow = fn(ss, ATRANS, "AmpGenTransformer.event_type")
    r = returns(ef_)
    oke = len(r) == 1 and txt(r[0].value) == canon(f"Tree('event_type', [str(p.children[0]) for p in {ef_.params[1]}])")
    (ctx.holds if oke else ctx.violation)("C17.8", ckey(ef_, None, "event_type"), where(ef_, ef_.node),
                                          "event_type = the label of every particle child, in order" if oke else f"event_type returns `{txt(r[0].value)[:80] if r else None}`")
    # cplx_decay_line: errors from the third columns; whole dictionary returned
    cf_, cflow = fn(ss, ATRANS, "AmpGenTransformer.cplx_decay_line")
    st = [x for x in pf.iter_stmts(cf_.node.body) if isinstance(x, ast.Assign) and isinstance(x.targets[0], ast.Subscript) and txt(x.targets[0].slice) == "'err'"]
    p = cf_.params[1]
    okerr = len(st) == 1 and cflow.text(st[0].value) == f"complex(float({p}[1].children[2]), float({p}[2].children[2]))"
    (ctx.holds if okerr else ctx.violation)("C17.8", ckey(cf_, None, "err"), where(cf_, cf_.node),
                                            "err = complex(error of the first triple, error of the second triple)" if okerr else "the coupling error is not assembled from the two error columns")
    r = returns(cf_)
    okr = len(r) == 1 and cflow.text(r[0].value) == f"Tree('cplx_decay_line', {p}[0])"
    (ctx.holds if okr else ctx.violation)("C17.8", ckey(cf_, None, "result"), where(cf_, cf_.node), "the callback returns the line's dictionary" if okr else "the callback does not return the line's dictionary")
    fx = [x for x in pf.iter_stmts(cf_.node.body) if isinstance(x, ast.Assign) and isinstance(x.targets[0], ast.Subscript) and txt(x.targets[0].slice) == "'fix'"]
    okfx = len(fx) == 1 and {n_.id for n_ in ast.walk(cflow.expand(fx[0].value)) if isinstance(n_, ast.Name)} == {p} and f"{p}[1].children[0]" in cflow.text(fx[0].value) \
        and f"{p}[2].children[0]" in cflow.text(fx[0].value)
    (ctx.holds if okfx else ctx.violation)("C17.8", ckey(cf_, None, "fix"), where(cf_, cf_.node),
                                           "the line's fix flag is computed from the two fix columns" if okfx else "the line's fix flag is not computed from the two fix columns")
    # from_matched_line: particle lookup by name, daughters converted recursively (all of them)
    mf_, mflow = fn(ss, ACHAIN, "AmplitudeChain.from_matched_line")
    sp = [x for x in pf.iter_stmts(mf_.node.body) if isinstance(x, ast.Assign) and txt(x.targets[0]) in ("mat['particle']", 'mat["particle"]')]
    okp = len(sp) == 1 and mflow.text(sp[0].value) in ("particle_from_string_name(mat['name'])",)
    (ctx.holds if okp else ctx.violation)("C17.8", ckey(mf_, None, "particle"), where(mf_, mf_.node), "particle = particle_from_string_name(name)" if okp else "the particle is not looked up from the line's name")
    sd = [x for x in pf.iter_stmts(mf_.node.body) if isinstance(x, ast.Assign) and txt(x.targets[0]) in ("mat['daughters']",)]
    okd = len(sd) == 1 and txt(sd[0].value) == canon("[cls.from_matched_line(d) for d in mat['daughters']]") and \
        [(txt(e), pol) for kind, e, pol in guards.path_conditions(mf_.node, sd[0]) if kind == "if"] in ([("mat['daughters']", True)], [])
    (ctx.holds if okd else ctx.violation)("C17.8", ckey(mf_, None, "daughters"), where(mf_, mf_.node),
                                          "every daughter dictionary is converted recursively" if okd else "not every daughter is converted recursively")


# ---------------------------------------------------------------------------------------------------------------
# C17.9: the options language itself (ampgen.lark), decided on the grammar Lark compiles: child words of the trees
# the reader relies on, statement kinds, keywords / punctuation, token languages (by automata), framing, ignores.
AMP_SHAPES = {
    "event_type": (r"T:particle( T:particle)+", ["T:particle T:particle", "T:particle T:particle T:particle T:particle T:particle"], True),
    "constant": (r"T:particle K:SIGNED_NUMBER", ["T:particle K:SIGNED_NUMBER"], False),
    "variable": (r"T:particle T:checkfixed K:SIGNED_NUMBER K:SIGNED_NUMBER", ["T:particle T:checkfixed K:SIGNED_NUMBER K:SIGNED_NUMBER"], False),
    "cplx_decay_line": (r"T:decay T:fixed_cplx T:fixed_cplx", ["T:decay T:fixed_cplx T:fixed_cplx"], False),
    "fixed_cplx": (r"T:checkfixed K:SIGNED_NUMBER K:SIGNED_NUMBER", ["T:checkfixed K:SIGNED_NUMBER K:SIGNED_NUMBER"], False),
    "checkfixed": (r"K:SIGNED_NUMBER", ["K:SIGNED_NUMBER"], False),
    "decay": (r"T:particle(( T:decaytype)? T:subdecay)?", ["T:particle", "T:particle T:subdecay", "T:particle T:decaytype T:subdecay"], False),
    "decaytype": (r"(T:spinfactor|T:lineshape)( T:lineshape)?", ["T:spinfactor", "T:lineshape", "T:spinfactor T:lineshape", "T:lineshape T:lineshape"], False),
    "subdecay": (r"T:decay T:decay", ["T:decay T:decay"], False),
    "spinfactor": (r"K:SPIN", ["K:SPIN"], False),
    "lineshape": (r"K:LINESHAPE", ["K:LINESHAPE"], False),
    "particle": (r"K:LABEL", ["K:LABEL"], False),
    "fast_coherent_sum": (r"K:INT", ["K:INT"], False),
}
AMP_KEYWORDS = {"event_type": {"EventType"}, "fast_coherent_sum": {"FastCoherentSum::UseCartesian"}, "decaytype": {"[", ";", "]"},
                "subdecay": {"{", ",", "}"}}
AMP_LINES = {"cplx_decay_line", "constant", "variable", "event_type", "options"}
# token languages the option files are written in (⊇: a narrower token no longer reads names / tags that files contain)
AMP_LABEL = r"(?:[A-Za-z0-9_/'*+\-()]|::)+"
AMP_LINESHAPE = r"[A-Za-z0-9_/][A-Za-z0-9_/.]+"
AMP_NEWLINE = r"(?:\r?\n[\t ]*|#[^\n]*)+"
AMP_COMMENT = r"#[^\n]*"


def c17_9(ctx, ss):
    import re as _re
    from ..core.larkfacts import SymAlphabet, ebnf_regex
    from ..core.rx import Rx, includes
    gf = grammar_facts(ss, G)
    loc = f"src/decaylanguage/{G}"
    for name, (rx, wit, unb) in AMP_SHAPES.items():
        k = f"{G}:{name}"
        if name not in gf.tree_names:
            ctx.violation("C17.9", k, loc, f"the grammar creates no `{name}` node any more")
            continue
        words = set(gf.word_strs(name))
        bad = sorted(w for w in words if not _re.fullmatch(rx, w))
        missing = [w for w in wit if w not in words]
        if bad:
            ctx.violation("C17.9", k, loc, f"rule `{name}` can have children [{bad[0]}], outside the shape {rx}", len(words))
        elif missing:
            ctx.violation("C17.9", k, loc, f"rule `{name}` can no longer have children [{missing[0]}] (shape {rx})", len(words))
        elif unb and not gf.unbounded(name):
            ctx.violation("C17.9", k, loc, f"rule `{name}` no longer repeats without bound", len(words))
        else:
            ctx.holds("C17.9", k, loc, f"child words of `{name}` ⊆ {rx}, witnesses present", len(words))
    for t, want in AMP_KEYWORDS.items():
        got = gf.keywords(t)
        (ctx.holds if got == want else ctx.violation)("C17.9", f"{G}:{t} :: keywords", loc, f"`{t}` is written with {sorted(want)}" if got == want
                                                      else f"`{t}` is recognised by {sorted(got)}, option files write {sorted(want)}", len(want))
    # lexer order: Lark tries terminals by descending priority, then by width.  A terminal that is given a higher priority
    # than another one, and whose words are proper prefixes of that other terminal's words, wins against the longer match:
    # `[SBW]` would be read as spin `S` followed by `BW`.  (Equal priorities leave the decision to the longest match.)
    import re as _re2
    terms = {n_: t_ for n_, t_ in gf.terminals.items() if not n_.startswith("__")}
    clash = None
    n_pairs = 0
    for an, a_ in terms.items():
        for bn, b_ in terms.items():
            if an == bn or (a_.priority or 0) <= (b_.priority or 0):
                continue
            n_pairs += 1
            try:
                ra = Rx(a_.pattern.to_regexp())
                words_a = ra.finite_words(cap=32)
                rb = _re2.compile(b_.pattern.to_regexp())
            except Exception:
                continue
            if not words_a:
                continue
            for w_ in words_a:
                # is there a longer word of B that starts with this word of A?  (probe a few continuations from B's alphabet)
                for tail in ("BW", "a", "0", "_x", ".a", "x1"):
                    if rb.fullmatch(w_ + tail) and not _re2.fullmatch(a_.pattern.to_regexp(), w_ + tail):
                        clash = (an, bn, w_, w_ + tail)
                        break
                if clash:
                    break
            if clash:
                break
        if clash:
            break
    (ctx.holds if not clash else ctx.violation)("C17.9", f"{G}:terminals :: priority-vs-longest-match", loc,
                                                f"no terminal with a raised priority shadows the beginning of a longer token ({n_pairs} ordered pairs)" if not clash else
                                                f"terminal {clash[0]} has a higher priority than {clash[1]} and matches the beginning `{clash[2]}` of its word `{clash[3]}`: "
                                                f"`{clash[3]}` is tokenised as {clash[0]} + rest and legal option texts are rejected", max(1, n_pairs))
    alts = gf.line_alternatives()
    miss = sorted(AMP_LINES - alts)
    (ctx.holds if not miss else ctx.violation)("C17.9", f"{G}:line :: statement-kinds", loc, f"a line can be each of {sorted(AMP_LINES)}" if not miss
                                               else f"a line can no longer be {miss}: such lines of an options text are rejected", len(alts))
    optw = set(gf.word_strs("options")) if "options" in gf.tree_names else set()
    oko = "T:fast_coherent_sum" in optw
    (ctx.holds if oko else ctx.violation)("C17.9", f"{G}:options :: coherent-sum", loc, "the coherent-sum option is an `options` line" if oko
                                          else "the coherent-sum option is no longer an alternative of `options`", len(optw))
    # closed tag set
    sp = gf.terminal_words("SPIN")
    (ctx.holds if sp == {"S", "P", "D"} else ctx.violation)("C17.9", f"{G}:SPIN", loc, "SPIN = {S, P, D}" if sp == {"S", "P", "D"}
                                                           else f"SPIN accepts {sorted(sp) if sp else 'an infinite language'}, the spin tags are S, P, D", 3)
    for tn, want, why in (("LABEL", AMP_LABEL, "particle / parameter names"), ("LINESHAPE", AMP_LINESHAPE, "line-shape tags"),
                          ("_NEWLINE", AMP_NEWLINE, "line ends, blank lines and comment lines"), ("COMMENT", AMP_COMMENT, "comments")):
        k = f"{G}:{tn} :: language"
        if tn not in gf.terminals:
            ctx.violation("C17.9", k, loc, f"{tn} is no longer a token of the grammar on its own ({why} are not recognised / not skipped)")
            continue
        got = Rx(gf.term_regex(tn))
        wit_ = includes(got, Rx(want))
        if wit_ is not None:
            ctx.violation("C17.9", k, loc, f"{tn} no longer matches {wit_!r} ({why} that option files contain)", got.n_states())
        elif got.accepts(""):
            ctx.violation("C17.9", k, loc, f"{tn} matches the empty string: no parser can be built from the grammar", got.n_states())
        else:
            ctx.holds("C17.9", k, loc, f"{tn} ⊇ {want}", got.n_states())
    # a spin tag is never also a line-shape tag (the lexer would be free to read [S] as a line shape)
    from ..core.rx import witness_common
    wc = witness_common(Rx(gf.term_regex("SPIN")), Rx(gf.term_regex("LINESHAPE")))
    (ctx.holds if wc is None else ctx.violation)("C17.9", f"{G}:SPIN-LINESHAPE :: disjoint", loc, "no text is both a SPIN and a LINESHAPE" if wc is None
                                                 else f"{wc!r} is both a SPIN and a LINESHAPE: the tag written in brackets can be read as the other kind", 2)
    ig = set(gf.ignore)
    missi = sorted({"COMMENT", "WS_INLINE"} - ig)
    (ctx.holds if not missi else ctx.violation)("C17.9", f"{G}:ignore", loc, "comments and blanks between tokens are ignored" if not missi
                                                else f"{missi} no longer ignored: trailing comments / spaces between tokens are rejected", 2)
    # framing: optional leading line end, then one or more lines each closed by a line end
    alpha = SymAlphabet()
    got = gf.rule_regex("start", alpha)
    n_, l_ = alpha.map.get("T:_NEWLINE"), alpha.map.get("N:line")
    if n_ is None or l_ is None:
        ctx.violation("C17.9", f"{G}:start :: framing", loc, "the start rule no longer consists of lines and line ends")
    else:
        wit_ = includes(Rx(got), Rx(f"(?:{n_})?(?:{l_}{n_})+"))
        (ctx.holds if wit_ is None else ctx.violation)("C17.9", f"{G}:start :: framing", loc, "start ⊇ NEWLINE? (line NEWLINE)+" if wit_ is None
                                                       else f"the start rule rejects the line sequence {wit_!r} (a = line end, b = line): texts with several lines / a leading blank line are no longer read", 3)
