"""C18 — each amplitude carries exactly its Bose-symmetrised permutations (DESIGN.md §4 C18)."""
from __future__ import annotations

import ast
import re

from ..core import guards
from ..core import pyfacts as pf
from ..core import sibling
from ..core.match import canon, call_arg, txt
from ..core.source import AnchorMissing
from .common import ACHAIN, GOOFIT, MDECAY, ckey, const_value, enclosing, fn, returns, stmt_of, where

PROP = "C18"
FILES = [MDECAY, GOOFIT, ACHAIN]
EXPLANATION = (
    "C18.1 the permutation set is built as: candidate positions per flattened final-state particle by equality, the "
    "product of ALL candidate lists, filtered for injectivity; C18.2 spin factors, line shapes and the declared count are "
    "all taken from self.list_structure(final_states) with the parameter forwarded unchanged, and to_goofit hands the same "
    "final states to the three parts; C18.3 invariant-mass names interpolate positions of the loop's own permutation with "
    "the index pattern of the topology, the i-th vertex gets the i-th mass, and each vertex's line shape receives that "
    "permutation; C18.4 exhaustiveness: every LS member is produced by ls_enum and handled by both make_lineshape, every "
    "spin-factor table entry is an SF_4Body member and every key has one of the two formats spindetails can produce; C18.5 "
    "the C++ and the Python generator agree method by method (identical logic methods; same control skeleton and data "
    "holes for the text-producing ones, with a two-line table of allowed divergences).")
NOT_DECIDED = ["that the constructed set equals the mathematical set of bijections for every multiplicity pattern (combinatorics is not executed): not applicable",
               "GooFit's own semantics of spin factors and line shapes"]
CH = ("GooFitChain", "GooFitPyChain")


def run(ctx, ss):
    for r, f in (("C18.1", c18_1), ("C18.2", c18_2), ("C18.3", c18_3), ("C18.4", c18_4), ("C18.5", c18_5)):
        ctx.guard(r, f, ss)
    # the amplitudes that are permuted are those of the expansion: each once, in input order (shared clause of C17.5)
    from .c05 import _as
    from .c17 import c17_5
    ctx.guard("C18.6", lambda c, s: _as(c, s, c17_5, "C18.6"), ss)
    # C18.7: nothing on the way from the observed entry points is memoised on a parser / tree / path / container (shared.py)
    from .shared import memo_for
    ctx.guard("C18.7", memo_for, ss, "C18", "C18.7", "generated code")


def c18_1(ctx, ss):
    ff, flow = fn(ss, MDECAY, "ModelDecay.list_structure")
    rets = returns(ff)
    k = ckey(ff, None, "permutations")
    if len(rets) != 1:
        raise AnchorMissing("list_structure: expected one return")
    v = flow.expand(rets[0].value)
    # the permutations are refused only for a structure naming a particle that is not among the final states
    for rz in [n for n in pf.walk_no_nested(ff.node) if isinstance(n, ast.Raise)]:
        conds = [(txt(flow.expand(e)), pol) for kind, e, pol in guards.path_conditions(ff.node, rz) if kind == "if"]
        okz = conds in ([("set(list(iter_flatten(self.structure))) - set(final_states)", True)], [("set(list(iter_flatten(self.structure))) <= set(final_states)", False)],
                        [("set(list(iter_flatten(self.structure))).issubset(final_states)", False)], [("set(list(iter_flatten(self.structure))).issubset(set(final_states))", False)])
        (ctx.holds if okz else ctx.violation)("C18.1", k + " :: refusal", where(ff, rz), "refused only when the amplitude names a particle outside the final states" if okz
                                              else f"list_structure refuses under {conds}: amplitudes over the event type's own particles are rejected (or foreign ones accepted)")
    ok_shape = isinstance(v, ast.ListComp) and len(v.generators) == 1
    if not ok_shape:
        ctx.violation("C18.1", k, where(ff, rets[0]), f"list_structure returns `{txt(v)[:100]}`: not a filtered product")
        return
    g = v.generators[0]
    it = g.iter
    ok_prod = isinstance(it, ast.Call) and txt(it.func) in ("product", "itertools.product") and len(it.args) == 1 and isinstance(it.args[0], ast.Starred)
    (ctx.holds if ok_prod else ctx.violation)("C18.1", k + " :: product", where(ff, rets[0]),
                                              "assignments = product(*candidate position lists)" if ok_prod else f"assignments come from `{txt(it)[:80]}`")
    ifs = [txt(i).replace(" ", "") for i in g.ifs]
    tgt = txt(g.target)
    ok_inj = ifs in ([f"len(set(__elem__({txt(it)})))==len(__elem__({txt(it)}))".replace(" ", "")],)
    (ctx.holds if ok_inj else ctx.violation)("C18.1", k + " :: injective", where(ff, rets[0]),
                                             "only one-to-one assignments are kept (len(set(a)) == len(a))" if ok_inj
                                             else f"the injectivity filter is {ifs}: assignments that use one position twice are emitted (or valid ones dropped)")
    ok_elt = txt(v.elt) == f"__elem__({txt(it)})"
    if not ok_elt:
        ctx.violation("C18.1", k + " :: element", where(ff, rets[0]), f"each permutation is `{txt(v.elt)[:60]}`, not the product element itself")
    if ok_prod:
        cands = it.args[0].value
        want = canon("[[__elem__(enumerate(final_states))[0] for i, v in enumerate(final_states) if __elem__(enumerate(final_states))[1] == __elem__(list(iter_flatten(self.structure)))] for name in list(iter_flatten(self.structure))]")
        okc = txt(cands) == want
        (ctx.holds if okc else ctx.violation)("C18.1", k + " :: candidates", where(ff, rets[0]),
                                              "candidates of each flattened final-state particle = positions of equal particles in the event type, for every particle in order" if okc
                                              else f"candidate positions are `{txt(cands)[:200]}`")
    sf, sflow = fn(ss, MDECAY, "ModelDecay.structure")
    r = returns(sf)
    oks = sorted(txt(x.value) for x in r) == sorted([canon("[d.structure for d in self.daughters]"), "self.particle"])
    for x in r:
        conds = [(txt(e), pol) for kind, e, pol in guards.path_conditions(sf.node, x) if kind == "if"]
        if txt(x.value).startswith("[") and conds != [("self.daughters", True)]:
            oks = False
    (ctx.holds if oks else ctx.violation)("C18.1", ckey(sf, None, "structure"), where(sf, sf.node),
                                          "structure = nested list of the daughters' structures, leaves = particles" if oks else "ModelDecay.structure changed shape")


def c18_2(ctx, ss):
    for cls_ in CH:
        for m in ("make_spinfactor", "make_linefactor"):
            ff, flow = fn(ss, GOOFIT, f"{cls_}.{m}")
            loops = [n for n in pf.walk_no_nested(ff.node) if isinstance(n, ast.For) and not enclosing(ff, n, (ast.For,))]
            k = ckey(ff, None, "permutation-source")
            ok = len(loops) == 1 and txt(flow.expand(loops[0].iter)) == "self.list_structure(final_states)"
            (ctx.holds if ok else ctx.violation)("C18.2", k, where(ff, loops[0] if loops else ff.node),
                                                 f"{cls_}.{m} loops over self.list_structure(final_states)" if ok
                                                 else f"{cls_}.{m} loops over `{txt(flow.expand(loops[0].iter))[:80] if loops else None}`")
            if loops:
                # no permutation is skipped: no `break`, and a `continue` only as the end of a branch that already emitted its
                # line for this permutation (e.g. the "not implemented" comment line, written as a guard clause)
                ex = [x for x in ast.walk(loops[0]) if isinstance(x, ast.Break)]
                for cn in [x for x in ast.walk(loops[0]) if isinstance(x, ast.Continue)]:
                    blk = next((b for n in ast.walk(loops[0]) for b in (getattr(n, "body", None), getattr(n, "orelse", None)) if isinstance(b, list) and any(cn is y for y in b)), [])
                    emitted = any(isinstance(y, ast.Expr) and isinstance(y.value, ast.Call) and isinstance(y.value.func, ast.Attribute) and y.value.func.attr == "append" for y in blk)
                    if not emitted or enclosing(ff, cn, (ast.For,))[0] is not loops[0]:
                        ex.append(cn)
                if ex:
                    ctx.violation("C18.2", k + " :: early-exit", where(ff, ex[0]), f"{cls_}.{m}: the permutation loop can end early / skip permutations")
        ff, flow = fn(ss, GOOFIT, f"{cls_}.make_amplitude")
        k = ckey(ff, None, "count")
        nd = [d for d in flow.defs if d.kind == "assign" and d.value is not None and "list_structure" in txt(d.value)]
        ok = len(nd) == 1 and txt(nd[0].value) == "len(self.list_structure(final_states))"
        used = False
        if ok:
            for js in [x for x in pf.walk_no_nested(ff.node) if isinstance(x, ast.JoinedStr)]:
                if any(isinstance(p, ast.FormattedValue) and txt(p.value) == nd[0].name for p in js.values):
                    used = True
        (ctx.holds if ok and used else ctx.violation)("C18.2", k, where(ff, ff.node),
                                                     f"{cls_}.make_amplitude declares len(self.list_structure(final_states)) permutations" if ok and used
                                                     else f"{cls_}.make_amplitude does not declare the number of permutations of the same list")
        ff, flow = fn(ss, GOOFIT, f"{cls_}.to_goofit")
        calls = {txt(c.func): c for c in pf.calls_in(ff.node)}
        ok = all(f"self.{p}" in calls and len(calls[f"self.{p}"].args) == 1 and txt(calls[f"self.{p}"].args[0]) == "final_states"
                 for p in ("make_spinfactor", "make_linefactor", "make_amplitude"))
        order = [txt(c.func) for c in sorted(pf.calls_in(ff.node), key=lambda c: (c.lineno, c.col_offset)) if txt(c.func).startswith("self.make_")]
        ok = ok and order == ["self.make_spinfactor", "self.make_linefactor", "self.make_amplitude"]
        (ctx.holds if ok else ctx.violation)("C18.2", ckey(ff, None, "parts"), where(ff, ff.node),
                                             f"{cls_}.to_goofit = spin factors, line factors, amplitude, all for the same final states" if ok
                                             else f"{cls_}.to_goofit does not emit the three parts for the same final states in order ({order})")


MASS_SPEC = {"FF_12_34": [(0, 1), (2, 3)], "other": [(0, 1, 2), (0, 1)]}


def _one_based(e, flow, pv, keep):
    """k when `e` denotes position k of the loop's permutation `pv`, counted from 1:  pv[k] + 1, or Q[k] with Q = the
    permutation shifted by one (tuple / list of x + 1 for x in pv)."""
    if isinstance(e, ast.BinOp) and isinstance(e.op, ast.Add) and isinstance(e.right, ast.Constant) and e.right.value == 1 \
            and isinstance(e.left, ast.Subscript) and isinstance(e.left.value, ast.Name) and e.left.value.id == pv and isinstance(e.left.slice, ast.Constant):
        return e.left.slice.value
    if isinstance(e, ast.Subscript) and isinstance(e.slice, ast.Constant) and isinstance(e.slice.value, int):
        q = flow.expand(e.value, keep=keep)
        if isinstance(q, ast.Call) and txt(q.func) in ("tuple", "list") and len(q.args) == 1:
            q = q.args[0]
        if isinstance(q, (ast.ListComp, ast.GeneratorExp)) and len(q.generators) == 1 and not q.generators[0].ifs and txt(q.generators[0].iter) == pv \
                and txt(q.elt) in (f"__elem__({pv}) + 1", f"1 + __elem__({pv})"):
            return e.slice.value
    return None


def c18_3(ctx, ss):
    from .common import case_of
    for cls_ in CH:
        ff, flow = fn(ss, GOOFIT, f"{cls_}.make_linefactor")
        loops = [n for n in pf.walk_no_nested(ff.node) if isinstance(n, ast.For) and not enclosing(ff, n, (ast.For,))]
        if len(loops) != 1 or not isinstance(loops[0].target, ast.Name):
            raise AnchorMissing(f"{cls_}.make_linefactor: permutation loop not found")
        pv = loops[0].target.id
        k = ckey(ff, None, "masses")
        # Case analysis on the topology: the function is specialised to FF_12_34 / the cascade topology and the invariant-mass
        # names that reach make_lineshape are read from the straight-line result (locals, a per-branch list literal, a shifted
        # copy of the permutation … all give the same facts).
        for branch, is_1234 in (("FF_12_34", True), ("other", False)):
            def atom(e, is_1234=is_1234):
                return is_1234 if txt(e) == "self.decay_structure == DecayStructure.FF_12_34" else None
            cf, cflow = case_of(ss, ff, flow, atom, branch)
            lp = [n for n in pf.walk_no_nested(cf.node) if isinstance(n, ast.For) and not enclosing(cf, n, (ast.For,))][0]
            ml = [c for c in pf.calls_in(lp) if isinstance(c.func, ast.Attribute) and c.func.attr == "make_lineshape"]
            kk = k + f" :: {branch}"
            if len(ml) != 1 or len(ml[0].args) != 2:
                raise AnchorMissing(f"{cls_}.make_linefactor [{branch}]: the single make_lineshape(permutation, mass) call was not found")
            c = ml[0]
            inner = [n for n in enclosing(cf, c, (ast.For,)) if n is not lp]
            KEEP = {pv} | ({x.id for x in ast.walk(inner[0].target) if isinstance(x, ast.Name)} if inner else set())
            m = cflow.expand(c.args[1], keep=KEEP)
            if isinstance(m, ast.Subscript) and isinstance(m.value, ast.Dict):
                ctx.violation("C18.3", k + " :: pairing", where(cf, c),
                              f"{cls_}: the invariant mass handed to a vertex's line shape is looked up by `{txt(m.slice)}` in a dictionary, not by the vertex's position: "
                              "two vertexes with the same key (an amplitude with the same resonance twice) get the same mass")
                continue
            d_ = [d for d in cflow.defs if isinstance(c.args[1], ast.Subscript) and isinstance(c.args[1].value, ast.Name) and d.name == c.args[1].value.id and d.kind == "assign"]
            if d_ and all(isinstance(d.value, (ast.Dict, ast.DictComp)) or (isinstance(d.value, ast.Call) and txt(d.value.func) == "dict") for d in d_):
                ctx.violation("C18.3", k + " :: pairing", where(cf, c),
                              f"{cls_}: the invariant mass handed to a vertex's line shape is looked up by `{txt(c.args[1].slice)}` in a dictionary, not by the vertex's position: "
                              "two vertexes with the same key (an amplitude with the same resonance twice) get the same mass")
                continue
            if not (isinstance(m, ast.Subscript) and isinstance(m.value, (ast.List, ast.Tuple)) and len(m.value.elts) == 2):
                raise AnchorMissing(f"{cls_}.make_linefactor [{branch}]: the pair of mass names handed to make_lineshape was not found (`{txt(m)[:60]}`)")
            seq, bad = [], None
            for el in m.value.elts:
                if isinstance(el, ast.JoinedStr):
                    # a piece of the name built first and interpolated (f"{first_pair}_{k}") is spliced in
                    import copy as _copy
                    from ..core.match import _FlatF
                    el = _FlatF().visit(_copy.deepcopy(el))
                if not isinstance(el, ast.JoinedStr):
                    bad = el
                    break
                idxs = []
                for p_ in el.values:
                    if isinstance(p_, ast.FormattedValue):
                        i_ = _one_based(p_.value, cflow, pv, KEEP)
                        if i_ is None:
                            bad = p_.value
                        idxs.append(i_)
                seq.append(tuple(idxs))
            if bad is not None:
                ctx.violation("C18.3", kk, where(cf, c), f"{cls_} [{branch}]: `{txt(bad)[:60]}` in a mass name is not a position of the loop's own permutation (+1)")
            elif seq == MASS_SPEC[branch]:
                ctx.holds("C18.3", kk, where(cf, c), f"{cls_} [{branch}]: mass indices {seq}", len(seq))
            else:
                ctx.violation("C18.3", kk, where(cf, c), f"{cls_} [{branch}]: invariant-mass indices are {seq}, expected {MASS_SPEC[branch]} (mass of the wrong particle pair / another permutation's positions)")
            # pairing vertex i <-> mass i, and the permutation handed to make_lineshape
            okp = False
            if len(inner) == 1 and isinstance(inner[0].iter, ast.Call) and txt(inner[0].iter.func) == "enumerate" and txt(inner[0].iter.args[0]) == "self.vertexes" \
                    and isinstance(inner[0].target, ast.Tuple) and len(inner[0].target.elts) == 2:
                i_name, v_name = (e.id for e in inner[0].target.elts)
                okp = txt(c.func.value) == v_name and txt(c.args[0]) == pv and txt(m.slice) == i_name
                apps = [x for x in pf.calls_in(inner[0]) if isinstance(x.func, ast.Attribute) and x.func.attr == "append"]
                okp = okp and len(apps) == 1 and not any(isinstance(x, (ast.If, ast.Break, ast.Continue)) for x in ast.walk(inner[0]))
            if branch == "FF_12_34":
                (ctx.holds if okp else ctx.violation)("C18.3", k + " :: pairing", where(cf, inner[0] if inner else lp),
                                                      f"{cls_}: the i-th vertex gets masses[i] and this permutation; one line shape per vertex" if okp
                                                      else f"{cls_}: vertexes and masses are not paired index by index with the loop's permutation (or a vertex can be skipped)")
    # spin factors carry the loop's permutation
    for cls_ in CH:
        ff, flow = fn(ss, GOOFIT, f"{cls_}.make_spinfactor")
        lp = [n for n in pf.walk_no_nested(ff.node) if isinstance(n, ast.For) and not enclosing(ff, n, (ast.For,))][0]
        pv = lp.target.id
        d = [d for d in flow.defs if d.kind == "assign" and d.value is not None and "join" in txt(d.value) and pv in txt(d.value)]
        ok = len(d) == 1 and txt(d[0].value) == f"', '.join(map(str, {pv}))"
        inner = [n for n in ast.walk(lp) if isinstance(n, ast.For) and n is not lp]
        oki = len(inner) == 1 and txt(flow.expand(inner[0].iter)) == "self.spinfactors"
        (ctx.holds if ok and oki else ctx.violation)("C18.3", ckey(ff, None, "spin-permutation"), where(ff, lp),
                                                     f"{cls_}: every spin factor of the amplitude is emitted with the loop's permutation" if ok and oki
                                                     else f"{cls_}: spin factors are not emitted once per (permutation, spin factor) with that permutation's indices")
    vf, vflow = fn(ss, MDECAY, "ModelDecay.vertexes")
    loops = [n for n in pf.walk_no_nested(vf.node) if isinstance(n, ast.For)]
    okv = False
    if len(loops) == 1 and txt(loops[0].iter) == "self.daughters" and isinstance(loops[0].target, ast.Name):
        d = loops[0].target.id
        apps = [c for c in pf.calls_in(loops[0]) if isinstance(c.func, ast.Attribute) and c.func.attr == "append" and txt(c.args[0]) == d]
        from .common import list_extensions
        augs = [(st_, tg_, v_) for st_, tg_, v_ in list_extensions(loops[0]) if txt(v_) == f"{d}.vertexes"]
        if len(apps) == 1 and len(augs) == 1:
            c1 = [(txt(e), pol) for kind, e, pol in guards.path_conditions(loops[0], stmt_of(vf, apps[0])) if kind == "if"]
            c2 = [(txt(e), pol) for kind, e, pol in guards.path_conditions(loops[0], augs[0][0]) if kind == "if"]
            r = returns(vf)
            cfg_ = vflow.cfg
            order = cfg_.reachable(cfg_.node_of(stmt_of(vf, apps[0])), cfg_.node_of(augs[0][0]), avoid={cfg_.node_of(loops[0])})     # the daughter first, then what is below it
            okv = c1 == [(f"{d}.is_vertex()", True)] and c2 == c1 and txt(apps[0].func.value) == txt(augs[0][1]) and order \
                and len(r) == 1 and txt(r[0].value) == txt(augs[0][1]) and not any(isinstance(x, ast.Break) for x in ast.walk(loops[0]))
    (ctx.holds if okv else ctx.violation)("C18.3", ckey(vf, None, "vertexes"), where(vf, vf.node), "vertexes = every two-body sub-decay, depth first" if okv else "ModelDecay.vertexes changed shape")


def _enum_members(ss, short, name):
    mf = pf.module_facts(ss, short)
    cf = mf.classes.get(name)
    if cf is None:
        raise AnchorMissing(f"enum {name} not found")
    return [k for k, v in cf.class_attrs.items() if isinstance(v, ast.Constant)]


def _enum_values(ss, short, cname):
    """{member: constant value} of an Enum class body (members whose value is not a literal are left out)"""
    out = {}
    for n in ss.tree(short).body:
        if isinstance(n, ast.ClassDef) and n.name == cname:
            for st in n.body:
                if isinstance(st, ast.Assign) and len(st.targets) == 1 and isinstance(st.targets[0], ast.Name):
                    try:
                        out[st.targets[0].id] = ast.literal_eval(st.value)
                    except Exception:
                        pass
    return out


def c18_4(ctx, ss):
    ls = _enum_members(ss, ACHAIN, "LS")
    sf = _enum_members(ss, GOOFIT, "SF_4Body")
    ctx.count("enum_members", len(ls) + len(sf))
    # the generated code names spin factors, form factors and line-shape kinds by `.name`: two members with one value are ONE
    # member with two names (Enum aliasing), and `.name` then answers the first -- every member needs its own value
    for short, cname in ((GOOFIT, "SF_4Body"), (GOOFIT, "DecayStructure"), (ACHAIN, "LS")):
        vals = _enum_values(ss, short, cname)
        seen = {}
        dup = None
        for m_, v_ in vals.items():
            try:
                if v_ in seen and dup is None:
                    dup = (seen[v_], m_, v_)
                seen.setdefault(v_, m_)
            except TypeError:
                continue
        kk = f"{short}:{cname} :: distinct-values"
        if dup:
            ctx.violation("C18.4", kk, f"src/decaylanguage/{short}", f"{cname}.{dup[1]} has the same value ({dup[2]!r}) as {cname}.{dup[0]}: it is an alias, `{cname}.{dup[1]}.name` is "
                          f"'{dup[0]}', and the generated code names the wrong factor")
        elif not vals:
            ctx.undecided("C18.4", kk, f"src/decaylanguage/{short}", f"no literal member values found in {cname}")
        else:
            ctx.holds("C18.4", kk, f"src/decaylanguage/{short}", f"the {len(vals)} members of {cname} have pairwise distinct values", len(vals))
    ff, flow = fn(ss, ACHAIN, "AmplitudeChain.ls_enum")
    produced = {txt(r.value).split(".")[-1] for r in returns(ff) if txt(r.value).startswith("LS.")}
    for m in ls:
        k = f"{ACHAIN}:LS.{m}"
        (ctx.holds if m in produced else ctx.violation)("C18.4", k + " :: produced", where(ff, ff.node),
                                                         f"LS.{m} is produced by ls_enum" if m in produced else f"LS.{m} is never produced by ls_enum")
        for cls_ in CH:
            mf_, mflow = fn(ss, GOOFIT, f"{cls_}.make_lineshape")
            tests = [txt(n.test) for n in pf.walk_no_nested(mf_.node) if isinstance(n, ast.If)]
            handled = f"self.ls_enum == LS.{m}" in tests
            (ctx.holds if handled else ctx.violation)("C18.4", k + f" :: {cls_}", where(mf_, mf_.node),
                                                       f"{cls_}.make_lineshape handles LS.{m}" if handled else f"{cls_}.make_lineshape has no branch for LS.{m}: such amplitudes cannot be emitted")
    ctx.floor("C18.4", "LS members", len(ls), 4)
    # which tag gives which kind
    wantk = {"RBW": ("self.lineshape", False), "GSpline": ("self.lineshape == 'GSpline.EFF'", True), "kMatrix": ("self.lineshape.startswith('kMatrix')", True),
             "FOCUS": ("self.lineshape.startswith('FOCUS')", True)}
    for r in returns(ff):
        m = txt(r.value).split(".")[-1]
        if m in wantk:
            conds = [(txt(e), pol) for kind, e, pol in guards.path_conditions(ff.node, r) if kind == "if"]
            ok = bool(conds) and conds[0] == wantk[m]      # the return's own (innermost) guard
            (ctx.holds if ok else ctx.violation)("C18.4", f"{ACHAIN}:LS.{m} :: tag", where(ff, r), f"LS.{m} ⇐ {wantk[m][0]}" if ok else f"LS.{m} is chosen under {conds}, expected `{wantk[m][0]}`")
    lf, lflow = fn(ss, ACHAIN, "AmplitudeChain.L")
    rl = returns(lf)
    okL = False
    for r in rl:
        if "index(self.spinfactor)" in txt(r.value):
            conds = [(txt(e), pol) for kind, e, pol in guards.path_conditions(lf.node, r) if kind == "if"]
            try:
                table = const_value(ss, ACHAIN, r.value.func.value) if isinstance(r.value, ast.Call) and isinstance(r.value.func, ast.Attribute) and r.value.func.attr == "index" else None
            except ValueError:
                table = None
            okL = conds == [("self.spinfactor", True)] and table is not None and list(table) == ["S", "P", "D", "F"] and [txt(a) for a in r.value.args] == ["self.spinfactor"]
    (ctx.holds if okL else ctx.violation)("C18.4", f"{ACHAIN}:AmplitudeChain.L", where(lf, lf.node),
                                          "a written spin tag S/P/D/F gives L = 0/1/2/3" if okL else "the orbital momentum is no longer the index of the written spin tag in 'S P D F'")
    # spin-factor table
    mf = pf.module_facts(ss, GOOFIT)
    if "known_spinfactors" not in mf.globals_:
        raise AnchorMissing("known_spinfactors not found")
    tab = mf.globals_["known_spinfactors"]
    if not isinstance(tab, ast.Dict):
        raise AnchorMissing("known_spinfactors is not a dict literal")
    f1 = re.compile(r"Dto[A-Za-z]1[A-Za-z]2_[A-Za-z]1toP1P2_[A-Za-z]2toP3P4(_[PDF])?")
    f2 = re.compile(r"Dto[A-Za-z]1P1_[A-Za-z]1to[A-Za-z]2P2([PDF]wave)?_[A-Za-z]2toP3P4")
    W = f"src/decaylanguage/{GOOFIT}"
    for kx, vx in zip(tab.keys, tab.values):
        key = kx.value if isinstance(kx, ast.Constant) else None
        kk = f"{GOOFIT}:known_spinfactors[{key}]"
        mem = [txt(e) for e in (vx.elts if isinstance(vx, (ast.Tuple, ast.List)) else [vx])]
        bad = [m for m in mem if not (m.startswith("SF_4Body.") and m.split(".")[1] in sf)]
        if bad:
            ctx.violation("C18.4", kk + " :: members", f"{W}:{kx.lineno}", f"spin-factor table entry {key!r} refers to {bad[0]}, not a member of SF_4Body")
        elif key is None or not (f1.fullmatch(key) or f2.fullmatch(key)):
            ctx.violation("C18.4", kk + " :: key", f"{W}:{kx.lineno}", f"spin-factor table key {key!r} has neither of the two formats spindetails() can produce: the entry is dead")
        else:
            ctx.holds("C18.4", kk, f"{W}:{kx.lineno}", f"{key} → {mem}", len(mem) + 1)
    ctx.floor("C18.4", "spin-factor table entries", len(tab.keys), 11)
    # the two formats really are what spindetails returns
    for cls_ in CH:
        sd, sdflow = fn(ss, GOOFIT, f"{cls_}.spindetails")
        rs = returns(sd)
        tx = sorted(txt(r.value)[:40] for r in rs)
        def consts(v):
            return ["".join(str(p.value) if isinstance(p, ast.Constant) else "{}" for p in js.values) for js in ast.walk(v) if isinstance(js, ast.JoinedStr)]
        ok = len(rs) == 2 and any("'Dto{a}{b}_{a}toP1P2_{b}toP3P4'" in txt(r.value) for r in rs) and any("Dto{}P1_{}to{}P2{}_{}toP3P4" in consts(r.value) for r in rs)
        (ctx.holds if ok else ctx.violation)("C18.4", ckey(sd, None, "formats"), where(sd, sd.node),
                                             f"{cls_}.spindetails produces the two key formats" if ok else f"{cls_}.spindetails returns {tx}: keys of the spin-factor table can no longer be produced")


LOGIC = ["decay_structure", "formfactor", "spindetails", "spinfactors"]
TEXT = ["make_spinfactor", "make_linefactor", "make_lineshape", "make_amplitude", "to_goofit", "make_intro", "make_pars", "read_ampgen"]
REN = {"GooFitPyChain": "<CLS>", "GooFitChain": "<CLS>"}
ALLOWED_HOLES = {("{L}", "{L}"), }
ALLOWED_SKEL = {("L =", "L ="), }
ALLOWED_LOGIC = {("self.L", "int(self.L)"), }   # the Python generator prints the orbital momentum as an int: reviewed, same value


def c18_5(ctx, ss, rule="C18.5", methods=None):
    mf = pf.module_facts(ss, GOOFIT)
    a, b = mf.classes.get(CH[0]), mf.classes.get(CH[1])
    if a is None or b is None:
        raise AnchorMissing("GooFitChain / GooFitPyChain not found")
    for m in (methods or LOGIC + ["make_spinfactor", "make_linefactor", "make_lineshape", "to_goofit"]):
        k = f"{GOOFIT}:{m} :: siblings"
        if m not in a.methods or m not in b.methods:
            ctx.violation(rule, k, f"src/decaylanguage/{GOOFIT}", f"`{m}` exists in only one of the two generators")
            continue
        fa, fb = a.methods[m], b.methods[m]
        if m in LOGIC:
            def exits(f_):
                """exit table of a function: every return / raise with its expanded value and expanded canonical path conditions —
                the same for if/else vs guard clauses, hoisted locals, negated tests"""
                from ..core.defuse import flow_of
                fl = flow_of(ss, f_)
                rows = []
                for x in pf.walk_no_nested(f_.node):
                    is_effect = (isinstance(x, ast.Expr) and isinstance(x.value, ast.Call)) or isinstance(x, ast.AugAssign) or \
                        (isinstance(x, ast.Assign) and not isinstance(x.targets[0], (ast.Name, ast.Tuple)))
                    if is_effect:
                        # statements that change an object (`xs.append(v)`, `x += v`, `o.a = v`) are part of what the function does
                        conds = set()
                        for kind, e, pol in guards.path_conditions(f_.node, x):
                            if kind == "if":
                                for a_, p_ in guards.canon_cond(fl.expand(e), pol):
                                    conds.add((sibling._norm(txt(a_), REN), p_))
                        body = x.value if isinstance(x, ast.Expr) else x
                        if isinstance(x, ast.Expr):
                            c_ = x.value
                            t_ = txt(c_.func) + "(" + ", ".join(txt(fl.expand(a_)) for a_ in c_.args) + ")"
                        else:
                            t_ = txt(x.targets[0] if isinstance(x, ast.Assign) else x.target) + f" {type(getattr(x, 'op', None)).__name__}= " + txt(fl.expand(x.value))
                        rows.append(("effect", tuple(sorted(conds)), sibling._norm(t_, REN)))
                    if isinstance(x, (ast.Return, ast.Raise)):
                        conds = set()
                        for kind, e, pol in guards.path_conditions(f_.node, x):
                            if kind == "if":
                                for a_, p_ in guards.canon_cond(fl.expand(e), pol):
                                    conds.add((sibling._norm(txt(a_), REN), p_))
                        val = x.value if isinstance(x, ast.Return) else x.exc
                        rows.append((type(x).__name__, tuple(sorted(conds)), sibling._norm(txt(fl.expand(val)), REN) if val is not None else ""))
                return sorted(rows)
            if sibling.identical(fa.node, fb.node, REN) or exits(fa) == exits(fb):
                ctx.holds(rule, k, where(fb, fb.node), f"{m}: identical logic in both generators", 2)
            else:
                sa, sb = sibling.skeleton(fa.node, REN), sibling.skeleton(fb.node, REN)
                d = sibling.diff(sa, sb) or sibling.diff(sibling.holes(fa.node, REN), sibling.holes(fb.node, REN)) or [("<literal/expression difference>", "")]
                ctx.violation(rule, k, where(fb, fb.node), f"{m}: the C++ and the Python generator differ in logic: `{d[0][0][:70]}` vs `{d[0][1][:70]}`")
            continue
        sa, sb = sibling.skeleton(fa.node, REN, skip_literal=True), sibling.skeleton(fb.node, REN, skip_literal=True)
        ha, hb = sibling.holes(fa.node, REN), sibling.holes(fb.node, REN)
        ds = sibling.diff(sa, sb)
        dh = [x for x in sibling.diff(ha, hb) if x not in ALLOWED_HOLES]
        if ds or dh:
            # the statement-by-statement comparison differs: is it only the LAYOUT of one side (renamed locals, a hoisted
            # sub-expression, .format vs f-string)?  Compare what the two functions emit, after expansion of their locals.
            from ..core.defuse import flow_of
            ea, eb = sibling.emission_skeleton(fa.node, flow_of(ss, fa), REN), sibling.emission_skeleton(fb.node, flow_of(ss, fb), REN)
            def _lang(t):      # the differences the two target languages require (ALLOWED_HOLES): int(L), True/true
                return str(t).replace("int(self.L)", "self.L").replace("'True'", "'true'").replace("'False'", "'false'")
            de = [x for x in sibling.diff(ea, eb) if _lang(x[0]) != _lang(x[1])]
            if not de:
                ctx.holds(rule, k, where(fb, fb.node), f"{m}: the two generators emit the same holes under the same conditions in the same order ({len(ea)} emission steps; layout differs)", len(ea))
                continue
        dl = [] if (ds or dh) else [x for x in sibling.logic_diff(fa.node, fb.node, REN) if x not in ALLOWED_LOGIC]
        if dl:
            ctx.violation(rule, k, where(fb, fb.node), f"{m}: the two generators compute different things outside the target-language text: C++ `{dl[0][0][:80]}` vs Python `{dl[0][1][:80]}`")
        elif not ds and not dh:
            ctx.holds(rule, k, where(fb, fb.node), f"{m}: same control skeleton ({len(sa)} statements), same {len(ha)} data holes, same non-text expressions", len(sa) + len(ha))
        else:
            d = (ds or dh)[0]
            ctx.violation(rule, k, where(fb, fb.node), f"{m}: the two generators diverge: C++ `{d[0][:80]}` vs Python `{d[1][:80]}`")
