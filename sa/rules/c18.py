"""C18 — each amplitude carries exactly its Bose-symmetrised permutations (DESIGN.md §4 C18)."""
from __future__ import annotations

import ast
import re

from ..core import guards
from ..core import pyfacts as pf
from ..core import sibling
from ..core.match import canon, call_arg, txt
from ..core.source import AnchorMissing
from .common import ACHAIN, GOOFIT, MDECAY, ckey, enclosing, fn, returns, stmt_of, where

PROP = "C18"
FILES = [MDECAY, GOOFIT, ACHAIN]
EXPLANATION = (
    "C18.1 the permutation set is built as: candidate positions per flattened final-state particle by equality, the "
    "product of ALL candidate lists, filtered for injectivity; C18.2 spin factors, line shapes and the declared count are "
    "all taken from self.list_structure(final_states) with the parameter forwarded unchanged, and to_goofit hands the same "
    "final states to the three parts; C18.3 invariant-mass names interpolate positions of the loop's own permutation with "
    "the index pattern of the topology, the i-th vertex gets the i-th mass, and each vertex's line shape receives that "
    "permutation; C18.4 exhaustiveness: every LS member is produced by ls_enum and handled by both make_lineshape, every "
    "spin-factor table entry is an SF_4Body member and every key has one of the two formats spindetails can produce; C18.5 "
    "the C++ and the Python generator agree method by method (identical logic methods; same control skeleton and data "
    "holes for the text-producing ones, with a two-line table of allowed divergences).")
NOT_DECIDED = ["that the constructed set equals the mathematical set of bijections for every multiplicity pattern (combinatorics is not executed): not applicable",
               "GooFit's own semantics of spin factors and line shapes"]
CH = ("GooFitChain", "GooFitPyChain")


def run(ctx, ss):
    for r, f in (("C18.1", c18_1), ("C18.2", c18_2), ("C18.3", c18_3), ("C18.4", c18_4), ("C18.5", c18_5)):
        ctx.guard(r, f, ss)


def c18_1(ctx, ss):
    ff, flow = fn(ss, MDECAY, "ModelDecay.list_structure")
    rets = returns(ff)
    k = ckey(ff, None, "permutations")
    if len(rets) != 1:
        raise AnchorMissing("list_structure: expected one return")
    v = flow.expand(rets[0].value)
    ok_shape = isinstance(v, ast.ListComp) and len(v.generators) == 1
    if not ok_shape:
        ctx.violation("C18.1", k, where(ff, rets[0]), f"list_structure returns `{txt(v)[:100]}`: not a filtered product")
        return
    g = v.generators[0]
    it = g.iter
    ok_prod = isinstance(it, ast.Call) and txt(it.func) in ("product", "itertools.product") and len(it.args) == 1 and isinstance(it.args[0], ast.Starred)
    (ctx.holds if ok_prod else ctx.violation)("C18.1", k + " :: product", where(ff, rets[0]),
                                              "assignments = product(*candidate position lists)" if ok_prod else f"assignments come from `{txt(it)[:80]}`")
    ifs = [txt(i).replace(" ", "") for i in g.ifs]
    tgt = txt(g.target)
    ok_inj = ifs in ([f"len(set(__elem__({txt(it)})))==len(__elem__({txt(it)}))".replace(" ", "")],)
    (ctx.holds if ok_inj else ctx.violation)("C18.1", k + " :: injective", where(ff, rets[0]),
                                             "only one-to-one assignments are kept (len(set(a)) == len(a))" if ok_inj
                                             else f"the injectivity filter is {ifs}: assignments that use one position twice are emitted (or valid ones dropped)")
    ok_elt = txt(v.elt) == f"__elem__({txt(it)})"
    if not ok_elt:
        ctx.violation("C18.1", k + " :: element", where(ff, rets[0]), f"each permutation is `{txt(v.elt)[:60]}`, not the product element itself")
    if ok_prod:
        cands = it.args[0].value
        want = canon("[[__elem__(enumerate(final_states))[0] for i, v in enumerate(final_states) if __elem__(enumerate(final_states))[1] == __elem__(list(iter_flatten(self.structure)))] for name in list(iter_flatten(self.structure))]")
        okc = txt(cands) == want
        (ctx.holds if okc else ctx.violation)("C18.1", k + " :: candidates", where(ff, rets[0]),
                                              "candidates of each flattened final-state particle = positions of equal particles in the event type, for every particle in order" if okc
                                              else f"candidate positions are `{txt(cands)[:200]}`")
    sf, sflow = fn(ss, MDECAY, "ModelDecay.structure")
    r = returns(sf)
    oks = sorted(txt(x.value) for x in r) == sorted([canon("[d.structure for d in self.daughters]"), "self.particle"])
    for x in r:
        conds = [(txt(e), pol) for kind, e, pol in guards.path_conditions(sf.node, x) if kind == "if"]
        if txt(x.value).startswith("[") and conds != [("self.daughters", True)]:
            oks = False
    (ctx.holds if oks else ctx.violation)("C18.1", ckey(sf, None, "structure"), where(sf, sf.node),
                                          "structure = nested list of the daughters' structures, leaves = particles" if oks else "ModelDecay.structure changed shape")


def c18_2(ctx, ss):
    for cls_ in CH:
        for m in ("make_spinfactor", "make_linefactor"):
            ff, flow = fn(ss, GOOFIT, f"{cls_}.{m}")
            loops = [n for n in pf.walk_no_nested(ff.node) if isinstance(n, ast.For) and not enclosing(ff, n, (ast.For,))]
            k = ckey(ff, None, "permutation-source")
            ok = len(loops) == 1 and txt(flow.expand(loops[0].iter)) == "self.list_structure(final_states)"
            (ctx.holds if ok else ctx.violation)("C18.2", k, where(ff, loops[0] if loops else ff.node),
                                                 f"{cls_}.{m} loops over self.list_structure(final_states)" if ok
                                                 else f"{cls_}.{m} loops over `{txt(flow.expand(loops[0].iter))[:80] if loops else None}`")
            if loops:
                ex = [x for x in ast.walk(loops[0]) if isinstance(x, (ast.Break, ast.Continue))]
                if ex:
                    ctx.violation("C18.2", k + " :: early-exit", where(ff, ex[0]), f"{cls_}.{m}: the permutation loop can end early / skip permutations")
        ff, flow = fn(ss, GOOFIT, f"{cls_}.make_amplitude")
        k = ckey(ff, None, "count")
        nd = [d for d in flow.defs if d.kind == "assign" and d.value is not None and "list_structure" in txt(d.value)]
        ok = len(nd) == 1 and txt(nd[0].value) == "len(self.list_structure(final_states))"
        used = False
        if ok:
            for js in [x for x in pf.walk_no_nested(ff.node) if isinstance(x, ast.JoinedStr)]:
                if any(isinstance(p, ast.FormattedValue) and txt(p.value) == nd[0].name for p in js.values):
                    used = True
        (ctx.holds if ok and used else ctx.violation)("C18.2", k, where(ff, ff.node),
                                                     f"{cls_}.make_amplitude declares len(self.list_structure(final_states)) permutations" if ok and used
                                                     else f"{cls_}.make_amplitude does not declare the number of permutations of the same list")
        ff, flow = fn(ss, GOOFIT, f"{cls_}.to_goofit")
        calls = {txt(c.func): c for c in pf.calls_in(ff.node)}
        ok = all(f"self.{p}" in calls and len(calls[f"self.{p}"].args) == 1 and txt(calls[f"self.{p}"].args[0]) == "final_states"
                 for p in ("make_spinfactor", "make_linefactor", "make_amplitude"))
        order = [txt(c.func) for c in sorted(pf.calls_in(ff.node), key=lambda c: (c.lineno, c.col_offset)) if txt(c.func).startswith("self.make_")]
        ok = ok and order == ["self.make_spinfactor", "self.make_linefactor", "self.make_amplitude"]
        (ctx.holds if ok else ctx.violation)("C18.2", ckey(ff, None, "parts"), where(ff, ff.node),
                                             f"{cls_}.to_goofit = spin factors, line factors, amplitude, all for the same final states" if ok
                                             else f"{cls_}.to_goofit does not emit the three parts for the same final states in order ({order})")


MASS_SPEC = {"FF_12_34": [(0, 1), (2, 3)], "other": [(0, 1, 2), (0, 1)]}


def c18_3(ctx, ss):
    for cls_ in CH:
        ff, flow = fn(ss, GOOFIT, f"{cls_}.make_linefactor")
        loops = [n for n in pf.walk_no_nested(ff.node) if isinstance(n, ast.For) and not enclosing(ff, n, (ast.For,))]
        if len(loops) != 1 or not isinstance(loops[0].target, ast.Name):
            raise AnchorMissing(f"{cls_}.make_linefactor: permutation loop not found")
        lp = loops[0]
        pv = lp.target.id
        k = ckey(ff, None, "masses")
        # mass definitions
        got = {"FF_12_34": {}, "other": {}}
        # roles: the two-element list indexed in the make_lineshape call holds the two mass-name locals, in order
        ml_all = [c for c in pf.calls_in(lp) if isinstance(c.func, ast.Attribute) and c.func.attr == "make_lineshape"]
        masses_name, mass_names = None, []
        if ml_all and len(ml_all[0].args) == 2 and isinstance(ml_all[0].args[1], ast.Subscript) and isinstance(ml_all[0].args[1].value, ast.Name):
            masses_name = ml_all[0].args[1].value.id
            md = [d for d in flow.defs if d.name == masses_name and d.kind == "assign"]
            if len(md) == 1 and isinstance(md[0].value, ast.List) and all(isinstance(e, ast.Name) for e in md[0].value.elts):
                mass_names = [e.id for e in md[0].value.elts]
        if len(mass_names) != 2 and masses_name is not None:
            md = [d for d in flow.defs if d.name == masses_name and d.kind == "assign"]
            if md and all(isinstance(d.value, (ast.Dict, ast.DictComp)) or (isinstance(d.value, ast.Call) and txt(d.value.func) == "dict") for d in md):
                a1 = ml_all[0].args[1]
                ctx.violation("C18.3", k + " :: pairing", where(ff, ml_all[0]),
                              f"{cls_}: the invariant mass handed to a vertex's line shape is looked up by `{txt(a1.slice)}` in a dictionary, not by the vertex's position: "
                              "two vertexes with the same key (an amplitude with the same resonance twice) get the same mass")
                continue
        if len(mass_names) != 2:
            raise AnchorMissing(f"{cls_}.make_linefactor: the [mass1, mass2] list handed to make_lineshape was not found")
        for d in [d for d in flow.defs if d.kind == "assign" and isinstance(d.value, ast.JoinedStr) and d.name in mass_names]:
            conds = [(txt(e), pol) for kind, e, pol in guards.path_conditions(lp, d.stmt) if kind == "if"]
            branch = None
            if conds == [("self.decay_structure == DecayStructure.FF_12_34", True)]:
                branch = "FF_12_34"
            elif conds == [("self.decay_structure == DecayStructure.FF_12_34", False)]:
                branch = "other"
            idxs = []
            okf = True
            for p in d.value.values:
                if isinstance(p, ast.FormattedValue):
                    e = p.value
                    if isinstance(e, ast.BinOp) and isinstance(e.op, ast.Add) and isinstance(e.right, ast.Constant) and e.right.value == 1 \
                            and isinstance(e.left, ast.Subscript) and isinstance(e.left.value, ast.Name) and e.left.value.id == pv and isinstance(e.left.slice, ast.Constant):
                        idxs.append(e.left.slice.value)
                    else:
                        okf = False
            consts = "".join(p.value for p in d.value.values if isinstance(p, ast.Constant))
            if branch is None or not okf:
                ctx.violation("C18.3", k + f" :: {d.name}", where(ff, d.stmt), f"{cls_}: `{txt(d.stmt)[:80]}` does not interpolate positions of the loop's own permutation (+1) under the topology test")
            else:
                got[branch][d.name] = (tuple(idxs), consts)
        for branch, spec in MASS_SPEC.items():
            seq = [got[branch][n][0] for n in mass_names if n in got[branch]]
            kk = k + f" :: {branch}"
            if seq == spec:
                ctx.holds("C18.3", kk, where(ff, lp), f"{cls_} [{branch}]: mass indices {seq}", len(seq))
            else:
                ctx.violation("C18.3", kk, where(ff, lp), f"{cls_} [{branch}]: invariant-mass indices are {seq}, expected {spec} (mass of the wrong particle pair / another permutation's positions)")
        # pairing vertex i <-> mass i, and the permutation handed to make_lineshape
        inner = [n for n in ast.walk(lp) if isinstance(n, ast.For) and n is not lp]
        okp = False
        if len(inner) == 1 and isinstance(inner[0].iter, ast.Call) and txt(inner[0].iter.func) == "enumerate" and txt(inner[0].iter.args[0]) == "self.vertexes" \
                and isinstance(inner[0].target, ast.Tuple):
            i_name, v_name = (e.id for e in inner[0].target.elts)
            ml = [c for c in pf.calls_in(inner[0]) if isinstance(c.func, ast.Attribute) and c.func.attr == "make_lineshape"]
            okp = len(ml) == 1 and txt(ml[0].func.value) == v_name and len(ml[0].args) == 2 and txt(ml[0].args[0]) == pv and txt(ml[0].args[1]) == f"{masses_name}[{i_name}]"
            apps = [c for c in pf.calls_in(inner[0]) if isinstance(c.func, ast.Attribute) and c.func.attr == "append"]
            okp = okp and len(apps) == 1 and not any(isinstance(x, (ast.If, ast.Break, ast.Continue)) for x in ast.walk(inner[0]))
        (ctx.holds if okp else ctx.violation)("C18.3", k + " :: pairing", where(ff, inner[0] if inner else lp),
                                              f"{cls_}: the i-th vertex gets masses[i] and this permutation; one line shape per vertex" if okp
                                              else f"{cls_}: vertexes and masses are not paired index by index with the loop's permutation (or a vertex can be skipped)")
    # spin factors carry the loop's permutation
    for cls_ in CH:
        ff, flow = fn(ss, GOOFIT, f"{cls_}.make_spinfactor")
        lp = [n for n in pf.walk_no_nested(ff.node) if isinstance(n, ast.For) and not enclosing(ff, n, (ast.For,))][0]
        pv = lp.target.id
        d = [d for d in flow.defs if d.kind == "assign" and d.value is not None and "join" in txt(d.value) and pv in txt(d.value)]
        ok = len(d) == 1 and txt(d[0].value) == f"', '.join(map(str, {pv}))"
        inner = [n for n in ast.walk(lp) if isinstance(n, ast.For) and n is not lp]
        oki = len(inner) == 1 and txt(flow.expand(inner[0].iter)) == "self.spinfactors"
        (ctx.holds if ok and oki else ctx.violation)("C18.3", ckey(ff, None, "spin-permutation"), where(ff, lp),
                                                     f"{cls_}: every spin factor of the amplitude is emitted with the loop's permutation" if ok and oki
                                                     else f"{cls_}: spin factors are not emitted once per (permutation, spin factor) with that permutation's indices")
    vf, vflow = fn(ss, MDECAY, "ModelDecay.vertexes")
    loops = [n for n in pf.walk_no_nested(vf.node) if isinstance(n, ast.For)]
    okv = False
    if len(loops) == 1 and txt(loops[0].iter) == "self.daughters" and isinstance(loops[0].target, ast.Name):
        d = loops[0].target.id
        apps = [c for c in pf.calls_in(loops[0]) if isinstance(c.func, ast.Attribute) and c.func.attr == "append" and txt(c.args[0]) == d]
        augs = [a for a in ast.walk(loops[0]) if isinstance(a, ast.AugAssign) and txt(a.value) == f"{d}.vertexes"]
        if len(apps) == 1 and len(augs) == 1:
            c1 = [(txt(e), pol) for kind, e, pol in guards.path_conditions(loops[0], stmt_of(vf, apps[0])) if kind == "if"]
            c2 = [(txt(e), pol) for kind, e, pol in guards.path_conditions(loops[0], augs[0]) if kind == "if"]
            r = returns(vf)
            okv = c1 == [(f"{d}.is_vertex()", True)] and c2 == c1 and txt(apps[0].func.value) == txt(augs[0].target) \
                and len(r) == 1 and txt(r[0].value) == txt(augs[0].target) and not any(isinstance(x, (ast.Break, ast.Continue)) for x in ast.walk(loops[0]))
    (ctx.holds if okv else ctx.violation)("C18.3", ckey(vf, None, "vertexes"), where(vf, vf.node), "vertexes = every two-body sub-decay, depth first" if okv else "ModelDecay.vertexes changed shape")


def _enum_members(ss, short, name):
    mf = pf.module_facts(ss, short)
    cf = mf.classes.get(name)
    if cf is None:
        raise AnchorMissing(f"enum {name} not found")
    return [k for k, v in cf.class_attrs.items() if isinstance(v, ast.Constant)]


def c18_4(ctx, ss):
    ls = _enum_members(ss, ACHAIN, "LS")
    sf = _enum_members(ss, GOOFIT, "SF_4Body")
    ctx.count("enum_members", len(ls) + len(sf))
    ff, flow = fn(ss, ACHAIN, "AmplitudeChain.ls_enum")
    produced = {txt(r.value).split(".")[-1] for r in returns(ff) if txt(r.value).startswith("LS.")}
    for m in ls:
        k = f"{ACHAIN}:LS.{m}"
        (ctx.holds if m in produced else ctx.violation)("C18.4", k + " :: produced", where(ff, ff.node),
                                                         f"LS.{m} is produced by ls_enum" if m in produced else f"LS.{m} is never produced by ls_enum")
        for cls_ in CH:
            mf_, mflow = fn(ss, GOOFIT, f"{cls_}.make_lineshape")
            tests = [txt(n.test) for n in pf.walk_no_nested(mf_.node) if isinstance(n, ast.If)]
            handled = f"self.ls_enum == LS.{m}" in tests
            (ctx.holds if handled else ctx.violation)("C18.4", k + f" :: {cls_}", where(mf_, mf_.node),
                                                       f"{cls_}.make_lineshape handles LS.{m}" if handled else f"{cls_}.make_lineshape has no branch for LS.{m}: such amplitudes cannot be emitted")
    ctx.floor("C18.4", "LS members", len(ls), 4)
    # which tag gives which kind
    wantk = {"RBW": ("self.lineshape", False), "GSpline": ("self.lineshape == 'GSpline.EFF'", True), "kMatrix": ("self.lineshape.startswith('kMatrix')", True),
             "FOCUS": ("self.lineshape.startswith('FOCUS')", True)}
    for r in returns(ff):
        m = txt(r.value).split(".")[-1]
        if m in wantk:
            conds = [(txt(e), pol) for kind, e, pol in guards.path_conditions(ff.node, r) if kind == "if"]
            ok = bool(conds) and conds[0] == wantk[m]      # the return's own (innermost) guard
            (ctx.holds if ok else ctx.violation)("C18.4", f"{ACHAIN}:LS.{m} :: tag", where(ff, r), f"LS.{m} ⇐ {wantk[m][0]}" if ok else f"LS.{m} is chosen under {conds}, expected `{wantk[m][0]}`")
    lf, lflow = fn(ss, ACHAIN, "AmplitudeChain.L")
    rl = returns(lf)
    okL = False
    for r in rl:
        if "index(self.spinfactor)" in txt(r.value):
            conds = [(txt(e), pol) for kind, e, pol in guards.path_conditions(lf.node, r) if kind == "if"]
            okL = conds == [("self.spinfactor", True)] and txt(r.value) == "'S P D F'.split().index(self.spinfactor)"
    (ctx.holds if okL else ctx.violation)("C18.4", f"{ACHAIN}:AmplitudeChain.L", where(lf, lf.node),
                                          "a written spin tag S/P/D/F gives L = 0/1/2/3" if okL else "the orbital momentum is no longer the index of the written spin tag in 'S P D F'")
    # spin-factor table
    mf = pf.module_facts(ss, GOOFIT)
    if "known_spinfactors" not in mf.globals_:
        raise AnchorMissing("known_spinfactors not found")
    tab = mf.globals_["known_spinfactors"]
    if not isinstance(tab, ast.Dict):
        raise AnchorMissing("known_spinfactors is not a dict literal")
    f1 = re.compile(r"Dto[A-Za-z]1[A-Za-z]2_[A-Za-z]1toP1P2_[A-Za-z]2toP3P4(_[PDF])?")
    f2 = re.compile(r"Dto[A-Za-z]1P1_[A-Za-z]1to[A-Za-z]2P2([PDF]wave)?_[A-Za-z]2toP3P4")
    W = f"src/decaylanguage/{GOOFIT}"
    for kx, vx in zip(tab.keys, tab.values):
        key = kx.value if isinstance(kx, ast.Constant) else None
        kk = f"{GOOFIT}:known_spinfactors[{key}]"
        mem = [txt(e) for e in (vx.elts if isinstance(vx, (ast.Tuple, ast.List)) else [vx])]
        bad = [m for m in mem if not (m.startswith("SF_4Body.") and m.split(".")[1] in sf)]
        if bad:
            ctx.violation("C18.4", kk + " :: members", f"{W}:{kx.lineno}", f"spin-factor table entry {key!r} refers to {bad[0]}, not a member of SF_4Body")
        elif key is None or not (f1.fullmatch(key) or f2.fullmatch(key)):
            ctx.violation("C18.4", kk + " :: key", f"{W}:{kx.lineno}", f"spin-factor table key {key!r} has neither of the two formats spindetails() can produce: the entry is dead")
        else:
            ctx.holds("C18.4", kk, f"{W}:{kx.lineno}", f"{key} → {mem}", len(mem) + 1)
    ctx.floor("C18.4", "spin-factor table entries", len(tab.keys), 11)
    # the two formats really are what spindetails returns
    for cls_ in CH:
        sd, sdflow = fn(ss, GOOFIT, f"{cls_}.spindetails")
        rs = returns(sd)
        tx = sorted(txt(r.value)[:40] for r in rs)
        def consts(v):
            return ["".join(str(p.value) if isinstance(p, ast.Constant) else "{}" for p in js.values) for js in ast.walk(v) if isinstance(js, ast.JoinedStr)]
        ok = len(rs) == 2 and any("'Dto{a}{b}_{a}toP1P2_{b}toP3P4'" in txt(r.value) for r in rs) and any("Dto{}P1_{}to{}P2{}_{}toP3P4" in consts(r.value) for r in rs)
        (ctx.holds if ok else ctx.violation)("C18.4", ckey(sd, None, "formats"), where(sd, sd.node),
                                             f"{cls_}.spindetails produces the two key formats" if ok else f"{cls_}.spindetails returns {tx}: keys of the spin-factor table can no longer be produced")


LOGIC = ["decay_structure", "formfactor", "spindetails", "spinfactors"]
TEXT = ["make_spinfactor", "make_linefactor", "make_lineshape", "make_amplitude", "to_goofit", "make_intro", "make_pars", "read_ampgen"]
REN = {"GooFitPyChain": "<CLS>", "GooFitChain": "<CLS>"}
ALLOWED_HOLES = {("{L}", "{L}"), }
ALLOWED_SKEL = {("L =", "L ="), }
ALLOWED_LOGIC = {("self.L", "int(self.L)"), }   # the Python generator prints the orbital momentum as an int: reviewed, same value


def c18_5(ctx, ss, rule="C18.5", methods=None):
    mf = pf.module_facts(ss, GOOFIT)
    a, b = mf.classes.get(CH[0]), mf.classes.get(CH[1])
    if a is None or b is None:
        raise AnchorMissing("GooFitChain / GooFitPyChain not found")
    for m in (methods or LOGIC + ["make_spinfactor", "make_linefactor", "make_lineshape", "to_goofit"]):
        k = f"{GOOFIT}:{m} :: siblings"
        if m not in a.methods or m not in b.methods:
            ctx.violation(rule, k, f"src/decaylanguage/{GOOFIT}", f"`{m}` exists in only one of the two generators")
            continue
        fa, fb = a.methods[m], b.methods[m]
        if m in LOGIC:
            if sibling.identical(fa.node, fb.node, REN):
                ctx.holds(rule, k, where(fb, fb.node), f"{m}: identical logic in both generators", 2)
            else:
                sa, sb = sibling.skeleton(fa.node, REN), sibling.skeleton(fb.node, REN)
                d = sibling.diff(sa, sb) or sibling.diff(sibling.holes(fa.node, REN), sibling.holes(fb.node, REN)) or [("<literal/expression difference>", "")]
                ctx.violation(rule, k, where(fb, fb.node), f"{m}: the C++ and the Python generator differ in logic: `{d[0][0][:70]}` vs `{d[0][1][:70]}`")
            continue
        sa, sb = sibling.skeleton(fa.node, REN, skip_literal=True), sibling.skeleton(fb.node, REN, skip_literal=True)
        ha, hb = sibling.holes(fa.node, REN), sibling.holes(fb.node, REN)
        ds = sibling.diff(sa, sb)
        dh = [x for x in sibling.diff(ha, hb) if x not in ALLOWED_HOLES]
        dl = [] if (ds or dh) else [x for x in sibling.logic_diff(fa.node, fb.node, REN) if x not in ALLOWED_LOGIC]
        if dl:
            ctx.violation(rule, k, where(fb, fb.node), f"{m}: the two generators compute different things outside the target-language text: C++ `{dl[0][0][:80]}` vs Python `{dl[0][1][:80]}`")
        elif not ds and not dh:
            ctx.holds(rule, k, where(fb, fb.node), f"{m}: same control skeleton ({len(sa)} statements), same {len(ha)} data holes, same non-text expressions", len(sa) + len(ha))
        else:
            d = (ds or dh)[0]
            ctx.violation(rule, k, where(fb, fb.node), f"{m}: the two generators diverge: C++ `{d[0][:80]}` vs Python `{d[1][:80]}`")
