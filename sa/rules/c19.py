"""C19 — C++ and Python outputs describe the same, self-contained model (DESIGN.md §4 C19)."""
from __future__ import annotations

import ast
import re

from ..core import guards
from ..core import pyfacts as pf
from ..core import sibling
from ..core.match import phi_alts, txt
from ..core.source import AnchorMissing, site_packages_file
from .common import case_of, A2G, ACHAIN, GOOFIT, MAIN, ckey, enclosing, fn, stmt_of, where

PROP = "C19"
FILES = [GOOFIT, A2G, MAIN, ACHAIN]
EXPLANATION = (
    "C19.1 single sink: in a converter that binds `printer`, every piece of output goes through it (no other call of the "
    "builtin print), so the returned string is what would be printed; C19.2 coefficient names: in both generators and in "
    "every arm of the fixed/free choice the real coefficient is named …_r and the imaginary one …_i; C19.3 both converters "
    "emit intro, then parameters, then the per-amplitude loop; C19.4 generated symbol names are formed the same way where "
    "they are declared (make_intro / make_pars) and where they are used (make_lineshape): <programmatic name>_M/_W, "
    "programmatic_name(x)_SplineArr, f_scatt, IS_poles; C19.5 the two converters and the two make_intro / make_pars / "
    "make_amplitude agree in control skeleton and data holes; C19.6 third-party arity: every call of a function imported "
    "from the installed `particle` package binds against its current signature; C19.7 every generator kind of the command-"
    "line switch has a branch.")
NOT_DECIDED = ["that the Python output runs against the GooFit API or is valid Python for every input: not applicable (generated code is not executed)",
               "equality of the two outputs as model descriptions"]
CH = ("GooFitChain", "GooFitPyChain")
CONV = ("ampgen2goofit", "ampgen2goofitpy")


def run(ctx, ss):
    for r, f in (("C19.1", c19_1), ("C19.2", c19_2), ("C19.3", c19_3), ("C19.4", c19_4), ("C19.5", c19_5), ("C19.6", c19_6), ("C19.7", c19_7), ("C19.9", c19_9)):
        ctx.guard(r, f, ss)
    from .c20 import c20_1
    ctx.guard("C19.8", c20_1, ss, lambda r: "C19.8")


def _printer_name(flow):
    def arms(v):
        return arms(v.body) + arms(v.orelse) if isinstance(v, ast.IfExp) else [v]
    names = {d.name for d in flow.defs if d.kind == "assign" and d.value is not None
             and any(txt(a) == "print" or txt(a).startswith("partial(print") for a in arms(d.value))}
    if len(names) != 1:
        raise AnchorMissing(f"no single local bound to print / partial(print, …) ({sorted(names)})")
    return names.pop()


def _bare_prints(fnode):
    """Calls of the builtin print that are not the binding of `printer` itself."""
    out = []
    for c in pf.calls_in(fnode):
        if isinstance(c.func, ast.Name) and c.func.id == "print":
            out.append(c)
    return out


def c19_1(ctx, ss):
    n = 0
    for q in CONV:
        ff, flow = fn(ss, A2G, q)
        pn = _printer_name(flow)
        binds = [d for d in flow.defs if d.name == pn]
        n += 1
        bare = _bare_prints(ff.node)
        k = f"{A2G}:{q} :: bare-print"
        if bare:
            ctx.violation("C19.1", k, where(ff, bare[0]),
                          f"{q} writes {len(bare)} piece(s) with the bare print() instead of the printer (first: `{txt(bare[0])[:60]}`): with ret_output=True they leak "
                          "to stdout and are missing from the returned text")
        else:
            ctx.holds("C19.1", k, where(ff, ff.node), f"{q}: all output goes through `printer`", len(pf.calls_in(ff.node)))
        # the sink, case by case (the function specialised to ret_output true / false, whatever statement shape binds the printer):
        #   ret_output      : printer = partial(print, file=<the function's single StringIO()>), and that buffer's text is returned
        #   not ret_output  : printer = print, nothing (None) is returned
        def atom_ro(val):
            def atom(e):
                return val if txt(e) == "ret_output" else None
            return atom
        problems = []
        for ro in (True, False):
            ff2, flow2 = case_of(ss, ff, flow, atom_ro(ro), "ret" if ro else "print")
            b2 = [d for d in flow2.defs if d.name == pn and d.value is not None]
            texts = sorted({flow2.text(d.value) for d in b2})
            rets2 = [r for r in pf.walk_no_nested(ff2.node) if isinstance(r, ast.Return) and r.value is not None and not (isinstance(r.value, ast.Constant) and r.value.value is None)]
            n_sio = len([c_ for c_ in pf.calls_in(ff2.node) if txt(c_.func) in ("StringIO", "io.StringIO")])
            if ro:
                okc = texts == ["partial(print, file=StringIO())"] and n_sio == 1 and len(rets2) == 1
                if okc:
                    rv = flow2.expand(rets2[0].value)
                    okc = isinstance(rv, ast.Call) and isinstance(rv.func, ast.Attribute) and rv.func.attr == "getvalue" and not rv.args and txt(rv.func.value) == "StringIO()" \
                        and not [c for c in guards.path_conditions(ff2.node, rets2[0]) if c[0] == "if"]
                if not okc:
                    problems.append(f"with ret_output the printer is {texts} and the function returns {[flow2.text(r.value)[:40] for r in rets2]}")
            else:
                okc = texts == ["print"] and not rets2
                if not okc:
                    problems.append(f"without ret_output the printer is {texts} and the function returns {[flow2.text(r.value)[:40] for r in rets2]}")
        (ctx.holds if not problems else ctx.violation)("C19.1", f"{A2G}:{q} :: sink", where(ff, ff.node),
                                                      f"{q}: printer is print, or print-to-buffer exactly when the text is to be returned; the buffer is what is returned" if not problems
                                                      else f"{q}: {problems[0]}")
    # embedded positive example (expected count on the tree is zero)
    ex = ast.parse("def conv(ret_output=False):\n    printer = print\n    printer('a')\n    print('b')\n").body[0]
    fired = len(_bare_prints(ex)) == 1
    (ctx.holds if fired else ctx.undecided)("C19.1", "embedded-example", "-", "embedded bare-print example is detected" if fired else "embedded example not detected")
    ctx.count("converters", n)


def _coeff_names(fnode):
    """[(component, suffix, arm text)] for every generated coefficient declaration."""
    out = []
    for js in [x for x in pf.walk_no_nested(fnode) if isinstance(x, ast.JoinedStr)]:
        text = "".join(str(p.value) if isinstance(p, ast.Constant) else "{" + txt(p.value) + "}" for p in js.values)
        for line in text.split("\n"):
            comp = "real" if "{self.amp.real}" in line else "imag" if "{self.amp.imag}" in line else None
            if comp is None:
                continue
            m = re.search(r'\{(\w+)\}(_[A-Za-z]+)"', line)
            out.append((comp, m.group(2) if m else None, line.strip()[:50], js, m.group(1) if m else None))
    return out


def c19_2(ctx, ss):
    for cls_ in CH:
        ff, flow = fn(ss, GOOFIT, f"{cls_}.make_amplitude")
        names = _coeff_names(ff.node)
        k = f"{GOOFIT}:{cls_}.make_amplitude :: coefficient-names"
        if len(names) < 2:
            raise AnchorMissing(f"{cls_}.make_amplitude: coefficient declarations not found")
        bad = [(c, s, t, js) for c, s, t, js, b in names if s != {"real": "_r", "imag": "_i"}[c]]
        if bad:
            c, s, t, js = bad[0]
            ctx.violation("C19.2", k, where(ff, js), f"{cls_}: the {c} coefficient is named `…{s}` in `{t}…` (expected {'_r' if c == 'real' else '_i'}): "
                          "real and imaginary coefficient of an amplitude get the same name")
        else:
            ctx.holds("C19.2", k, where(ff, ff.node), f"{cls_}: {len(names)} coefficient declarations, real → _r, imaginary → _i in every arm", len(names))
        # value and error of a coefficient come from the same component
        for c, s_, t, js, b in names:
            line = [ln for ln in "".join(str(p.value) if isinstance(p, ast.Constant) else "{" + txt(p.value) + "}" for p in js.values).split("\n") if f"{{self.amp.{c}}}" in ln]
            other = "imag" if c == "real" else "real"
            if any(f"{{self.err.{other}}}" in ln or f"{{self.amp.{other}}}" in ln for ln in line):
                ctx.violation("C19.2", k + f" :: components:{c}", where(ff, js), f"{cls_}: the {c} coefficient is emitted with the {other} part of the value or error")
        # the name is built from the amplitude's own string in every arm
        bases = {b for c, s, t, js, b in names}
        # (the amplitude's string may be taken into a local first: `label = str(self)`)
        def _is_self_str(nm):
            ds_ = [d for d in flow.defs if d.name == nm and d.kind == "assign" and d.value is not None]
            return len(ds_) == 1 and txt(ds_[0].value) in ("str(self)", "f'{self!s}'", "f'{self}'", "self.__str__()")
        bases = {"self" if (b and b != "self" and _is_self_str(b)) else b for b in bases}
        (ctx.holds if bases == {"self"} else ctx.violation)("C19.2", k + " :: base", where(ff, ff.node),
                                                              "coefficient names start with str(amplitude)" if bases == {"self!s"} else f"coefficient names are built from {sorted(bases)}")
    # fixedness: C++ passes the flag, Python chooses the arm by self.fix
    ff, flow = fn(ss, GOOFIT, "GooFitPyChain.make_amplitude")
    # every coefficient text (whatever statement shape selects it): with the error and limits exactly when the amplitude is free
    from .common import guarded_values
    alts_c = []
    for nm_ in {d.name for d in flow.defs if d.kind == "assign" and d.value is not None and "self.amp." in txt(d.value)}:
        alts_c += guarded_values(ff, flow, [d for d in flow.defs if d.name == nm_ and d.kind == "assign"])
    ok = len(alts_c) == 4
    for conds, v in alts_c:
        fixed = [p_ for t_, p_ in conds if t_ == "self.fix"]
        others = [t_ for t_, p_ in conds if t_ != "self.fix"]
        has_err = "self.err" in txt(v)
        if len(fixed) != 1 or others or has_err == fixed[0]:
            ok = False
    (ctx.holds if ok else ctx.violation)("C19.2", f"{GOOFIT}:GooFitPyChain.make_amplitude :: fixedness", where(ff, ff.node),
                                          "Python: fixed ⇒ value only, free ⇒ value, error and limits — chosen by self.fix for both coefficients" if ok
                                          else "Python: the fixed/free arms are not chosen by self.fix for both coefficients")
    ff, flow = fn(ss, GOOFIT, "GooFitChain.make_amplitude")
    d = [d for d in flow.defs if d.kind == "assign" and d.value is not None and txt(d.value) == "'true' if self.fix else 'false'"]
    names = _coeff_names(ff.node)
    # the flag is the hole right after the coefficient name in both declarations
    flags = set()
    for c, s_, t, js, b in names:
        m = re.search(r'_[ri]", \{(\w+)\}', "".join(str(p.value) if isinstance(p, ast.Constant) else "{" + txt(p.value) + "}" for p in js.values))
        for mm in re.finditer(r'_[ri]", \{(\w+)\}', "".join(str(p.value) if isinstance(p, ast.Constant) else "{" + txt(p.value) + "}" for p in js.values)):
            flags.add(mm.group(1))
    ok = len(d) == 1 and flags == {d[0].name}
    (ctx.holds if ok else ctx.violation)("C19.2", f"{GOOFIT}:GooFitChain.make_amplitude :: fixedness", where(ff, ff.node),
                                          "C++: the fixed flag is 'true' iff self.fix" if ok else "C++: the fixed flag is not 'true' iff self.fix")


def c19_3(ctx, ss):
    for q, cls_ in zip(CONV, CH):
        ff, flow = fn(ss, A2G, q)
        cfg = flow.cfg
        calls = pf.calls_in(ff.node)
        intro = [c for c in calls if txt(c.func) == f"{cls_}.make_intro"]
        pars = [c for c in calls if txt(c.func) == f"{cls_}.make_pars"]
        lines = [c for c in calls if isinstance(c.func, ast.Attribute) and c.func.attr == "to_goofit"]
        read = [c for c in calls if txt(c.func) == f"{cls_}.read_ampgen"]
        k = f"{A2G}:{q} :: order"
        if not (len(intro) == 1 and len(pars) == 1 and len(lines) == 1 and len(read) == 1):
            ctx.violation("C19.3", k, where(ff, ff.node), f"{q}: expected one make_intro, make_pars, to_goofit loop and read_ampgen; found {len(intro)}, {len(pars)}, {len(lines)}, {len(read)}")
            continue
        n = {x: cfg.node_of(stmt_of(ff, c[0])) for x, c in (("read", read), ("intro", intro), ("pars", pars), ("lines", lines))}
        ok = cfg.dominates(n["read"], n["intro"]) and cfg.dominates(n["intro"], n["pars"]) and cfg.dominates(n["pars"], n["lines"]) \
            and not cfg.reachable(n["lines"], n["pars"]) and not cfg.reachable(n["pars"], n["intro"])
        # each goes through printer
        pn = _printer_name(flow)
        via = all(isinstance(stmt_of(ff, c[0]), ast.Expr) and txt(stmt_of(ff, c[0]).value.func) == pn for c in (intro, pars, lines))
        (ctx.holds if ok and via else ctx.violation)("C19.3", k, where(ff, ff.node),
                                                     f"{q}: read → intro (constants, resonance variables) → parameters → amplitudes, each printed" if ok and via
                                                     else f"{q}: declarations are not emitted before the lines that use them (order / printing changed)")
        # arguments
        lp = enclosing(ff, lines[0], (ast.For,))
        def is_states(e):
            if not isinstance(e, ast.Name):
                return False
            ds = flow.defs_of(e)
            return len(ds) == 1 and ds[0].kind == "assign" and ds[0].path == (1,) and ds[0].value is read[0]
        la = lines[0].args[0] if lines[0].args else None
        while isinstance(la, ast.Name):            # the slice may be held in a local (hoisted out of the loop)
            ds_ = flow.defs_of(la)
            if len(ds_) == 1 and ds_[0].kind == "assign" and ds_[0].path == () and ds_[0].value is not None:
                la = ds_[0].value
            else:
                break
        oka = is_states(intro[0].args[0]) and bool(lp) and txt(flow.expand(lp[0].iter)).startswith("enumerate(") \
            and isinstance(la, ast.Subscript) and is_states(la.value) and txt(la.slice) == "1:"
        (ctx.holds if oka else ctx.violation)("C19.3", k + " :: args", where(ff, ff.node),
                                              f"{q}: intro gets all states; every line is emitted for the daughters all_states[1:]" if oka
                                              else f"{q}: make_intro / to_goofit do not receive all_states / all_states[1:]")


def _suffix_uses(fnode, suffixes):
    """constants following a formatted hole, e.g. '{par}_M' -> [('par', '_M')]"""
    out = []
    for js in [x for x in pf.walk_no_nested(fnode) if isinstance(x, ast.JoinedStr)]:
        parts = js.values
        for i, p in enumerate(parts):
            if isinstance(p, ast.FormattedValue) and i + 1 < len(parts) and isinstance(parts[i + 1], ast.Constant):
                m = re.match(r"(_[A-Za-z]+)", str(parts[i + 1].value))
                if m and (m.group(1) in suffixes or any(m.group(1).startswith(s) for s in suffixes)):
                    out.append((txt(p.value), m.group(1)))
    return out


def c19_4(ctx, ss):
    for cls_ in CH:
        ls, lsflow = fn(ss, GOOFIT, f"{cls_}.make_lineshape")
        mi, miflow = fn(ss, GOOFIT, f"{cls_}.make_intro")
        mp, mpflow = fn(ss, GOOFIT, f"{cls_}.make_pars")
        k = f"{GOOFIT}:{cls_} :: symbols"
        # _M / _W : use = {par}_M with par = self.particle.programmatic_name ; declaration = name + "_M" with name = particle.programmatic_name
        uses = _suffix_uses(ls.node, ("_M", "_W"))
        bases = {b for b, _ in uses}
        par_defs = [d for d in lsflow.defs if len(bases) == 1 and d.name == next(iter(bases)) and d.kind == "assign"]
        ok_use = bool(uses) and len(bases) == 1 and all(sfx in ("_M", "_W") for b, sfx in uses) and {sfx for _, sfx in uses} == {"_M", "_W"} and len(par_defs) == 1 and txt(par_defs[0].value) == "self.particle.programmatic_name"
        # declared names: every `<expr> + "_M" / "_W"` interpolated into the emitted text (bare, i.e. not inside quotes built around it)
        decl = set()
        for js in [x for x in pf.walk_no_nested(mi.node) if isinstance(x, ast.JoinedStr)]:
            for fv in [p_ for p_ in js.values if isinstance(p_, ast.FormattedValue)]:
                e_ = miflow.expand(fv.value)
                if isinstance(e_, ast.BinOp) and isinstance(e_.op, ast.Add) and isinstance(e_.right, ast.Constant) and e_.right.value in ("_M", "_W"):
                    decl.add((txt(e_.left), e_.right.value))
                elif isinstance(e_, ast.JoinedStr) and len(e_.values) == 2 and isinstance(e_.values[0], ast.FormattedValue) and e_.values[0].conversion == -1 \
                        and e_.values[0].format_spec is None and isinstance(e_.values[1], ast.Constant) and e_.values[1].value in ("_M", "_W"):
                    decl.add((txt(e_.values[0].value), e_.values[1].value))          # f"{name}_M" == name + "_M"
        decl = sorted(decl)
        ok_decl = sorted(decl) == sorted([("__elem__(cls.all_particles - set(all_states)).programmatic_name", "_M"), ("__elem__(cls.all_particles - set(all_states)).programmatic_name", "_W")])
        (ctx.holds if ok_use and ok_decl else ctx.violation)("C19.4", k + " :: mass-width", where(ls, ls.node),
                                                             f"{cls_}: <particle.programmatic_name>_M / _W declared for every non-final particle seen and used by every line shape" if ok_use and ok_decl
                                                             else f"{cls_}: resonance variables are declared as {decl} but used as {sorted(set(uses))} (par = {txt(par_defs[0].value) if par_defs else None})")
        # every resonance met while reading is recorded (these are the particles the _M / _W variables are declared for)
        fm, fmflow = fn(ss, "modeling/amplitudechain.py", "AmplitudeChain.from_matched_line")
        adds = [n for n in pf.walk_no_nested(fm.node) if isinstance(n, ast.AugAssign) and isinstance(n.target, ast.Attribute) and n.target.attr == "all_particles"]
        # the element added is the particle stored for this line (possibly through a local), guarded at most by "not yet recorded"
        pst = [x for x in pf.iter_stmts(fm.node.body) if isinstance(x, ast.Assign) and txt(x.targets[0]) in ("mat['particle']",)]
        pv_ = fmflow.text(pst[0].value) if len(pst) == 1 else None
        added = fmflow.expand(adds[0].value) if len(adds) == 1 else None
        el_ok = isinstance(added, ast.Set) and len(added.elts) == 1 and txt(added.elts[0]) in ("mat['particle']", pv_)
        gconds = [(fmflow.text(e), pol) for kind, e, pol in guards.path_conditions(fm.node, adds[0]) if kind == "if"] if len(adds) == 1 else None
        oka = len(adds) == 1 and isinstance(adds[0].op, ast.BitOr) and el_ok and \
            gconds in ([], [("mat['particle'] in cls.all_particles", False)], [(f"{pv_} in cls.all_particles", False)])
        if cls_ == CH[0]:
            (ctx.holds if oka else ctx.violation)("C19.4", f"{GOOFIT}:all_particles :: recorded", where(fm, adds[0] if adds else fm.node),
                                                  "every particle of every line is added to all_particles" if oka else "not every particle met while reading is added to all_particles: its _M / _W variables are used but never declared")
        # _SplineArr
        use_s = [d for d in lsflow.defs if d.kind == "assign" and d.value is not None and "_SplineArr" in txt(d.value)]
        ok_us = len(use_s) == 1 and lsflow.text(use_s[0].value) == "programmatic_name(self.name) + '_SplineArr'"
        decl_s = [x for x in pf.walk_no_nested(mp.node) if isinstance(x, ast.BinOp) and "_SplineArr" in txt(x) and "programmatic_name(" in txt(x)]
        ok_ds = any(re.search(r"programmatic_name\((\w+)\) \+ '_SplineArr", txt(x).replace('"', "'")) for x in decl_s)
        (ctx.holds if ok_us and ok_ds else ctx.violation)("C19.4", k + " :: spline", where(ls, ls.node),
                                                          f"{cls_}: programmatic_name(<name>)_SplineArr declared in make_pars and used by GSpline line shapes" if ok_us and ok_ds
                                                          else f"{cls_}: the spline array is declared / used under different names")
        # f_scatt / IS_poles
        ls_text = " ".join(str(p.value) for js in pf.walk_no_nested(ls.node) if isinstance(js, ast.JoinedStr) for p in js.values if isinstance(p, ast.Constant))
        mp_text = " ".join(str(c.value) for c in pf.walk_no_nested(mp.node) if isinstance(c, ast.Constant) and isinstance(c.value, str))
        for sym in ("f_scatt", "IS_poles"):
            used = sym in ls_text
            declared = bool(re.search(rf"\b{sym}\b\s*(=|\{{\{{)", mp_text))
            (ctx.holds if used and declared else ctx.violation)("C19.4", k + f" :: {sym}", where(mp, mp.node),
                                                                f"{cls_}: {sym} is declared by make_pars and used by the kMatrix line shape" if used and declared
                                                                else f"{cls_}: {sym} used={used} declared={declared}")
        # masses of final states: NAME.upper() declared and listed
        up = [x for x in pf.walk_no_nested(mi.node) if isinstance(x, ast.Call) and txt(x.func).endswith("programmatic_name.upper")]
        ok_up = len(up) == 2
        (ctx.holds if ok_up else ctx.violation)("C19.4", k + " :: final-masses", where(mi, mi.node),
                                                f"{cls_}: final-state mass constants are declared and listed under the same NAME.upper()" if ok_up
                                                else f"{cls_}: final-state mass constants are declared / listed under different spellings")



# ---- C19.9: the frame of the generated file -----------------------------------------------------------------------
CODE_MAKERS = ("make_intro", "make_pars", "to_goofit")


def _printer_events(ff, flow):
    """The converter's printer calls in source order: [(call, kind, text, conditional)] with kind in
    'code' (prints what a generator method returns), 'literal' (string constants only), 'info' (anything else)."""
    pn = _printer_name(flow)
    ev = []

    def visit(stmts, conditional):
        for st in stmts:
            if isinstance(st, ast.Expr) and isinstance(st.value, ast.Call) and isinstance(st.value.func, ast.Name) and st.value.func.id == pn:
                c = st.value
                if any(isinstance(x, ast.Call) and isinstance(x.func, ast.Attribute) and x.func.attr in CODE_MAKERS for a in c.args for x in ast.walk(a)):
                    kind, text = "code", ""
                elif all(isinstance(a, ast.Constant) and isinstance(a.value, str) for a in c.args):
                    kind, text = "literal", " ".join(a.value for a in c.args)
                elif c.args and isinstance(c.args[0], ast.Constant) and isinstance(c.args[0].value, str) and c.args[0].value.lstrip().startswith(("//", "#")) \
                        and "\n" not in c.args[0].value:
                    kind, text = "literal", c.args[0].value          # a one-line comment with data appended (`// Line`, n)
                else:
                    kind, text = "info", ""
                ev.append((c, kind, text, conditional))
            elif isinstance(st, (ast.For, ast.While)):
                visit(st.body, True)
            elif isinstance(st, ast.If):
                visit(st.body, True)
                visit(st.orelse, True)
            elif isinstance(st, ast.With):
                visit(st.body, conditional)
            elif isinstance(st, ast.Try):
                visit(st.body, True)
                for h in st.handlers:
                    visit(h.body, True)
    visit(ff.node.body, False)
    return ev


def c19_9(ctx, ss):
    """'The Python output is valid Python', and the same frame for C++: everything that is not code (the report about the
    amplitudes read) is printed inside ONE comment that is opened and closed unconditionally; what is printed outside it is
    generator output, or literal text that is valid in the target language.  And every list the generated program
    accumulates (line factors, spin factors, amplitudes) is both filled and consumed by the generated program."""
    for q, cls_, lang in ((CONV[0], CH[0], "c++"), (CONV[1], CH[1], "python")):
        ff, flow = fn(ss, A2G, q)
        ev = _printer_events(ff, flow)
        k = f"{A2G}:{q} :: frame"
        if lang == "python":
            opens = [i for i, (c, kind, t, cond) in enumerate(ev) if kind == "literal" and t.strip() in ("'''", '"""')]
            o, cl = (opens[0], opens[1]) if len(opens) == 2 else (None, None)
        else:
            o_ = [i for i, (c, kind, t, cond) in enumerate(ev) if kind == "literal" and "/*" in t]
            c_ = [i for i, (c, kind, t, cond) in enumerate(ev) if kind == "literal" and "*/" in t]
            o, cl = (o_[0], c_[0]) if len(o_) == 1 and len(c_) == 1 else (None, None)
        if o is None or not o < cl or ev[o][3] or ev[cl][3]:
            ctx.violation("C19.9", k, where(ff, ff.node), f"{q}: the report about the amplitudes is not enclosed in exactly one unconditionally opened and closed comment: "
                          f"the generated {lang} file does not parse")
            continue
        bad = None
        for i, (c, kind, t, cond) in enumerate(ev):
            inside = o < i < cl
            if kind == "info" and not inside:
                bad = (c, f"`{txt(c)[:70]}` prints data outside the comment")
            elif kind == "code" and inside:
                bad = (c, f"`{txt(c)[:70]}` prints generated code inside the comment")
            elif kind == "literal" and not inside and i not in (o, cl):
                if lang == "python":
                    try:
                        ast.parse(t)
                    except SyntaxError:
                        bad = (c, f"the literal {t[:50]!r} printed outside the comment is not valid Python")
                else:
                    tail = t.split("*/", 1)[1] if "*/" in t else t
                    if any(ln.strip() and not ln.strip().startswith("//") for ln in tail.split("\n")):
                        bad = (c, f"the literal {t[:50]!r} printed outside the comment is neither blank nor a // comment")
            if i == cl and lang == "c++":
                tail = t.split("*/", 1)[1]
                if any(ln.strip() and not ln.strip().startswith("//") for ln in tail.split("\n")):
                    bad = (c, f"text after the closing */ in {t[:50]!r} is neither blank nor a // comment")
            if bad:
                break
        if bad:
            ctx.violation("C19.9", k, where(ff, bad[0]), f"{q}: {bad[1]}")
        else:
            n_in = sum(1 for i in range(len(ev)) if o < i < cl)
            ctx.holds("C19.9", k, where(ff, ev[o][0]), f"{q}: {n_in} report prints inside one comment; {len(ev) - n_in - 2} prints outside it are generator output or valid {lang} text", len(ev))
        # accumulators of the generated program
        mf = pf.module_facts(ss, GOOFIT)
        cf = mf.classes.get(cls_)
        corpus = []
        for node in [m.node for m in (cf.methods.values() if cf else [])] + [ff.node]:
            corpus += [c.value for c in ast.walk(node) if isinstance(c, ast.Constant) and isinstance(c.value, str)]
        text = "\n".join(corpus)
        decl = re.findall(r"^\s*(\w+) = \[\]\s*$", text, re.M) if lang == "python" else re.findall(r"std::vector<[^;\n]*>\s+(\w+);", text)
        ka = f"{A2G}:{q} :: accumulators"
        if len(decl) < 3:
            ctx.violation("C19.9", ka, where(ff, ff.node), f"{q}: the generated program declares the accumulators {decl}; expected line factors, spin factors and amplitudes")
            continue
        missing = []
        for nm in decl:
            occ = [m.end() for m in re.finditer(rf"\b{nm}\b", text)]
            fills = [e for e in occ if re.match(r"\.(append|push_back)\(", text[e:e + 12])]
            uses = [e for e in occ if not re.match(r"\.(append|push_back)\(|\s*=\s*\[\]|;", text[e:e + 12])]
            if not fills:
                missing.append(f"{nm} is never filled")
            if not uses:
                missing.append(f"{nm} is filled but never handed on (e.g. to DK3P_DI.amplitudes)")
        if missing:
            ctx.violation("C19.9", ka, where(ff, ff.node), f"{q}: {missing[0]}")
        else:
            ctx.holds("C19.9", ka, where(ff, ff.node), f"{q}: the accumulators {decl} are each filled and consumed by the generated program", len(decl))


REN = {"GooFitPyChain": "<CLS>", "GooFitChain": "<CLS>", "ampgen2goofitpy": "<CONV>", "ampgen2goofit": "<CONV>"}


def c19_5(ctx, ss):
    # converters
    a, _ = fn(ss, A2G, CONV[0])
    b, _ = fn(ss, A2G, CONV[1])
    sa, sb = sibling.skeleton(a.node, REN, skip_literal=True), sibling.skeleton(b.node, REN, skip_literal=True)
    ha, hb = sibling.holes(a.node, REN), sibling.holes(b.node, REN)
    k = f"{A2G}:converters :: siblings"
    dif = sibling.diff(sa, sb)
    dh = sibling.diff(ha, hb)
    layout_only = False
    if dif or dh:
        # layout-only difference of one converter?  compare what the two emit (see c18_5)
        from ..core.defuse import flow_of
        ea, eb = sibling.emission_skeleton(a.node, flow_of(ss, a), REN), sibling.emission_skeleton(b.node, flow_of(ss, b), REN)
        if not sibling.diff(ea, eb):
            dif, dh = [], []
            ha = ea
            layout_only = True
    dl = [] if (dif or dh or layout_only) else sibling.logic_diff(a.node, b.node, REN)
    if dl:
        ctx.violation("C19.5", k, where(b, b.node), f"the two converters compute different things outside the printed text: C++ `{dl[0][0][:80]}` vs Python `{dl[0][1][:80]}`")
    elif not dif and not dh:
        ctx.holds("C19.5", k, where(b, b.node), f"the two converters have the same control skeleton (up to literal-only print lines) and the same {len(ha)} data holes", len(sa) + len(ha))
    else:
        d = (dif or dh)[0]
        ctx.violation("C19.5", k, where(b, b.node), f"the two converters diverge: C++ `{str(d[0])[:80]}` vs Python `{str(d[1])[:80]}`")
    from .c18 import c18_5
    c18_5(ctx, ss, rule="C19.5", methods=["make_intro", "make_pars", "read_ampgen", "make_lineshape", "make_spinfactor", "make_linefactor", "to_goofit"])
    # a generator helper that exists in one language only (e.g. a cached lookup) makes the two outputs diverge over time
    mfg = pf.module_facts(ss, GOOFIT)
    a_, b_ = mfg.classes.get(CH[0]), mfg.classes.get(CH[1])
    if a_ is not None and b_ is not None:
        only = sorted(set(a_.methods) ^ set(b_.methods))
        # a private helper of one generator that the normal form has written out at its call sites is layout, not behaviour
        tree_g = ss.tree(GOOFIT)
        def _referenced(nm):
            return any((isinstance(x, ast.Attribute) and x.attr == nm) or (isinstance(x, ast.Name) and x.id == nm and isinstance(x.ctx, ast.Load)) for x in ast.walk(tree_g))
        only = [m_ for m_ in only if not (m_.startswith("_") and not m_.startswith("__") and not _referenced(m_))]
        cached = [m for c_ in (a_, b_) for n_, m in c_.methods.items() if set(m.decorators) & {"lru_cache", "cache", "cached_property"}]
        if only:
            m0 = (a_.methods.get(only[0]) or b_.methods.get(only[0]))
            ctx.violation("C19.5", f"{GOOFIT}:generators :: same-methods", where(m0, m0.node), f"method(s) {only} exist in only one of the two generators")
        elif cached:
            ctx.violation("C19.5", f"{GOOFIT}:generators :: no-cache", where(cached[0], cached[0].node),
                          f"{cached[0].qualname} is cached across conversions: its result can belong to a file converted earlier")
        else:
            ctx.holds("C19.5", f"{GOOFIT}:generators :: same-methods", f"src/decaylanguage/{GOOFIT}", f"both generators define the same {len(a_.methods)} methods, none cached", len(a_.methods))
    # make_amplitude: different syntax, same data (amplitude string, real/imag value and error, count)
    mf = pf.module_facts(ss, GOOFIT)
    need = {"{self!s}", "{self.amp.real:.6}", "{self.amp.imag:.6}", "{self.err.real:.6}", "{self.err.imag:.6}", "{n}"}
    for cls_ in CH:
        m = mf.classes[cls_].methods["make_amplitude"]
        hs = set(sibling.holes(m.node, REN))
        from ..core.defuse import flow_of
        mfl = flow_of(ss, m)
        cnt = [d.name for d in mfl.defs if d.kind == "assign" and d.value is not None and txt(d.value) == "len(self.list_structure(final_states))"]
        hs |= {"{n}"} if cnt and ("{" + cnt[0] + "}") in hs else set()
        for d_ in mfl.defs:
            if d_.kind == "assign" and d_.value is not None and txt(d_.value) in ("str(self)", "f'{self!s}'", "f'{self}'") and ("{" + d_.name + "}") in hs:
                hs.add("{self!s}")          # the amplitude's string taken into a local first
        miss = sorted(need - hs)
        (ctx.holds if not miss else ctx.violation)("C19.5", f"{GOOFIT}:{cls_}.make_amplitude :: data", where(m, m.node),
                                                    f"{cls_}.make_amplitude emits amplitude name, both values with errors (6 digits) and the permutation count" if not miss
                                                    else f"{cls_}.make_amplitude no longer emits {miss}")


def c19_6(ctx, ss):
    """Calls of functions imported from the installed `particle` package vs. their current signature."""
    n = 0
    for m in pf.all_modules(ss):
        mf = pf.module_facts(ss, m)
        for local, (mod, attr) in mf.imports.items():
            if not mod.startswith("particle") or attr is None:
                continue
            path = site_packages_file(mod.replace(".", "/") + ".py") or site_packages_file(mod.replace(".", "/") + "/__init__.py")
            if path is None:
                continue
            try:
                with open(path, encoding="utf-8") as f:
                    tree = ast.parse(f.read())
            except Exception:
                continue
            defs = [x for x in tree.body if isinstance(x, ast.FunctionDef) and x.name == attr]
            if not defs:
                continue     # a class, a constant or a re-export: not a plain function
            d = defs[0]
            a = d.args
            pos = [x.arg for x in a.posonlyargs + a.args]
            n_req = len(pos) - len(a.defaults)
            for q, ff in mf.funcs.items():
                if ff.parent_func is not None:
                    continue       # nested helpers and lambdas are scanned with their enclosing function
                occ: dict = {}
                for c in sorted(pf.calls_in(ff.node, nested=True), key=lambda c: (c.lineno, c.col_offset)):
                    if isinstance(c.func, ast.Name) and c.func.id == local:
                        n += 1
                        occ[local] = occ.get(local, 0) + 1
                        given = len(c.args) + len([kw for kw in c.keywords if kw.arg in pos])
                        star = any(isinstance(x, ast.Starred) for x in c.args) or any(kw.arg is None for kw in c.keywords)
                        k = f"{m}:{q} :: {local}() call #{occ[local]}"
                        if star:
                            continue
                        if given < n_req or (len(c.args) > len(pos) and a.vararg is None):
                            ctx.violation("C19.6", k, where(ff, c),
                                          f"`{txt(c)[:60]}` passes {given} argument(s) but the installed {mod}.{attr}({', '.join(pos)}) requires {n_req}: TypeError on every "
                                          "conversion that reaches this call")
                        else:
                            ctx.holds("C19.6", k, where(ff, c), f"`{txt(c)[:50]}` binds against {mod}.{attr}({', '.join(pos)})", 1)
    ctx.count("third_party_call_sites", n)
    ctx.floor("C19.6", "calls of imported particle-package functions", n, 4)      # (8 on the pinned tree; de-duplicating the two identical closures legitimately lowers it)


def c19_7(ctx, ss):
    mf = pf.module_facts(ss, MAIN)
    cf = mf.classes.get("DecayLanguageDecay")
    if cf is None:
        raise AnchorMissing("class DecayLanguageDecay not found")
    sw = cf.class_attrs.get("generator")
    names = []
    for c in ast.walk(sw) if sw is not None else []:
        if isinstance(c, ast.Call) and txt(c.func) == "cli.Set":
            names = [a.value for a in c.args if isinstance(a, ast.Constant)]
    main = cf.methods.get("main")
    if not names or main is None:
        raise AnchorMissing("__main__: generator switch / main not found")
    tests = {}
    for n in pf.walk_no_nested(main.node):
        if isinstance(n, ast.If) and isinstance(n.test, ast.Compare) and txt(n.test.left) == "self.generator" and isinstance(n.test.comparators[0], ast.Constant):
            calls = [txt(c.func) for c in pf.calls_in(ast.Module(body=n.body, type_ignores=[]))]
            tests[n.test.comparators[0].value] = calls
    want = {"goofit": "ampgen2goofit", "goofitpy": "ampgen2goofitpy"}
    for g in names:
        k = f"{MAIN}:generator:{g}"
        if g in tests and want.get(g) in tests[g]:
            ctx.holds("C19.7", k, where(main, main.node), f"-G {g} runs {want[g]}(filename)", 1)
        elif g in tests:
            ctx.violation("C19.7", k, where(main, main.node), f"-G {g} runs {tests[g]}, expected {want.get(g)}")
        else:
            ctx.violation("C19.7", k, where(main, main.node), f"the command-line switch accepts -G {g} but main() has no branch for it: nothing is generated")
    ctx.floor("C19.7", "generator kinds", len(names), 2)
    # the command line discards the converter's return value, so the converter must print: effective ret_output is False
    for st in pf.iter_stmts(main.node.body):
        if isinstance(st, ast.Expr) and isinstance(st.value, ast.Call) and txt(st.value.func) in want.values():
            c = st.value
            conv, _ = fn(ss, A2G, txt(c.func))
            a = conv.node.args
            names_ = [x.arg for x in a.args]
            eff = None
            if "ret_output" in names_:
                i = names_.index("ret_output")
                di = i - (len(names_) - len(a.defaults))
                eff = a.defaults[di] if di >= 0 else None
                if len(c.args) > i:
                    eff = c.args[i]
                for kw in c.keywords:
                    if kw.arg == "ret_output":
                        eff = kw.value
            okp = isinstance(eff, ast.Constant) and eff.value is False
            (ctx.holds if okp else ctx.violation)("C19.7", f"{MAIN}:{txt(c.func)} :: prints", where(main, st),
                                                  f"{txt(c.func)} is run in printing mode from the command line" if okp
                                                  else f"the command line discards the result of {txt(c.func)}(…) but the effective ret_output is `{txt(eff) if eff is not None else '?'}`: nothing is printed")
