"""C20 — conversion output depends only on the input file (DESIGN.md §4 C20)."""
from __future__ import annotations

import ast

from ..core import guards
from ..core import pyfacts as pf
from ..core.callgraph import callgraph
from ..core.effects import effects
from ..core.match import txt
from ..core.source import AnchorMissing
from .common import A2G, ACHAIN, GOOFIT, ckey, enclosing, fn, stmt_of, where

PROP = "C20"
FILES = [ACHAIN, GOOFIT, A2G, "modeling/decay.py", "modeling/ampgentransform.py"]
EXPLANATION = (
    "C20.1 enumeration (effect analysis over modeling/) of class- and module-level state that is written on the read path "
    "and read on a read or output path; C20.2 for each such piece of state the common reader entry read_ampgen assigns it, on "
    "every normal path, before the first statement that can read or add to it; C20.3 the reset rebinds (or clears) through "
    "`cls`, so a subclass attribute created by an earlier in-place `|=` cannot keep the old object; pars/consts are assigned "
    "unconditionally by each converter's read_ampgen and read back through the same class; C20.4 the one-time special-"
    "particle table load is guarded by a membership test; C20.5 no other module-level mutable state is written in modeling/.")
NOT_DECIDED = ["hash-seed independence beyond what the property tolerates (iteration over sets in make_intro / make_pars is explicitly allowed): not applicable",
               "byte-equality of outputs across fresh processes (needs execution)"]
R = "AmplitudeChain.read_ampgen"


def run(ctx, ss):
    for r, f in (("C20.1", c20_1), ("C20.3", c20_3), ("C20.4", c20_4), ("C20.5", c20_5)):
        ctx.guard(r, f, ss)
    # C20.6: nothing on the way from the observed entry points is memoised on a parser / tree / path / container (shared.py)
    from .shared import memo_for
    ctx.guard("C20.6", memo_for, ss, "C20", "C20.6", "a conversion")
    ctx.guard("C20.7", c20_7, ss)


def _class_state_writes(ss):
    """(class attr) -> list of (func, node, how) for writes to class-level state in modeling/."""
    ef = effects(ss)
    out = {}
    for k, ff in ef.cg.funcs.items():
        if not ff.module.startswith("modeling/"):
            continue
        for w in ef.local[k]:
            r = w.root
            if r and r[0] == "state":
                name = None
                t = r[1]
                for pre in ("cls.", "self.__class__.", "GooFitChain.", "GooFitPyChain.", "AmplitudeChain."):
                    if t.startswith(pre):
                        name = t[len(pre):]
                if t.startswith("global "):
                    # store ClassName.attr = ...
                    how = w.how
                    if how.startswith("store ") and "." in how:
                        name = how[6:].split(".", 1)[1].split("[")[0]
                if t == "self.__class__" and w.how.startswith("store self.__class__."):
                    name = w.how[len("store self.__class__."):]
                if name is None and t in ("self.__class__", "cls", "type(self)"):
                    # the class attribute reached through a local alias (`cache = self.__class__.cache; cache[k] = v`):
                    # read the attribute from the expanded receiver
                    from ..core.defuse import flow_of
                    et = txt(flow_of(ss, ff).expand(w.receiver))
                    for pre in ("self.__class__.", "cls.", "type(self)."):
                        if et.startswith(pre):
                            name = et[len(pre):].split("[")[0].split(".")[0]
                if name and not t.startswith("self._") and not t.startswith("self.") or (name and t.startswith("self.__class__")):
                    out.setdefault(name.split(".")[0], []).append((ff, w))
    return out


def _reads(ss, attr):
    out = []
    for m in pf.all_modules(ss):
        if not m.startswith("modeling/"):
            continue
        mf = pf.module_facts(ss, m)
        for q, ff in mf.funcs.items():
            for a in pf.walk_no_nested(ff.node):
                if isinstance(a, ast.Attribute) and a.attr == attr and isinstance(a.ctx, ast.Load) and \
                        txt(a.value) in ("cls", "self.__class__", "GooFitChain", "GooFitPyChain", "AmplitudeChain", "self"):
                    out.append((ff, a))
    return out


READ_PATH = ("AmplitudeChain.from_matched_line", "AmplitudeChain.expand_lines", "AmplitudeChain.read_ampgen")


def c20_1(ctx, ss, rid=lambda r: r):
    """rid maps the rule ids used here to the caller's (C19.8 runs the same clauses: the resonance variables that
    both generators declare are those of cls.all_particles, which must be this input's only)."""
    writes = _class_state_writes(ss)
    ctx.count("class_state_attrs", len(writes))
    ff, flow = fn(ss, ACHAIN, R)
    cfg = flow.cfg
    cg = callgraph(ss)
    # first statements of read_ampgen that reach a reader/writer of the state
    calls = {}
    for c in pf.calls_in(ff.node):
        t = txt(c.func)
        if t in ("cls.from_matched_line",) or t.endswith(".expand_lines"):
            calls[t] = stmt_of(ff, c)
    if "cls.from_matched_line" not in calls:
        raise AnchorMissing("read_ampgen: call of cls.from_matched_line not found")
    tracked = {"all_particles": "set", "final_particles": "set", "cartesian": "flag"}
    # any further class-level attribute written while reading (a cache, a registry) is held to the same discipline
    for attr_, ws_ in writes.items():
        if attr_ not in tracked and attr_ not in ("pars", "consts") and any(w[0].qualname in READ_PATH for w in ws_):
            tracked[attr_] = "any"
    for attr, kind in tracked.items():
        ws = writes.get(attr, [])
        rs = _reads(ss, attr)
        written_on_read_path = [w for w in ws if w[0].qualname in READ_PATH]
        k = f"{ACHAIN}:{R} :: reset-class-state" if attr != "final_particles" else f"{ACHAIN}:{R} :: reset-class-state:final_particles"
        if not written_on_read_path:
            ctx.holds(rid("C20.1"), f"{ACHAIN}:AmplitudeChain.{attr} :: tracked", f"src/decaylanguage/{ACHAIN}", f"{attr}: no longer written on the read path", 1)
            continue
        readers = sorted({f.qualname for f, _ in rs if f.qualname != R})
        ctx.holds(rid("C20.1"), f"{ACHAIN}:AmplitudeChain.{attr} :: tracked", f"src/decaylanguage/{ACHAIN}",
                  f"{attr}: written by {sorted({w[0].qualname for w in ws})}, read by {readers[:5]}", len(ws) + len(rs))
        if attr == "final_particles" and not readers:
            ctx.notes.append("final_particles is written but never read (information only)")
        # C20.2: reset in read_ampgen on every path, before the first use
        resets = []
        for st in pf.iter_stmts(ff.node.body):
            if isinstance(st, ast.Assign) and any(isinstance(t, ast.Attribute) and t.attr == attr and txt(t.value) in ("cls", "AmplitudeChain") for t in st.targets):
                v = st.value
                fresh = (kind == "set" and txt(v) in ("set()", "frozenset()")) or (kind == "flag" and isinstance(v, ast.Constant) and v.value is False) \
                    or (kind == "any" and (txt(v) in ("set()", "dict()", "list()", "{}", "[]") or isinstance(v, ast.Constant)))
                if fresh and not [c for c in guards.path_conditions(ff.node, st) if c[0] in ("if", "exc", "loop")]:
                    resets.append(st)
            if isinstance(st, ast.Expr) and isinstance(st.value, ast.Call) and txt(st.value.func) in (f"cls.{attr}.clear",) and kind == "set":
                if not [c for c in guards.path_conditions(ff.node, st) if c[0] in ("if", "exc", "loop")]:
                    resets.append(st)
        first_use = cfg.node_of(calls["cls.from_matched_line"])
        ok = False
        for st in resets:
            n = cfg.node_of(st)
            if cfg.dominates(n, first_use) and cfg.must_pass({n}):
                ok = True
        if ok:
            ctx.holds(rid("C20.2"), k, where(ff, resets[0]), f"{attr} is re-initialised at the start of every read, before any line is built", 2)
        else:
            extra = ""
            if attr == "cartesian":
                extra = " (the switch is only written when the option is present, so a file without it inherits the previous file's convention)"
            ctx.violation(rid("C20.2"), k, where(ff, ff.node),
                          f"class-level `{attr}` is written while reading and read afterwards, but read_ampgen never re-initialises it before use: "
                          f"what an earlier read (by any reader class) left there leaks into this one{extra}")
        # C20.3: rebind through cls
        for st in resets:
            tg = [t for t in getattr(st, "targets", []) if isinstance(t, ast.Attribute)]
            if isinstance(st, ast.Expr):
                # `.clear()` empties the object in place: a subclass that has not bound its own set yet clears the BASE class's set, and
                # the in-place `cls.x |= {…}` that follows binds that same object on the subclass -- all reader classes end up sharing one set
                ctx.violation(rid("C20.3"), k + " :: via-cls", where(ff, st),
                              f"`{txt(st)}` empties the inherited `{attr}` in place instead of binding a fresh one through cls: every reader class keeps adding to "
                              "the same shared set, so what one class read shows up in another class's tables")
            elif tg and txt(tg[0].value) != "cls":
                ctx.violation(rid("C20.3"), k + " :: via-cls", where(ff, st),
                              f"`{txt(st)}` resets the attribute on the base class only: a reader subclass that already got its own `{attr}` (through `cls.{attr} = …` / `cls.{attr} |= …` in an earlier read) keeps the old value")
            elif tg:
                ctx.holds(rid("C20.3"), k + " :: via-cls", where(ff, st), f"`{txt(st)}` rebinds through cls", 1)
    # the additions go through cls / the instance's class as well
    fm, fmflow = fn(ss, ACHAIN, "AmplitudeChain.from_matched_line")
    adds = [n for n in pf.walk_no_nested(fm.node) if isinstance(n, ast.AugAssign) and isinstance(n.target, ast.Attribute) and n.target.attr == "all_particles"]
    ok = bool(adds) and all(txt(a.target.value) == "cls" for a in adds)
    (ctx.holds if ok else ctx.violation)(rid("C20.3"), ckey(fm, None, "adds-via-cls"), where(fm, adds[0] if adds else fm.node),
                                          "particles are added to cls.all_particles (the set the reset installed)" if ok else "particles are not added through cls.all_particles")


def c20_3(ctx, ss):
    """pars / consts of the two converters: assigned unconditionally per read and read back through the same class."""
    mf = pf.module_facts(ss, GOOFIT)
    for cname in ("GooFitChain", "GooFitPyChain"):
        cf = mf.classes.get(cname)
        if cf is None:
            raise AnchorMissing(f"class {cname} not found")
        ra = cf.methods.get("read_ampgen")
        if ra is None:
            raise AnchorMissing(f"{cname}.read_ampgen not found")
        from ..core.defuse import flow_of
        fl = flow_of(ss, ra)
        k = ckey(ra, None, "pars-consts")
        ok = False
        got = {}          # attribute -> index of the read's result it is assigned from (on every path)
        for st in pf.iter_stmts(ra.node.body):
            if not isinstance(st, ast.Assign) or not fl.cfg.must_pass({fl.cfg.node_of(st)}):
                continue
            if isinstance(st.targets[0], ast.Tuple) and txt(st.value).startswith("super().read_ampgen("):
                # positions: (lines, pars, consts, states)
                for i_, e in enumerate(st.targets[0].elts):
                    if txt(e) in (f"{cname}.pars", f"{cname}.consts", "cls.pars", "cls.consts"):
                        got[e.attr] = (i_, txt(e.value))
            elif isinstance(st.targets[0], ast.Attribute) and txt(st.targets[0]) in (f"{cname}.pars", f"{cname}.consts", "cls.pars", "cls.consts"):
                v = fl.expand(st.value)        # a local unpacked from the read: super().read_ampgen(…)[i]
                if isinstance(v, ast.Subscript) and txt(v.value).startswith("super().read_ampgen(") and isinstance(v.slice, ast.Constant):
                    got[st.targets[0].attr] = (v.slice.value, txt(st.targets[0].value))
        ok = got.get("pars", (None,))[0] == 1 and got.get("consts", (None,))[0] == 2 and got["pars"][1] == got["consts"][1]
        (ctx.holds if ok else ctx.violation)("C20.3", k, where(ra, ra.node),
                                              f"{cname}.read_ampgen assigns its own pars and consts from every read (2nd and 3rd result)" if ok
                                              else f"{cname}.read_ampgen does not unconditionally assign {cname}.pars / {cname}.consts from the read")
        # reads go through the same class
        other = "GooFitPyChain" if cname == "GooFitChain" else "GooFitChain"
        bad = []
        n = 0
        for mname, m in cf.methods.items():
            for a in pf.walk_no_nested(m.node):
                if isinstance(a, ast.Attribute) and a.attr in ("pars", "consts", "all_particles") and isinstance(a.value, ast.Name):
                    n += 1
                    if a.value.id == other:
                        bad.append((m, a))
        for m, a in bad:
            ctx.violation("C20.3", ckey(m, None, f"sibling-state:{a.attr}"), where(m, a), f"{cname}.{m.node.name} reads {other}.{a.attr}: the tables of the OTHER converter's last read")
        if not bad:
            ctx.holds("C20.3", f"{GOOFIT}:{cname} :: own-state", f"src/decaylanguage/{GOOFIT}:{cf.node.lineno}", f"{cname} reads only its own pars / consts / particles ({n} sites)", n + 1)
    # the converters read the class they converted with
    for q, cls_ in (("ampgen2goofit", "GooFitChain"), ("ampgen2goofitpy", "GooFitPyChain")):
        ff, flow = fn(ss, A2G, q)
        other = "GooFitPyChain" if cls_ == "GooFitChain" else "GooFitChain"
        uses = [a for a in pf.walk_no_nested(ff.node) if isinstance(a, ast.Name) and a.id == other]
        (ctx.violation if uses else ctx.holds)("C20.3", ckey(ff, None, "own-class"), where(ff, uses[0] if uses else ff.node),
                                                f"{q} uses {other} (state of another converter)" if uses else f"{q} works with {cls_} only", 1)


def c20_4(ctx, ss):
    ff, flow = fn(ss, ACHAIN, "AmplitudeChain.from_matched_line")
    loads = [c for c in pf.calls_in(ff.node) if isinstance(c.func, ast.Attribute) and c.func.attr == "load_table"]
    k = ckey(ff, None, "special-particles")
    if not loads:
        ctx.holds("C20.4", k, where(ff, ff.node), "no particle table is loaded while reading", 1)
        return
    for c in loads:
        conds = [(e, pol) for kind, e, pol in guards.path_conditions(ff.node, stmt_of(ff, c)) if kind == "if"]
        ok = any(isinstance(e, ast.Compare) and len(e.ops) == 1 and ((isinstance(e.ops[0], ast.NotIn) and pol) or (isinstance(e.ops[0], ast.In) and not pol)) for e, pol in conds)
        app = any(kw.arg == "append" and isinstance(kw.value, ast.Constant) and kw.value.value is True for kw in c.keywords)
        (ctx.holds if ok and app else ctx.violation)("C20.4", k, where(ff, c),
                                                     "the special-particle table is appended once, guarded by a membership test" if ok and app
                                                     else "the special-particle table is (re)loaded on every line / replaces the table: later reads see a different particle table than the first")


def c20_5(ctx, ss):
    ef = effects(ss)
    n = 0
    allowed_attrs = {"all_particles", "final_particles", "cartesian", "pars", "consts"}
    # attributes written on the read path are judged by C20.1/C20.2 (must be re-initialised through cls at every read)
    allowed_attrs |= {a for a, ws_ in _class_state_writes(ss).items() if any(w[0].qualname in READ_PATH for w in ws_)}
    from .shared import ENTRIES
    reach = ef.cg.reach([e for e in ENTRIES["C20"] + ENTRIES["C17"] if e in ef.cg.funcs])      # helpers in other modules (utils/) that a read runs
    for k, ff in ef.cg.funcs.items():
        if not (ff.module.startswith("modeling/") or k in reach):
            continue
        for w in ef.local[k]:
            n += 1
            r = w.root
            if r and r[0] == "state" and r[1].startswith("global "):
                how = w.how
                attr = how[6:].split(".", 1)[1].split("[")[0] if how.startswith("store ") and "." in how else None
                if attr in allowed_attrs and r[1][7:] in ("GooFitChain", "GooFitPyChain", "AmplitudeChain"):
                    continue
                ctx.violation("C20.5", ckey(ff, None, f"module-state:{how[:40]}"), where(ff, w.node),
                              f"{ff.qualname} writes module-level state ({how} on {r[1]}): results depend on earlier calls")
            elif r and r[0] == "state" and (r[1].startswith("cls.") or r[1].startswith("self.__class__.") or r[1].startswith("type(self).")):
                attr = r[1].split(".")[-1] if not r[1].startswith("self.__class__.") else r[1][len("self.__class__."):].split(".")[0]
                attr = r[1].split(".", 1)[1].split(".")[0] if r[1].startswith("cls.") else attr
                if attr in allowed_attrs:
                    continue
                ctx.violation("C20.5", ckey(ff, None, f"class-state:{attr}"), where(ff, w.node),
                              f"{ff.qualname} writes class-level state `{r[1]}` ({w.how}) that no read re-initialises: it is shared by every reader class and "
                              "survives from one read to the next, so results depend on what was read or converted earlier")
        for g in [x for x in pf.walk_no_nested(ff.node) if isinstance(x, ast.Global)]:
            ctx.violation("C20.5", ckey(ff, None, "global-stmt"), where(ff, g), f"{ff.qualname} declares `global {', '.join(g.names)}`")
    ctx.count("write_sites", n)
    ctx.holds("C20.5", "modeling :: no-other-module-state", "src/decaylanguage/modeling", f"{n} write sites in modeling/ inspected; only the five tracked class attributes are process-wide", n)
    # a mutable default argument lives as long as the process: it is state kept between calls
    for k, ff in ef.cg.funcs.items():
        if not ff.module.startswith("modeling/"):
            continue
        a_ = ff.node.args
        for d_ in list(a_.defaults) + [x for x in a_.kw_defaults if x is not None]:
            if isinstance(d_, (ast.Dict, ast.List, ast.Set, ast.ListComp, ast.DictComp, ast.SetComp)) or \
                    (isinstance(d_, ast.Call) and txt(d_.func) in ("dict", "list", "set", "defaultdict", "collections.defaultdict", "OrderedDict")):
                names_ = [x.arg for x in a_.args][len(a_.args) - len(a_.defaults):] + [x.arg for x, dv in zip(a_.kwonlyargs, a_.kw_defaults) if dv is not None]
                allds = list(a_.defaults) + [x for x in a_.kw_defaults if x is not None]
                pname = names_[allds.index(d_)] if d_ in allds and allds.index(d_) < len(names_) else None
                if pname is not None and pname in ef.sum[k].mutated_params:
                    ctx.violation("C20.5", ckey(ff, None, "mutable-default"), where(ff, d_),
                                  f"{ff.qualname} writes into its mutable default `{pname}={txt(d_)}`: the object is shared by all calls of the process, "
                                  "so what a read returns depends on what was read or converted earlier")
                else:
                    ctx.holds("C20.5", ckey(ff, None, f"mutable-default:{pname}"), where(ff, d_), f"{ff.qualname}: the default `{txt(d_)}` is never written", 1)
    # no cache decorators on reader / generator functions
    for k, ff in ef.cg.funcs.items():
        if ff.module.startswith("modeling/") and set(ff.decorators) & {"lru_cache", "cache", "cached_property"}:
            ctx.violation("C20.5", ckey(ff, None, "cached"), where(ff, ff.node), f"{ff.qualname} is cached across calls")


def c20_7(ctx, ss):
    """The particle table of the process is extended (and K(1460) overridden) by the shipped special-particle table the first
    time a line is read.  What a name resolves to must not depend on whether that has happened already: the 'load if absent'
    step comes before the first name lookup on every path through from_matched_line."""
    ff, flow = fn(ss, ACHAIN, "AmplitudeChain.from_matched_line")
    loads = [c for c in pf.calls_in(ff.node) if txt(c.func).endswith("load_table")]
    looks = [c for c in pf.calls_in(ff.node) if txt(c.func) == "particle_from_string_name"]
    k = ckey(ff, None, "table-before-lookup")
    if not loads:
        ctx.violation("C20.7", k, where(ff, ff.node), "the special-particle table is no longer loaded on the read path: names defined only there cannot be read")
        return
    if not looks:
        raise AnchorMissing("from_matched_line: particle_from_string_name call not found")
    # the statement that decides about loading: the outermost `if` around the load (or the load statement itself)
    st_l = stmt_of(ff, loads[0])
    outer = [x for x in enclosing(ff, loads[0], (ast.If,))]
    top = outer[-1] if outer else st_l
    ok = all(flow.cfg.dominates(flow.cfg.node_of(top), flow.cfg.node_of(stmt_of(ff, c))) for c in looks)
    # ... and that decision depends on the table only (not on the line being read)
    conds = [txt(flow.expand(e)) for kind, e, pol in guards.path_conditions(ff.node, st_l) if kind == "if"]
    line_dep = [c for c in conds if ff.params[1] in {n.id for n in ast.walk(ast.parse(c, mode="eval")) if isinstance(n, ast.Name)}] if len(ff.params) > 1 else []
    if ok and not line_dep:
        ctx.holds("C20.7", k, where(ff, loads[0]), "the special-particle table is loaded, if absent, before any name of the line is looked up", len(looks) + 1)
    elif not ok:
        ctx.violation("C20.7", k, where(ff, loads[0]), "a name can be looked up before the special-particle table is loaded: the first line read in a process resolves names "
                      "(K(1460), the Mint-only objects) differently from every later one")
    else:
        ctx.violation("C20.7", k, where(ff, loads[0]), f"whether the special-particle table is loaded depends on the line being read ({line_dep[0][:60]}): results depend on what was read before")
