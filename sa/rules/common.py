"""Helpers shared by the rule modules."""
from __future__ import annotations

import ast

from ..core import pyfacts as pf
from ..core.defuse import Flow, flow_of
from ..core.match import txt
from ..core.source import AnchorMissing, SourceSet

DEC = "dec/dec.py"
DECAY = "decay/decay.py"
UTIL = "utils/utilities.py"
PUTIL = "utils/particleutils.py"
VIEWER = "decay/viewer.py"
ACHAIN = "modeling/amplitudechain.py"
ATRANS = "modeling/ampgentransform.py"
MDECAY = "modeling/decay.py"
GOOFIT = "modeling/goofit.py"
A2G = "modeling/ampgen2goofit.py"
MAIN = "__main__.py"
DECGRAMMAR = "data/decfile.lark"
AMPGRAMMAR = "data/ampgen.lark"
ENUMS = "dec/enums.py"


def fn(ss: SourceSet, short: str, qual: str):
    ff = pf.func(ss, short, qual)
    return ff, flow_of(ss, ff)


def where(ff, node) -> str:
    return pf.loc(ff, node)


def ckey(ff, node=None, extra: str = "") -> str:
    """Construct key: qualified function + normalised statement text."""
    k = ff.key if ff is not None else ""
    if node is not None:
        k += " :: " + pf.norm(node)[:160]
    if extra:
        k += " :: " + extra
    return k


def method_calls(ff, names: tuple[str, ...], receivers: tuple[str, ...] = ("self", "cls")):
    """Calls `self.<name>(...)` / `cls.<name>(...)` (any of names) inside the function, nested defs included."""
    out = []
    for c in pf.calls_in(ff.node):
        f = c.func
        if isinstance(f, ast.Attribute) and f.attr in names and isinstance(f.value, ast.Name) and f.value.id in receivers:
            out.append(c)
    return out


def attr_calls(node: ast.AST, attr: str):
    """All calls whose callee is `<anything>.<attr>`."""
    return [c for c in pf.calls_in(node) if isinstance(c.func, ast.Attribute) and c.func.attr == attr]


def name_calls(node: ast.AST, name: str):
    return [c for c in pf.calls_in(node) if isinstance(c.func, ast.Name) and c.func.id == name]


def stmt_of(ff, node: ast.AST) -> ast.stmt:
    pm = pf.parent_map(ff.node)
    x = node
    while not isinstance(x, ast.stmt):
        if id(x) not in pm:
            raise AnchorMissing("expression without enclosing statement")
        x = pm[id(x)]
    return x


def enclosing(ff, node: ast.AST, kinds) -> list[ast.AST]:
    """Enclosing nodes of the given AST kinds, innermost first (within the function)."""
    pm = pf.parent_map(ff.node)
    out = []
    x = node
    while id(x) in pm:
        x = pm[id(x)]
        if isinstance(x, kinds):
            out.append(x)
    return out


def enclosing_try_parts(ff, node: ast.AST):
    """-> list of (try_stmt, part) innermost first; part in body/handler/orelse/final."""
    pm = pf.parent_map(ff.node)
    out = []
    x = node
    while id(x) in pm:
        p = pm[id(x)]
        if isinstance(p, ast.Try):
            part = "body"
            if any(x is s for s in p.orelse):
                part = "orelse"
            elif any(x is s for s in p.finalbody):
                part = "final"
            out.append((p, part))
        elif isinstance(p, ast.ExceptHandler):
            pass
        x = p
    # fix handler detection: a node inside ExceptHandler.body is in the 'handler' part
    res = []
    x = node
    while id(x) in pm:
        p = pm[id(x)]
        if isinstance(p, ast.ExceptHandler):
            t = pm[id(p)]
            res.append((t, "handler", p))
            x = t
            continue
        if isinstance(p, ast.Try):
            part = "body"
            if any(x is s for s in p.orelse):
                part = "orelse"
            elif any(x is s for s in p.finalbody):
                part = "final"
            res.append((p, part, None))
        x = p
    return res


def handler_names(h: ast.ExceptHandler) -> list[str]:
    if h.type is None:
        return ["<bare>"]
    ts = h.type.elts if isinstance(h.type, ast.Tuple) else [h.type]
    return [txt(t) for t in ts]


def returns(ff) -> list[ast.Return]:
    return [n for n in pf.walk_no_nested(ff.node) if isinstance(n, ast.Return)]


def builder_sites(ff, flow: Flow, name: str):
    """Mutation sites of a local collection: (stmt, method, args).  `x += [...]` is ('iadd')."""
    out = []
    for st in pf.iter_stmts(ff.node.body):
        if isinstance(st, ast.Expr) and isinstance(st.value, ast.Call):
            c = st.value
            if isinstance(c.func, ast.Attribute) and isinstance(c.func.value, ast.Name) and c.func.value.id == name:
                out.append((st, c.func.attr, c.args))
        elif isinstance(st, ast.AugAssign) and isinstance(st.target, ast.Name) and st.target.id == name:
            out.append((st, "iadd", [st.value]))
        elif isinstance(st, ast.Assign):
            for t in st.targets:
                if isinstance(t, ast.Subscript) and isinstance(t.value, ast.Name) and t.value.id == name:
                    out.append((st, "setitem", [t.slice, st.value]))
    return out


def is_empty_list(e: ast.AST) -> bool:
    if isinstance(e, ast.List) and not e.elts:
        return True
    return isinstance(e, ast.Call) and isinstance(e.func, ast.Name) and e.func.id == "list" and not e.args


def is_empty_dict(e: ast.AST) -> bool:
    if isinstance(e, ast.Dict) and not e.keys:
        return True
    return isinstance(e, ast.Call) and isinstance(e.func, ast.Name) and e.func.id == "dict" and not e.args and not e.keywords


def loop_of_stmt(ff, st: ast.AST):
    ls = enclosing(ff, st, (ast.For, ast.While))
    return ls[0] if ls else None


def same_def(flow: Flow, a: ast.Name, b: ast.Name) -> bool:
    """Do two name uses see exactly the same single definition?"""
    da, db = flow.defs_of(a), flow.defs_of(b)
    if len(da) != 1 or len(db) != 1:
        return False
    x, y = da[0], db[0]
    if x.node >= 0 or y.node >= 0:
        return x is y
    return x.kind == y.kind and x.name == y.name and x.stmt is y.stmt and x.path == y.path


def single_def(flow: Flow, n: ast.Name):
    ds = flow.defs_of(n)
    return ds[0] if len(ds) == 1 else None


# ---- typed accessor signatures (E10) ---------------------------------------------------
def module_resolver(ss, short: str):
    """Resolver for TreeTyper: module-level functions and nested helpers by bare name."""
    mf = pf.module_facts(ss, short)

    def resolve(nm: str):
        cands = [ff for q, ff in mf.funcs.items() if (q == nm or q.endswith("." + nm)) and ff.cls is None]
        if len(cands) == 1:
            return cands[0], flow_of(ss, cands[0])
        return None
    return resolve


def post_replacement_grammar(gf):
    """View of decfile.lark AFTER DecayModelAliasReplacement: a `model` node starts
    with MODEL_NAME (every model_label was replaced or parse() raised: C06.5).
    Returns a shallow wrapper with `model` words restricted."""
    import copy as _copy
    g2 = _copy.copy(gf)
    g2._words = dict(gf._words)
    ws = {w for w in gf.rule_words("model") if not (w and w[0] == ("T", "model_label"))}
    if not ws:
        raise AnchorMissing("grammar: `model` has no MODEL_NAME-headed alternative")
    g2._words["model"] = (ws, gf.unbounded("model"))
    return g2


def accessor_sig(ss, gf, short: str, qual: str, param: str, tree_name: str):
    """(signature string, errors, unknowns, typer) of a tree accessor function."""
    from ..core.treetypes import TreeTyper
    ff, flow = fn(ss, short, qual)
    tt = TreeTyper(gf, module_resolver(ss, short))
    if param not in ff.params:
        raise AnchorMissing(f"{short}:{qual} has no parameter {param}")
    v = tt.eval_function(ff, flow, {param: tt.tree(tree_name)})
    return v.sig(), list(tt.errors), list(tt.unknown), tt


def comp_over_all(flow, e: ast.AST, iter_ok, elt_ok) -> tuple[bool, str]:
    """Is e (unexpanded) a list/generator comprehension with ONE generator, no `if`,
    whose iterable satisfies iter_ok(expanded iter) and whose element satisfies
    elt_ok(elt, binder_name)?  Returns (ok, reason)."""
    if isinstance(e, ast.Call) and isinstance(e.func, ast.Name) and e.func.id in ("list", "tuple") and len(e.args) == 1:
        e = e.args[0]
    if isinstance(e, ast.Name):
        d = single_def(flow, e)
        if d is not None and d.kind == "assign" and d.path == ():
            e = d.value
    if not isinstance(e, (ast.ListComp, ast.GeneratorExp)):
        return False, f"not a comprehension: `{txt(e)[:80]}`"
    if len(e.generators) != 1:
        return False, "more than one generator"
    g = e.generators[0]
    if g.ifs:
        return False, f"entries are filtered by `{txt(g.ifs[0])[:60]}`"
    it = flow.expand(g.iter)
    if not iter_ok(it):
        return False, f"iterates `{txt(it)[:80]}`"
    if not isinstance(g.target, ast.Name):
        return False, "tuple target"
    if not elt_ok(e.elt, g.target.id):
        return False, f"element is `{txt(e.elt)[:80]}`"
    return True, "ok"


# ---------------------------------------------------------------------------------------------------------------
# EvtGen keyword vocabulary of decfile.lark (shared clause).  The statement kinds a property speaks about are
# recognised by these case-sensitive keywords in every EvtGen decay file; a grammar that spells one differently (or
# case-insensitively, or drops a member of a keyword family) no longer reads the statements the property quantifies over.
VOCAB_TREES = {
    "decay": {"Decay", "Enddecay"}, "cdecay": {"CDecay"}, "copydecay": {"CopyDecay"}, "photos": {"PHOTOS"}, "start": {"End"},
    "define": {"Define"}, "alias": {"Alias"}, "chargeconj": {"ChargeConj"}, "particle_def": {"Particle"},
    "model_alias": {"ModelAlias"}, "jetset_def": {"JetSetPar", "="}, "pythia_def": {":", "="},
    "setlsbw": {"BlattWeisskopf"}, "setlspw": {"SetLineshapePW"}, "yes": {"yesPhotos"}, "no": {"noPhotos"},
}
VOCAB_TERMS = {
    "LABEL_PYTHIA8_COMMANDS": {"PythiaAliasParam", "PythiaBothParam", "PythiaGenericParam"},
    "LABEL_LINESHAPE": {"LSFLAT", "LSNONRELBW", "LSMANYDELTAFUNC"},
    "LABEL_INCLUDE_FACTOR": {"IncludeBirthFactor", "IncludeDecayFactor"},
    "BOOLEAN_INCLUDE_FACTOR": {"yes", "no"},
    "LABEL_CHANGE_MASS": {"ChangeMassMin", "ChangeMassMax"},
}


def keyword_vocabulary(ctx, ss, rule: str, trees=(), terms=()):
    from ..core.larkfacts import grammar_facts
    gf = grammar_facts(ss, DECGRAMMAR)
    loc = f"src/decaylanguage/{DECGRAMMAR}"
    for t in trees:
        want = VOCAB_TREES[t]
        if t != "start" and t not in gf.tree_names:
            ctx.violation(rule, f"{DECGRAMMAR}:{t} :: keywords", loc, f"the grammar has no statement kind `{t}` any more")
            continue
        got = gf.keywords(t)
        if got == want:
            ctx.holds(rule, f"{DECGRAMMAR}:{t} :: keywords", loc, f"`{t}` is introduced by {sorted(want)}", len(want))
        else:
            ctx.violation(rule, f"{DECGRAMMAR}:{t} :: keywords", loc,
                          f"`{t}` statements are recognised by {sorted(got)}, EvtGen files write {sorted(want)}: these statements are no longer read (or other words are read as this statement)")
    for t in terms:
        want = VOCAB_TERMS[t]
        got = gf.terminal_words(t)
        if got == want:
            ctx.holds(rule, f"{DECGRAMMAR}:{t} :: keyword-family", loc, f"{t} = {sorted(want)}", len(want))
        else:
            ctx.violation(rule, f"{DECGRAMMAR}:{t} :: keyword-family", loc,
                          f"{t} accepts {sorted(got) if got is not None else 'an infinite language'}, EvtGen files write {sorted(want)}")


def dict_entries(ff, flow, target: str):
    """Semantic content of a dictionary built in `ff` under the name / attribute `target` ("d", "self.metadata"):
    (entries, stmts, conditional) where entries is the ordered list of ("key-text", value) for explicit keys and
    ("**", expr) for spread / update sources — the same for
        d = {"a": x}; d.update(m)      d = {"a": x, **m}      d = dict(a=x); d.update(**m)
    `conditional` is True when one of the contributing statements is not executed on every path."""
    from ..core import guards
    entries, stmts, conditional = [], [], False
    started = False
    for st in pf.iter_stmts(ff.node.body):
        tg = None
        if isinstance(st, ast.Assign) and len(st.targets) == 1:
            tg, val = st.targets[0], st.value
        elif isinstance(st, ast.AnnAssign) and st.value is not None:
            tg, val = st.target, st.value
        if tg is not None and txt(tg) == target and isinstance(val, (ast.Dict, ast.Call)):
            if isinstance(val, ast.Dict):
                entries = [(("**", v) if k is None else (txt(k), v)) for k, v in zip(val.keys, val.values)]
            elif txt(val.func) == "dict" and not val.args:
                entries = [(("**", kw.value) if kw.arg is None else (repr(kw.arg), kw.value)) for kw in val.keywords]
            else:
                continue
            stmts = [st]
            started = True
            conditional = bool([c for c in guards.path_conditions(ff.node, st) if c[0] in ("if", "exc", "loop")])
            continue
        if started and isinstance(st, ast.Expr) and isinstance(st.value, ast.Call) and isinstance(st.value.func, ast.Attribute) \
                and st.value.func.attr == "update" and txt(st.value.func.value) == target:
            c = st.value
            for a in c.args:
                entries.append(("**", a))
            for kw in c.keywords:
                entries.append(("**", kw.value) if kw.arg is None else (repr(kw.arg), kw.value))
            stmts.append(st)
            if [x for x in guards.path_conditions(ff.node, st) if x[0] in ("if", "exc", "loop")]:
                conditional = True
    return entries, stmts, conditional


def guarded_values(ff, flow, defs):
    """[(conditions, value)] for the given definitions of one local: `x = A if c else B` counts as two alternatives under
    c / not c, exactly like `if c: x = A` / `else: x = B`.  Conditions are canonical (text, polarity) pairs."""
    from ..core import guards
    out = []

    def split(conds, v):
        if isinstance(v, ast.IfExp):
            split(conds + [(txt(a), p) for a, p in guards.canon_cond(v.test, True)], v.body)
            split(conds + [(txt(a), p) for a, p in guards.canon_cond(v.test, False)], v.orelse)
        else:
            out.append((conds, v))
    for d in defs:
        base = [(txt(e), pol) for kind, e, pol in guards.path_conditions(ff.node, d.stmt, skip_raise_guards=True) if kind == "if"] if d.stmt is not None else []
        split(base, d.value)
    return out


def case_of(ss, ff, flow, atom, tag: str):
    """(FuncFacts, Flow) of `ff` specialised to one case (see guards.specialise): the function as it behaves when the
    assumption `atom` holds.  Nested functions keep working because the copy keeps the original qualified name."""
    from ..core import guards
    from ..core.defuse import Flow
    from ..core.pyfacts import FuncFacts
    node = guards.specialise(ff.node, flow, atom)
    ff2 = FuncFacts(ff.module, ff.qualname, node, ff.cls, ff.parent_func, list(ff.decorators))
    return ff2, Flow(ff2, flow.outer)


def list_extensions(root: ast.AST):
    """[(statement, list-expression, added-expression)] for `L += v` and `L.extend(v)` below `root` (the same for lists)."""
    out = []
    for n in ast.walk(root):
        if isinstance(n, ast.AugAssign) and isinstance(n.op, ast.Add):
            out.append((n, n.target, n.value))
        elif isinstance(n, ast.Expr) and isinstance(n.value, ast.Call) and isinstance(n.value.func, ast.Attribute) and n.value.func.attr == "extend" \
                and len(n.value.args) == 1 and not n.value.keywords:
            out.append((n, n.value.func.value, n.value.args[0]))
    return out


def const_value(ss, short: str, e: ast.AST, depth: int = 0):
    """The constant an expression denotes, read from the source: literals, `'a b'.split()`, list()/tuple() of a constant,
    and module-level names bound once to such an expression.  Raises ValueError when it is not a constant."""
    if depth > 4:
        raise ValueError("too deep")
    if isinstance(e, ast.Constant):
        return e.value
    if isinstance(e, (ast.List, ast.Tuple)):
        return [const_value(ss, short, x, depth + 1) for x in e.elts]
    if isinstance(e, ast.Call) and isinstance(e.func, ast.Attribute) and e.func.attr == "split" and not e.keywords and len(e.args) <= 1:
        base = const_value(ss, short, e.func.value, depth + 1)
        args = [const_value(ss, short, a, depth + 1) for a in e.args]
        if isinstance(base, str):
            return base.split(*args)
    if isinstance(e, ast.Call) and isinstance(e.func, ast.Name) and e.func.id in ("list", "tuple") and len(e.args) == 1 and not e.keywords:
        return list(const_value(ss, short, e.args[0], depth + 1))
    if isinstance(e, ast.Name):
        binds = [st for st in ss.tree(short).body if isinstance(st, (ast.Assign, ast.AnnAssign))
                 and any(isinstance(t, ast.Name) and t.id == e.id for t in (st.targets if isinstance(st, ast.Assign) else [st.target]))]
        rebound = [n for n in ast.walk(ss.tree(short)) if isinstance(n, ast.Name) and n.id == e.id and isinstance(n.ctx, (ast.Store, ast.Del))]
        if len(binds) == 1 and len(rebound) == 1 and binds[0].value is not None:
            return const_value(ss, short, binds[0].value, depth + 1)
    raise ValueError(f"`{ast.unparse(e)[:60]}` is not a constant")
