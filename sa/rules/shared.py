"""Clauses that several properties share because the value they speak about passes through the same code
(DESIGN.md §13.1, fifth round): the memoisation discipline and the no-shared-state discipline of the reading path.

A property stated 'for every input file' or 'for every sequence of calls' has a necessary structural part that no rule
about the property's own functions can see: nothing on the path from the public entry point to the answer may remember
an earlier answer under a key that does not determine it.  Two shapes occur:

  * a function memoised (lru_cache / cache / cached_property) on an argument that is not a value: a parser (`self` of a
    class whose state changes after construction), a Lark tree (hashes by the ORIGINAL text of its tokens although the
    visitors rewrite `.value` in place), a file path (the file can change), a mutable container;
  * a hand-written cache in module or class state written on that path (shared by all parser instances).

Both are decided on the call graph from the property's entry points."""
from __future__ import annotations

import ast

from ..core import pyfacts as pf
from ..core.callgraph import callgraph
from ..core.match import txt
from .common import ckey, where

CACHE_DECOS = {"lru_cache", "cache", "cached_property", "functools.lru_cache", "functools.cache", "functools.cached_property"}
VALUE_TYPES = {"str", "int", "float", "bool", "bytes", "complex", "None"}


def _cache_aliases(ss, module: str) -> set[str]:
    """module-level names bound to a cache decorator (`cacher = lru_cache(maxsize=64)`)"""
    out = set()
    for st in ss.tree(module).body:
        if isinstance(st, ast.Assign) and len(st.targets) == 1 and isinstance(st.targets[0], ast.Name):
            v = st.value
            f = v.func if isinstance(v, ast.Call) else v
            if txt(f) in CACHE_DECOS:
                out.add(st.targets[0].id)
    return out


def _is_cached(ss, ff) -> bool:
    names = CACHE_DECOS | _cache_aliases(ss, ff.module)
    for d in ff.node.decorator_list:
        f = d.func if isinstance(d, ast.Call) else d
        if txt(f) in names:
            return True
    return False


def _mutable_class(ss, ff) -> bool:
    """does the class of method `ff` rebind or mutate instance attributes outside __init__ (its answers can change)?"""
    mf = pf.module_facts(ss, ff.module)
    cf = mf.classes.get(ff.cls) if ff.cls else None
    if cf is None:
        return False
    for m in cf.methods.values():
        if m.node.name in ("__init__", "__new__", "__attrs_post_init__"):
            continue
        for n in pf.walk_no_nested(m.node):
            ts = n.targets if isinstance(n, ast.Assign) else [n.target] if isinstance(n, (ast.AugAssign, ast.AnnAssign)) else []
            for t in ts:
                base = t
                while isinstance(base, (ast.Subscript, ast.Attribute)) and not (isinstance(base, ast.Attribute) and isinstance(base.value, ast.Name) and base.value.id == "self"):
                    base = base.value
                if isinstance(base, ast.Attribute) and isinstance(base.value, ast.Name) and base.value.id == "self":
                    return True
    return False


def _key_problem(ss, ff) -> str | None:
    """why the cache key of memoised `ff` does not determine its answer (None: all parameters are values)"""
    a = ff.node.args
    params = a.posonlyargs + a.args + a.kwonlyargs
    for i, p in enumerate(params):
        if i == 0 and ff.cls and p.arg in ("self", "cls"):
            if p.arg == "cls":
                return "the class itself (class state is shared and changes)" if _class_state_written(ss, ff) else None
            if _mutable_class(ss, ff):
                return f"`self` of {ff.cls}, whose state changes after construction (a re-parse, a registration)"
            continue
        ann = txt(p.annotation) if p.annotation is not None else ""
        words = set(ann.replace("|", " ").replace("[", " ").replace("]", " ").replace(",", " ").replace("'", " ").replace('"', " ").split())
        if words & {"Tree", "Token", "ParseTree"}:
            return f"`{p.arg}`, a Lark tree (trees hash and compare by the original token text, but the visitors rewrite token values in place)"
        if words & {"Path", "PathLike", "os.PathLike", "IO", "TextIO"}:
            return f"`{p.arg}`, a file path (the file's content can change between calls)"
        if words & {"list", "dict", "set", "List", "Dict", "Set", "Any", "Iterable", "Sequence", "Mapping", "DecFileParser", "DecayChain", "DecayMode"}:
            return f"`{p.arg}: {ann}`, which is not a value"
    if a.vararg or a.kwarg:
        return "arbitrary arguments"
    return None


def _class_state_written(ss, ff) -> bool:
    return True


def memo_discipline(ctx, ss, rule: str, entries: list[str], what: str):
    """No function on the call-graph paths from `entries` ('module:qualname' keys) is memoised on a key that does not
    determine its answer."""
    cg = callgraph(ss)
    roots = [e for e in entries if e in cg.funcs]
    missing = [e for e in entries if e not in cg.funcs]
    reach = cg.reach(roots)
    n_cached = 0
    bad = []
    for k in sorted(reach):
        ff = cg.funcs.get(k)
        if ff is None or not _is_cached(ss, ff):
            continue
        n_cached += 1
        why = _key_problem(ss, ff)
        if why:
            bad.append((ff, why))
    kk = f"{rule}:memo :: {'+'.join(e.split(':')[-1] for e in entries)[:80]}"
    if bad:
        ff, why = bad[0]
        ctx.violation(rule, kk, where(ff, ff.node), f"{ff.qualname} is memoised on {why}: {what} can be answered from an earlier, different input")
    else:
        ctx.holds(rule, kk, "src/decaylanguage", f"no function reachable from {len(roots)} entry point(s) ({len(reach)} functions, {n_cached} memoised) is memoised on a parser, a tree, "
                  "a path or a container", len(reach))
    if missing and not roots:
        from ..core.source import AnchorMissing
        raise AnchorMissing(f"entry points not found: {missing}")
    ctx.count("memo_reach", len(reach))


def no_shared_state(ctx, ss, rule: str, entries: list[tuple[str, str]]):
    """Nothing that `entries` [(module, qualname)] run writes module state or class attributes shared by all instances."""
    from .c09 import no_state_effects
    from .common import fn
    for mod, q in entries:
        ff, _ = fn(ss, mod, q)
        no_state_effects(ctx, ss, rule, ff, shared_only=True)
