"""Clauses that several properties share because the value they speak about passes through the same code
(DESIGN.md §13.1, fifth round): the memoisation discipline and the no-shared-state discipline of the reading path.

A property stated 'for every input file' or 'for every sequence of calls' has a necessary structural part that no rule
about the property's own functions can see: nothing on the path from the public entry point to the answer may remember
an earlier answer under a key that does not determine it.  Two shapes occur:

  * a function memoised (lru_cache / cache / cached_property) on an argument that is not a value: a parser (`self` of a
    class whose state changes after construction), a Lark tree (hashes by the ORIGINAL text of its tokens although the
    visitors rewrite `.value` in place), a file path (the file can change), a mutable container;
  * a hand-written cache in module or class state written on that path (shared by all parser instances).

Both are decided on the call graph from the property's entry points."""
from __future__ import annotations

import ast

from ..core import pyfacts as pf
from ..core.callgraph import callgraph
from ..core.match import txt
from .common import ckey, where

CACHE_DECOS = {"lru_cache", "cache", "cached_property", "functools.lru_cache", "functools.cache", "functools.cached_property"}
VALUE_TYPES = {"str", "int", "float", "bool", "bytes", "complex", "None"}


def _cache_aliases(ss, module: str) -> set[str]:
    """module-level names bound to a cache decorator (`cacher = lru_cache(maxsize=64)`)"""
    out = set()
    for st in ss.tree(module).body:
        if isinstance(st, ast.Assign) and len(st.targets) == 1 and isinstance(st.targets[0], ast.Name):
            v = st.value
            f = v.func if isinstance(v, ast.Call) else v
            if txt(f) in CACHE_DECOS:
                out.add(st.targets[0].id)
    return out


def _is_cached(ss, ff) -> bool:
    names = CACHE_DECOS | _cache_aliases(ss, ff.module)
    for d in ff.node.decorator_list:
        f = d.func if isinstance(d, ast.Call) else d
        if txt(f) in names:
            return True
    return False


def _mutable_class(ss, ff) -> bool:
    """does the class of method `ff` rebind or mutate instance attributes outside __init__ (its answers can change)?"""
    mf = pf.module_facts(ss, ff.module)
    cf = mf.classes.get(ff.cls) if ff.cls else None
    if cf is None:
        return False
    for m in cf.methods.values():
        if m.node.name in ("__init__", "__new__", "__attrs_post_init__"):
            continue
        for n in pf.walk_no_nested(m.node):
            ts = n.targets if isinstance(n, ast.Assign) else [n.target] if isinstance(n, (ast.AugAssign, ast.AnnAssign)) else []
            for t in ts:
                base = t
                while isinstance(base, (ast.Subscript, ast.Attribute)) and not (isinstance(base, ast.Attribute) and isinstance(base.value, ast.Name) and base.value.id == "self"):
                    base = base.value
                if isinstance(base, ast.Attribute) and isinstance(base.value, ast.Name) and base.value.id == "self":
                    return True
    return False


def _key_problem(ss, ff) -> str | None:
    """why the cache key of memoised `ff` does not determine its answer (None: all parameters are values)"""
    a = ff.node.args
    params = a.posonlyargs + a.args + a.kwonlyargs
    for i, p in enumerate(params):
        if i == 0 and ff.cls and p.arg in ("self", "cls"):
            if p.arg == "cls":
                return "the class itself (class state is shared and changes)" if _class_state_written(ss, ff) else None
            if _mutable_class(ss, ff):
                return f"`self` of {ff.cls}, whose state changes after construction (a re-parse, a registration)"
            continue
        ann = txt(p.annotation) if p.annotation is not None else ""
        words = set(ann.replace("|", " ").replace("[", " ").replace("]", " ").replace(",", " ").replace("'", " ").replace('"', " ").split())
        if words & {"Tree", "Token", "ParseTree"}:
            return f"`{p.arg}`, a Lark tree (trees hash and compare by the original token text, but the visitors rewrite token values in place)"
        if words & {"Path", "PathLike", "os.PathLike", "IO", "TextIO"}:
            return f"`{p.arg}`, a file path (the file's content can change between calls)"
        if words & {"list", "dict", "set", "List", "Dict", "Set", "Any", "Iterable", "Sequence", "Mapping", "DecFileParser", "DecayChain", "DecayMode"}:
            return f"`{p.arg}: {ann}`, which is not a value"
    if a.vararg or a.kwarg:
        return "arbitrary arguments"
    return None


def _class_state_written(ss, ff) -> bool:
    return True


def _written_class_attrs(ss) -> set[tuple[str, str]]:
    """(Class, attr) pairs assigned somewhere in the package outside the class body (`Class.attr = …`, `cls.attr = …`)"""
    def build():
        out = set()
        cg = callgraph(ss)
        for ff in cg.funcs.values():
            for n in pf.walk_no_nested(ff.node):
                ts = n.targets if isinstance(n, ast.Assign) else [n.target] if isinstance(n, (ast.AugAssign, ast.AnnAssign)) else []
                for t in ts:
                    while isinstance(t, ast.Subscript):
                        t = t.value
                    if isinstance(t, ast.Attribute) and isinstance(t.value, ast.Name):
                        if t.value.id == "cls" and ff.cls:
                            out.add((ff.cls, t.attr))
                        elif t.value.id[:1].isupper():
                            out.add((t.value.id, t.attr))
        return out
    return ss.memo(("written_class_attrs",), build)


def _state_dependency(ss, ff) -> str | None:
    """a class attribute that memoised `ff` (or something it calls) READS although it is reassigned elsewhere: not in the key"""
    cg = callgraph(ss)
    written = _written_class_attrs(ss)
    for k in sorted(cg.reach([ff.key])):
        g = cg.funcs.get(k)
        if g is None:
            continue
        for n in pf.walk_no_nested(g.node):
            if isinstance(n, ast.Attribute) and isinstance(n.ctx, ast.Load) and isinstance(n.value, ast.Name):
                owner = g.cls if n.value.id == "cls" else n.value.id
                if owner and (owner, n.attr) in written:
                    return f"{owner}.{n.attr} (read in {g.qualname})"
    return None


def memo_discipline(ctx, ss, rule: str, entries: list[str], what: str):
    """No function on the call-graph paths from `entries` ('module:qualname' keys) is memoised on a key that does not
    determine its answer."""
    cg = callgraph(ss)
    roots = [e for e in entries if e in cg.funcs]
    missing = [e for e in entries if e not in cg.funcs]
    reach = cg.reach(roots)
    n_cached = 0
    bad = []
    for k in sorted(reach):
        ff = cg.funcs.get(k)
        if ff is None or not _is_cached(ss, ff):
            continue
        n_cached += 1
        why = _key_problem(ss, ff)
        if why:
            bad.append((ff, why))
            continue
        dep = _state_dependency(ss, ff)
        if dep:
            bad.append((ff, f"its arguments only, but its answer also depends on {dep}, which is reassigned at run time"))
    kk = f"{rule}:memo :: {'+'.join(e.split(':')[-1] for e in entries)[:80]}"
    if bad:
        ff, why = bad[0]
        ctx.violation(rule, kk, where(ff, ff.node), f"{ff.qualname} is memoised on {why}: {what} can be answered from an earlier, different input")
    else:
        ctx.holds(rule, kk, "src/decaylanguage", f"no function reachable from {len(roots)} entry point(s) ({len(reach)} functions, {n_cached} memoised) is memoised on a parser, a tree, "
                  "a path or a container", len(reach))
    if missing and not roots:
        from ..core.source import AnchorMissing
        raise AnchorMissing(f"entry points not found: {missing}")
    ctx.count("memo_reach", len(reach))


def no_shared_state(ctx, ss, rule: str, entries: list[tuple[str, str]]):
    """Nothing that `entries` [(module, qualname)] run writes module state or class attributes shared by all instances."""
    from .c09 import no_state_effects
    from .common import fn
    for mod, q in entries:
        ff, _ = fn(ss, mod, q)
        no_state_effects(ctx, ss, rule, ff, shared_only=True)


READ_PATH = [("dec/dec.py", "DecFileParser.__init__"), ("dec/dec.py", "DecFileParser.from_string"), ("dec/dec.py", "DecFileParser.parse")]


def reading_path(ctx, ss, rule: str, queries: list[str], what: str, assembly: bool = True):
    """The path text -> parsed tables -> answer of `queries` (qualnames in dec/dec.py) remembers nothing under a key that
    does not determine the answer: no memoisation on parsers / trees / paths / containers, and the constructor, from_string
    and parse() write no module or class state shared between parser instances."""
    entries = [f"{m}:{q}" for m, q in READ_PATH] + [f"dec/dec.py:{q}" for q in queries]
    memo_discipline(ctx, ss, rule, entries, what)
    no_shared_state(ctx, ss, rule, READ_PATH)
    if assembly:
        # the text that is parsed is the whole content of the files given: every line except a lone `End`, BOM stripped, a line
        # break after each file (the clauses C02.6 - C02.8, relabelled)
        from .c02 import p6, p7, p8
        from .c05 import _as
        for f_ in (p6, p7, p8):
            ctx.guard(rule, lambda c, s, f_=f_: _as(c, s, f_, rule), ss)


# entry points per property for the memoisation discipline (the public functions the property observes)
ENTRIES = {
    "C03": ["dec/dec.py:DecFileParser.parse", "dec/dec.py:DecFileParser._add_charge_conjugate_decays", "dec/dec.py:find_charge_conjugate_match"],
    "C08": ["dec/dec.py:DecFileParser.parse", "dec/dec.py:DecFileParser.build_decay_chains", "dec/dec.py:DecFileParser.expand_decay_modes", "dec/dec.py:DecFileParser.print_decay_modes",
            "dec/dec.py:DecFileParser.list_decay_modes", "dec/dec.py:DecFileParser.dict_definitions", "dec/dec.py:DecFileParser.dict_aliases"],
    "C11": ["decay/decay.py:DecayMode.from_dict", "decay/decay.py:DecayMode.to_dict", "decay/decay.py:DecayMode.from_pdgids", "decay/decay.py:DecayChain.from_dict",
            "decay/decay.py:DecayChain.to_dict", "decay/decay.py:DaughtersDict.to_string", "decay/decay.py:DaughtersDict.to_list"],
    "C12": ["decay/decay.py:DecayChain.flatten", "decay/decay.py:DecayChain.visible_bf", "decay/decay.py:DecayChain.bf", "decay/decay.py:DecayChain.top_level_decay"],
    "C13": ["decay/decay.py:DecayChain.to_string", "decay/decay.py:DaughtersDict.to_string", "decay/decay.py:_expand_decay_modes",
            "utils/utilities.py:DescriptorFormat.format_descriptor"],
    "C14": ["decay/decay.py:DecayChain.to_string", "decay/decay.py:_expand_decay_modes", "dec/dec.py:DecFileParser.expand_decay_modes",
            "utils/utilities.py:DescriptorFormat.format_descriptor", "utils/utilities.py:DescriptorFormat.set_config"],
    "C15": ["decay/viewer.py:DecayChainViewer.__init__", "decay/viewer.py:DecayChainViewer._build_decay_graph", "decay/viewer.py:DecayChainViewer.to_string"],
    "C17": ["modeling/amplitudechain.py:AmplitudeChain.read_ampgen", "modeling/amplitudechain.py:AmplitudeChain.from_matched_line", "modeling/amplitudechain.py:AmplitudeChain.expand_lines"],
    "C18": ["modeling/decay.py:ModelDecay.list_structure", "modeling/goofit.py:GooFitChain.to_goofit", "modeling/goofit.py:GooFitPyChain.to_goofit",
            "modeling/goofit.py:GooFitChain.make_intro", "modeling/goofit.py:GooFitPyChain.make_intro"],
    "C20": ["modeling/ampgen2goofit.py:ampgen2goofit", "modeling/ampgen2goofit.py:ampgen2goofitpy", "modeling/goofit.py:GooFitChain.read_ampgen", "modeling/goofit.py:GooFitPyChain.read_ampgen"],
}


def memo_for(ctx, ss, prop: str, rule: str, what: str):
    cg = callgraph(ss)
    present = [e for e in ENTRIES[prop] if e in cg.funcs]
    ctx.floor(rule, f"{prop} entry points found for the memoisation discipline", len(present), max(1, len(ENTRIES[prop]) - 2))
    memo_discipline(ctx, ss, rule, present, what)
