"""Self-test of the checker (DESIGN.md §8): mutants (must be reported as a
VIOLATION of the named rule), benign variants (verdicts must not change), run in
memory on overlays of the CURRENT /repo sources.

A mutant is (id, property, file, old, new, expected_rule).  ``old`` must occur
exactly once in the current file text; otherwise the mutant no longer applies to
this tree and is skipped and counted (never an alarm).
"""
from __future__ import annotations

import importlib

from ..core import report
from ..core.source import SourceSet


def _mutants(prop: str):
    try:
        m = importlib.import_module(f"sa.selftest.m_{prop.lower()}")
    except ModuleNotFoundError:
        return [], []
    return getattr(m, "MUTANTS", []), getattr(m, "BENIGN", [])


def apply(ss: SourceSet, file, old, new) -> SourceSet | None:
    """file/old/new may be parallel lists (several edits, possibly in several files)."""
    if isinstance(file, str):
        file, old, new = [file], [old], [new]
    texts: dict[str, str] = {}
    for f, o, n in zip(file, old, new):
        t = texts.get(f, ss.text(f))
        if isinstance(o, tuple):
            # (text, k, count): the k-th (0-based) of exactly `count` occurrences -- for code that two sibling classes share verbatim
            o, kth, cnt = o
            if t.count(o) != cnt:
                return None
            pos = -1
            for _ in range(kth + 1):
                pos = t.index(o, pos + 1)
            texts[f] = t[:pos] + n + t[pos + len(o):]
            continue
        if t.count(o) != 1:
            return None
        texts[f] = t.replace(o, n)
    return ss.overlay({ss.rel(f): t for f, t in texts.items()})


def apply_unified_diff(ss: SourceSet, diff_text: str) -> SourceSet | None:
    """Apply a `git diff` (unified, -p1 paths) to the in-memory sources; None when a hunk does not fit (the patch was
    written against an older tree)."""
    import re
    files: dict[str, list[str]] = {}
    cur = None
    hunks: dict[str, list] = {}
    for line in diff_text.splitlines():
        if line.startswith("+++ b/"):
            cur = line[6:].strip()
            hunks[cur] = []
        elif line.startswith("@@") and cur is not None:
            m = re.match(r"@@ -(\d+)(?:,(\d+))? \+(\d+)(?:,(\d+))? @@", line)
            hunks[cur].append([int(m.group(1)), []])
        elif cur is not None and hunks.get(cur) and line[:1] in (" ", "+", "-") and not line.startswith("---"):
            hunks[cur][-1][1].append(line)
        elif cur is not None and hunks.get(cur) and line == "":
            hunks[cur][-1][1].append(" ")
    repl = {}
    for rel, hs in hunks.items():
        if rel not in ss.files:
            return None
        src = ss.files[rel].split("\n")
        out = []
        pos = 0
        for start, lines in hs:
            old = [l[1:] for l in lines if l[:1] in (" ", "-")]
            new = [l[1:] for l in lines if l[:1] in (" ", "+")]
            # locate the old block at or near the stated position
            idx = None
            for delta in range(0, 200):
                for cand in (start - 1 + delta, start - 1 - delta):
                    if cand >= pos and src[cand:cand + len(old)] == old:
                        idx = cand
                        break
                if idx is not None:
                    break
            if idx is None:
                return None
            out += src[pos:idx] + new
            pos = idx + len(old)
        out += src[pos:]
        repl[rel] = "\n".join(out)
    return ss.overlay(repl)


def verdicts(prop: str, ss: SourceSet):
    from ..main import evaluate
    ctx, _, _ = evaluate(prop, "quick", ss, selftest=False)
    return ctx.results


def selftest_property(ctx, prop: str, ss: SourceSet):
    muts, benign = _mutants(prop)
    base = verdicts(prop, ss)
    base_viol = {r.key() for r in base if r.verdict == report.VIOLATION}
    base_und = {r.key() for r in base if r.verdict == report.UNDECIDED}
    killed = skipped = 0
    for mid, file, old, new, rule in muts:
        ms = apply(ss, file, old, new)
        if ms is None:
            skipped += 1
            ctx.notes.append(f"mutant {mid} no longer applies")
            if __import__("os").environ.get("VERIF_VERBOSE"):
                print("SKIPPED mutant", mid)
            continue
        res = verdicts(prop, ms)
        new_viol = [r for r in res if r.verdict == report.VIOLATION and r.key() not in base_viol]
        hit = [r for r in new_viol if rule is None or r.rule == rule or r.rule.startswith(rule)]
        if hit:
            killed += 1
            ctx.holds(f"{prop}.selftest", f"mutant:{mid}", "-", f"mutant reported by {hit[0].rule}: {hit[0].detail[:120]}", 1)
        else:
            ctx.undecided(f"{prop}.selftest", f"mutant:{mid}", "-",
                          f"rule not live: mutant `{mid}` (expected {rule}) survived; got {[ (r.rule, r.verdict) for r in res if r.verdict != report.HOLDS][:4]}")
    # seeded breaking changes written by sub-agents for this property (seeded/<prop>-x/patch.diff): each must be reported
    import glob as _glob
    import os as _os
    sroot = _os.path.join(_os.path.dirname(_os.path.dirname(_os.path.dirname(_os.path.abspath(__file__)))), "seeded")
    for pth in sorted(_glob.glob(_os.path.join(sroot, f"{prop}-*", "patch.diff"))):
        sid = _os.path.basename(_os.path.dirname(pth))
        with open(pth, encoding="utf-8") as fh:
            ms = apply_unified_diff(ss, fh.read())
        if ms is None:
            skipped += 1
            ctx.notes.append(f"seeded change {sid} no longer applies")
            continue
        res = verdicts(prop, ms)
        new_viol = [r for r in res if r.verdict == report.VIOLATION and r.key() not in base_viol]
        if new_viol:
            killed += 1
            ctx.holds(f"{prop}.selftest", f"seed:{sid}", "-", f"seeded change reported by {new_viol[0].rule}: {new_viol[0].detail[:120]}", 1)
        else:
            ctx.undecided(f"{prop}.selftest", f"seed:{sid}", "-",
                          f"rule not live: seeded change `{sid}` is not reported; got {[(r.rule, r.verdict) for r in res if r.verdict != report.HOLDS][:4]}")
    ok_b = 0
    for bid, file, old, new in benign:
        ms = apply(ss, file, old, new)
        if ms is None:
            skipped += 1
            ctx.notes.append(f"benign variant {bid} no longer applies")
            if __import__("os").environ.get("VERIF_VERBOSE"):
                print("SKIPPED benign", bid)
            continue
        res = verdicts(prop, ms)
        nv = [r for r in res if r.verdict == report.VIOLATION and r.key() not in base_viol and r.rule[:3] == prop]
        nu = [r for r in res if r.verdict == report.UNDECIDED and r.key() not in base_und]
        # construct keys contain statement text, so compare by rule multiset instead
        bv = sorted(r.rule for r in base if r.verdict == report.VIOLATION)
        rv = sorted(r.rule for r in res if r.verdict == report.VIOLATION)
        bu = sorted(r.rule for r in base if r.verdict == report.UNDECIDED)
        ru = sorted(r.rule for r in res if r.verdict == report.UNDECIDED)
        if bv == rv and bu == ru:
            ok_b += 1
            ctx.holds(f"{prop}.selftest", f"benign:{bid}", "-", "benign variant: same verdicts as the base tree", 1)
        else:
            bad = [r for r in res if r.verdict != report.HOLDS]
            ctx.undecided(f"{prop}.selftest", f"benign:{bid}", "-",
                          f"false alarm on benign variant `{bid}`: {[(r.rule, r.verdict, r.detail[:80]) for r in bad][:3]}")
    # behaviour-preserving refactorings written by sub-agents for this property (benign/<prop>-r*/refactor-k.patch: all hold-out rounds)
    import glob
    import os
    broot = os.path.join(os.path.dirname(os.path.dirname(os.path.dirname(os.path.abspath(__file__)))), "benign")
    for pth in sorted(glob.glob(os.path.join(broot, f"{prop}-r*", "refactor-*.patch"))):
        bid = f"agent:{os.path.basename(os.path.dirname(pth))}/{os.path.basename(pth)[:-6]}"
        with open(pth, encoding="utf-8") as fh:
            ms = apply_unified_diff(ss, fh.read())
        if ms is None:
            skipped += 1
            ctx.notes.append(f"stored refactoring {bid} no longer applies")
            continue
        res = verdicts(prop, ms)
        bv = sorted(r.rule for r in base if r.verdict == report.VIOLATION)
        rv = sorted(r.rule for r in res if r.verdict == report.VIOLATION)
        bu = sorted(r.rule for r in base if r.verdict == report.UNDECIDED)
        ru = sorted(r.rule for r in res if r.verdict == report.UNDECIDED)
        if bv == rv and bu == ru:
            ok_b += 1
            ctx.holds(f"{prop}.selftest", f"benign:{bid}", "-", "refactoring by an independent sub-agent: same verdicts as the base tree", 1)
        else:
            bad = [r for r in res if r.verdict != report.HOLDS and r.key() not in base_viol]
            ctx.undecided(f"{prop}.selftest", f"benign:{bid}", "-",
                          f"false alarm on stored refactoring `{bid}`: {[(r.rule, r.verdict, r.detail[:80]) for r in bad][:3]}")
    # whole-package behaviour-preserving rewrites
    from . import transforms
    bv = sorted(r.rule for r in base if r.verdict == report.VIOLATION)
    bu = sorted(r.rule for r in base if r.verdict == report.UNDECIDED)
    for mode in ("unparse", "stmt", "rename"):
        res = verdicts(prop, transforms.transform(ss, mode))
        rv = sorted(r.rule for r in res if r.verdict == report.VIOLATION)
        ru = sorted(r.rule for r in res if r.verdict == report.UNDECIDED)
        if rv == bv and ru == bu:
            ok_b += 1
            ctx.holds(f"{prop}.selftest", f"benign:whole-package:{mode}", "-", f"whole-package rewrite `{mode}`: same verdicts as the base tree", 1)
        else:
            bad = [r for r in res if r.verdict != report.HOLDS]
            ctx.undecided(f"{prop}.selftest", f"benign:whole-package:{mode}", "-",
                          f"false alarm on whole-package rewrite `{mode}`: {[(r.rule, r.verdict, r.detail[:80]) for r in bad][:3]}")
    ctx.count("mutants_killed", killed)
    ctx.count("benign_ok", ok_b)
    ctx.count("selftest_skipped", skipped)
