"""Self-test of the checker (DESIGN.md §8): mutants (must be reported as a
VIOLATION of the named rule), benign variants (verdicts must not change), run in
memory on overlays of the CURRENT /repo sources.

A mutant is (id, property, file, old, new, expected_rule).  ``old`` must occur
exactly once in the current file text; otherwise the mutant no longer applies to
this tree and is skipped and counted (never an alarm).
"""
from __future__ import annotations

import importlib

from ..core import report
from ..core.source import SourceSet


def _mutants(prop: str):
    try:
        m = importlib.import_module(f"sa.selftest.m_{prop.lower()}")
    except ModuleNotFoundError:
        return [], []
    return getattr(m, "MUTANTS", []), getattr(m, "BENIGN", [])


def apply(ss: SourceSet, file, old, new) -> SourceSet | None:
    """file/old/new may be parallel lists (several edits, possibly in several files)."""
    if isinstance(file, str):
        file, old, new = [file], [old], [new]
    texts: dict[str, str] = {}
    for f, o, n in zip(file, old, new):
        t = texts.get(f, ss.text(f))
        if t.count(o) != 1:
            return None
        texts[f] = t.replace(o, n)
    return ss.overlay({ss.rel(f): t for f, t in texts.items()})


def verdicts(prop: str, ss: SourceSet):
    from ..main import evaluate
    ctx, _, _ = evaluate(prop, "quick", ss, selftest=False)
    return ctx.results


def selftest_property(ctx, prop: str, ss: SourceSet):
    muts, benign = _mutants(prop)
    base = verdicts(prop, ss)
    base_viol = {r.key() for r in base if r.verdict == report.VIOLATION}
    base_und = {r.key() for r in base if r.verdict == report.UNDECIDED}
    killed = skipped = 0
    for mid, file, old, new, rule in muts:
        ms = apply(ss, file, old, new)
        if ms is None:
            skipped += 1
            ctx.notes.append(f"mutant {mid} no longer applies")
            if __import__("os").environ.get("VERIF_VERBOSE"):
                print("SKIPPED mutant", mid)
            continue
        res = verdicts(prop, ms)
        new_viol = [r for r in res if r.verdict == report.VIOLATION and r.key() not in base_viol]
        hit = [r for r in new_viol if rule is None or r.rule == rule or r.rule.startswith(rule)]
        if hit:
            killed += 1
            ctx.holds(f"{prop}.selftest", f"mutant:{mid}", "-", f"mutant reported by {hit[0].rule}: {hit[0].detail[:120]}", 1)
        else:
            ctx.undecided(f"{prop}.selftest", f"mutant:{mid}", "-",
                          f"rule not live: mutant `{mid}` (expected {rule}) survived; got {[ (r.rule, r.verdict) for r in res if r.verdict != report.HOLDS][:4]}")
    ok_b = 0
    for bid, file, old, new in benign:
        ms = apply(ss, file, old, new)
        if ms is None:
            skipped += 1
            ctx.notes.append(f"benign variant {bid} no longer applies")
            if __import__("os").environ.get("VERIF_VERBOSE"):
                print("SKIPPED benign", bid)
            continue
        res = verdicts(prop, ms)
        nv = [r for r in res if r.verdict == report.VIOLATION and r.key() not in base_viol and r.rule[:3] == prop]
        nu = [r for r in res if r.verdict == report.UNDECIDED and r.key() not in base_und]
        # construct keys contain statement text, so compare by rule multiset instead
        bv = sorted(r.rule for r in base if r.verdict == report.VIOLATION)
        rv = sorted(r.rule for r in res if r.verdict == report.VIOLATION)
        bu = sorted(r.rule for r in base if r.verdict == report.UNDECIDED)
        ru = sorted(r.rule for r in res if r.verdict == report.UNDECIDED)
        if bv == rv and bu == ru:
            ok_b += 1
            ctx.holds(f"{prop}.selftest", f"benign:{bid}", "-", "benign variant: same verdicts as the base tree", 1)
        else:
            bad = [r for r in res if r.verdict != report.HOLDS]
            ctx.undecided(f"{prop}.selftest", f"benign:{bid}", "-",
                          f"false alarm on benign variant `{bid}`: {[(r.rule, r.verdict, r.detail[:80]) for r in bad][:3]}")
    # whole-package behaviour-preserving rewrites
    from . import transforms
    bv = sorted(r.rule for r in base if r.verdict == report.VIOLATION)
    bu = sorted(r.rule for r in base if r.verdict == report.UNDECIDED)
    for mode in ("unparse", "stmt", "rename"):
        res = verdicts(prop, transforms.transform(ss, mode))
        rv = sorted(r.rule for r in res if r.verdict == report.VIOLATION)
        ru = sorted(r.rule for r in res if r.verdict == report.UNDECIDED)
        if rv == bv and ru == bu:
            ok_b += 1
            ctx.holds(f"{prop}.selftest", f"benign:whole-package:{mode}", "-", f"whole-package rewrite `{mode}`: same verdicts as the base tree", 1)
        else:
            bad = [r for r in res if r.verdict != report.HOLDS]
            ctx.undecided(f"{prop}.selftest", f"benign:whole-package:{mode}", "-",
                          f"false alarm on whole-package rewrite `{mode}`: {[(r.rule, r.verdict, r.detail[:80]) for r in bad][:3]}")
    ctx.count("mutants_killed", killed)
    ctx.count("benign_ok", ok_b)
    ctx.count("selftest_skipped", skipped)
