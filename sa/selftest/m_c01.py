F = "dec/dec.py"
G = "data/decfile.lark"
MUTANTS = [
    ("label-no-tilde", G, "LABEL : /[a-zA-Z0-9\\/\\-+*_().'~]+/", "LABEL : /[a-zA-Z0-9\\/\\-+*_().']+/", "C01.2"),
    ("label-no-quote", G, "LABEL : /[a-zA-Z0-9\\/\\-+*_().'~]+/", "LABEL : /[a-zA-Z0-9\\/\\-+*_().~]+/", "C01.2"),
    ("photos-always", F, '        if display_photos_keyword and list(decay_mode.find_data("photos")):', '        if display_photos_keyword or list(decay_mode.find_data("photos")):', "C01.4"),
    ("photos-unconditional", F, '        if display_photos_keyword and list(decay_mode.find_data("photos")):', '        if display_photos_keyword:', "C01.4"),
    ("mother-children1", F, "    return decay_tree.children[0].children[0].value\n", "    return decay_tree.children[1].children[0].value\n", "C01.3"),
    ("bf-of-model", F, "        return float(decay_mode.children[0].children[0].value)", "        return float(decay_mode.children[-1].children[0].value)", "C01.3"),
    ("bf-rounded", F, "        return float(decay_mode.children[0].children[0].value)", "        return round(float(decay_mode.children[0].children[0].value), 6)", "C01.3"),
    ("alias-filter", F, "            for tree in self._parsed_decays\n        ]\n\n        # Check whether certain", "            for tree in self._parsed_decays\n            if len(tree.children) > 1\n        ]\n\n        # Check whether certain", "C01.5"),
    ("keep-last", F, "        for tree in reversed(self._parsed_decays):  # type: ignore[arg-type]", "        for tree in list(self._parsed_decays):", "C01.6"),
    ("particles-of-decay", G, "decayline : value particle* photos? model _NEWLINE+", "decayline : value particle+ photos? model _NEWLINE+", "C01.1"),
    ("photos-before", G, "decayline : value particle* photos? model _NEWLINE+", "decayline : value photos? particle* model _NEWLINE+", "C01.1"),
    ("number-unsigned", G, "define : \"Define\" LABEL SIGNED_NUMBER", "define : \"Define\" LABEL SIGNED_NUMBER\nSIGNED_NUMBER2: /x/", None) if False else
    ("value-int", G, "value : SIGNED_NUMBER", "value : INT", "C01.1"),
    ("fs-sorted", F, "    return [str(fsp.children[0].value) for fsp in fsps]", "    return sorted(str(fsp.children[0].value) for fsp in fsps)", "C01.3"),
    ("fs-dedupe", F, "    return list(decay_mode.find_data(\"particle\"))", "    return list(decay_mode.find_data(\"particle\"))[:4]", "C01.3"),
    ("params-first-only", F, '    return [_value(tree) for tree in lmo[0].children] if len(lmo) == 1 else ""', '    return [_value(tree) for tree in lmo[0].children[:8]] if len(lmo) == 1 else ""', "C01.3"),
    ("mothers-filter", F, "        return [get_decay_mother_name(d) for d in self._parsed_decays]  # type: ignore[union-attr]", "        return [get_decay_mother_name(d) for d in self._parsed_decays if d.children[1:]]", "C01.8"),
    ("param-visit-skip", F, "        for tree in self._parsed_decays:\n            DecayModelParamValueReplacement(define_defs=dict_define_defs).visit(tree)", "        for tree in self._parsed_decays[:50]:\n            DecayModelParamValueReplacement(define_defs=dict_define_defs).visit(tree)", "C01.5"),
    ("rule-rename", [G, G], ["model_options : (value | LABEL | _NEWLINE | _COMMA)+", "MODEL_NAME model_options?) _SEMICOLON+"],
     ["model_opts : (value | LABEL | _NEWLINE | _COMMA)+", "MODEL_NAME model_opts?) _SEMICOLON+"], None),
    ("count-all", F, "                duplicates_to_remove.extend([item] * (c - 1))", "                duplicates_to_remove.extend([item] * c)", "C01.6"),
    ("model-children1", F, "    return str(lm[0].children[0].value)", "    return str(lm[0].children[-1].value)", "C01.3"),
    ("copy-before-param", F, "        dict_define_defs = self.dict_definitions()\n", "        dict_define_defs = self.dict_definitions()\n        if self.dict_decays2copy():\n            self._add_decays_to_be_copied()\n", None),
]
BENIGN = [
    ("mother-local", F, "    return decay_tree.children[0].children[0].value\n", "    mother_tree = decay_tree.children[0]\n    return mother_tree.children[0].value\n"),
    ("bf-local", F, "        return float(decay_mode.children[0].children[0].value)", "        tok = decay_mode.children[0].children[0]\n        return float(tok.value)"),
    ("photos-len", F, '        if display_photos_keyword and list(decay_mode.find_data("photos")):', '        if display_photos_keyword and len(list(decay_mode.find_data("photos"))) > 0:'),
    ("photos-nested-if", F, '        if display_photos_keyword and list(decay_mode.find_data("photos")):\n            model = "PHOTOS " + model', '        if display_photos_keyword:\n            if list(decay_mode.find_data("photos")):\n                model = "PHOTOS " + model'),
    ("grammar-comment", G, "value : SIGNED_NUMBER", "value : SIGNED_NUMBER   // a number"),
    ("label-reorder", G, "LABEL : /[a-zA-Z0-9\\/\\-+*_().'~]+/", "LABEL : /[0-9a-zA-Z~\\/\\-+*_().']+/"),
    ("dict-literal", F, "        return DecayModeDict(\n            bf=bf, fs=fsp_names, model=model, model_params=model_params\n        )", "        return {\"bf\": bf, \"fs\": fsp_names, \"model\": model, \"model_params\": model_params}"),
    ("names-direct", F, "    fsps = get_final_state_particles(decay_mode)\n    # list of final-state particle names\n    return [str(fsp.children[0].value) for fsp in fsps]", "    return [str(fsp.children[0].value) for fsp in decay_mode.find_data(\"particle\")]"),
]
