F = "dec/dec.py"
G = "data/decfile.lark"
MUTANTS = [
    ("bom-regression", F, 'with filename.open(encoding="utf_8_sig") as file:', 'with filename.open(encoding="utf_8") as file:', "C02.6"),
    ("decayline-one-newline", G, "decayline : value particle* photos? model _NEWLINE+", "decayline : value particle* photos? model _NEWLINE", "C02.2"),
    ("decay-one-newline", G, 'decay : "Decay" particle _NEWLINE+ decayline* "Enddecay"', 'decay : "Decay" particle _NEWLINE decayline* "Enddecay"', "C02.2"),
    ("no-ignore-comment", G, "%ignore COMMENT\n", "", "C02.1"),
    ("no-cr", G, "_NEWLINE: ( /\\r?\\n[\\t ]*/ | COMMENT )", "_NEWLINE: ( /\\n[\\t ]*/ | COMMENT )", "C02.3"),
    ("comment-eats-newline", G, "COMMENT : /[#][^\\n]*/", "COMMENT : /[#][^\\n]*\\n?/", "C02.3"),
    ("label-comma", G, "LABEL : /[a-zA-Z0-9\\/\\-+*_().'~]+/", "LABEL : /[a-zA-Z0-9\\/\\-+*_().'~,]+/", "C02.4"),
    ("no-file-break", F, '                            stream.write(line)\n                    stream.write("\\n")', '                            stream.write(line)', "C02.7"),
    ("end-filter-loose", F, '                            beg.startswith("End") and not beg.startswith("Enddecay")', '                            beg.startswith("End") and not beg.startswith("Enddecay") and len(beg) < 5', "C02.7"),
    ("end-filter-drops-enddecay", F, '                            beg.startswith("End") and not beg.startswith("Enddecay")', '                            beg.startswith("End")', "C02.7"),
    ("semicolon-once", G, "model : (model_label  | MODEL_NAME model_options?) _SEMICOLON+", "model : (model_label  | MODEL_NAME model_options?) _SEMICOLON", "C02.2"),
    ("no-leading-newlines", G, 'start : _NEWLINE* (line _NEWLINE+)* ("End" _NEWLINE+)?', 'start : (line _NEWLINE+)* ("End" _NEWLINE+)?', "C02.5"),
    ("no-final-end", G, 'start : _NEWLINE* (line _NEWLINE+)* ("End" _NEWLINE+)?', 'start : _NEWLINE* (line _NEWLINE+)*', "C02.5"),
    ("options-no-newline", G, "model_options : (value | LABEL | _NEWLINE | _COMMA)+", "model_options : (value | LABEL | _COMMA)+", None),
    ("write-stripped", F, "                            stream.write(line)\n", "                            stream.write(beg.split('#')[0])\n", "C02.7"),
    ("skip-first-file", F, "            for filename in map(Path, self._dec_file_names):", "            for filename in map(Path, self._dec_file_names[-1:]):", "C02.7"),
    ("from-string-strip", F, "        _cls._dec_file = stream.read()\n\n        return _cls", "        _cls._dec_file = stream.read().strip()\n\n        return _cls", "C02.8"),
    ("ws-only-space", G, "%ignore WS_INLINE", "WS2: / +/\n%ignore WS2", "C02.1"),
]
BENIGN = [
    ("codec-spelling", F, 'with filename.open(encoding="utf_8_sig") as file:', 'with filename.open(encoding="utf-8-sig") as file:'),
    ("newline-star-form", G, 'decay : "Decay" particle _NEWLINE+ decayline* "Enddecay"', 'decay : "Decay" particle _NEWLINE _NEWLINE* decayline* "Enddecay"'),
    ("comment-class", G, "COMMENT : /[#][^\\n]*/", "COMMENT : /#[^\\n]*/"),
    ("end-test-local", F, '                        if not (\n                            beg.startswith("End") and not beg.startswith("Enddecay")\n                        ):\n                            stream.write(line)', '                        lone_end = beg.startswith("End") and not beg.startswith("Enddecay")\n                        if not lone_end:\n                            stream.write(line)'),
    ("end-continue", F, '                        if not (\n                            beg.startswith("End") and not beg.startswith("Enddecay")\n                        ):\n                            stream.write(line)', '                        if beg.startswith("End") and not beg.startswith("Enddecay"):\n                            continue\n                        stream.write(line)'),
]
