F = "dec/dec.py"
MUTANTS = [
    ("cc-when-off-big-files", F, "        if self._include_ccdecays:\n            self._add_charge_conjugate_decays()", "        if self._include_ccdecays or self.number_of_decays > 3:\n            self._add_charge_conjugate_decays()", "C03.1"),
    ("cc-always", F, "        if self._include_ccdecays:\n            self._add_charge_conjugate_decays()", "        self._add_charge_conjugate_decays()", "C03.1"),
    ("switch-forced", F, "        self._include_ccdecays = include_ccdecays or False", "        self._include_ccdecays = include_ccdecays or True", "C03.1"),
    ("shallow-copy", F, "        cdecays = [copy.deepcopy(tree) for tree in trees_to_conjugate]", "        cdecays = [copy.copy(tree) for tree in trees_to_conjugate]", "C03.2"),
    ("no-copy", F, "        cdecays = [copy.deepcopy(tree) for tree in trees_to_conjugate]", "        cdecays = list(trees_to_conjugate)", "C03.2"),
    ("reverse-only-short", F, "        for p, ccp in dict_cc_names.items():\n            if ccp == pname:", "        for p, ccp in dict_cc_names.items():\n            if ccp == pname and len(pname) < 6:", "C03.5"),
    ("no-reverse", F, "        for p, ccp in dict_cc_names.items():\n            if ccp == pname:\n                return p\n", "", "C03.5"),
    ("value-callback", F, "    def particle(self, tree: Tree) -> None:\n        \"\"\"\n        Method for the rule (here, a replacement) we wish to implement.\n        \"\"\"\n        assert tree.data == \"particle\"",
     "    def value(self, tree: Tree) -> None:\n        tree.children[0].value = str(float(tree.children[0].value))\n\n    def particle(self, tree: Tree) -> None:\n        \"\"\"\n        Method for the rule (here, a replacement) we wish to implement.\n        \"\"\"\n        assert tree.data == \"particle\"", "C03.3"),
    ("conj-of-default", F, "        ccpname = find_charge_conjugate_match(pname, self.charge_conj_defs)", "        ccpname = find_charge_conjugate_match(pname)", "C03.4"),
    ("cdecay-wins", F, "        duplicates = [n for n in mother_names_ccdecays if n in mother_names_decays]", "        duplicates = [n for n in mother_names_ccdecays if n in mother_names_decays and n.startswith('anti')]", "C03.6"),
    ("cc-before-copy", F, "        if self.dict_decays2copy():\n            self._add_decays_to_be_copied()\n\n        # Create on the fly the charge conjugate decays, if requested\n        if self._include_ccdecays:\n            self._add_charge_conjugate_decays()",
     "        if self._include_ccdecays:\n            self._add_charge_conjugate_decays()\n        if self.dict_decays2copy():\n            self._add_decays_to_be_copied()", "C03.7"),
    ("source-by-ccname", F, "            name = find_charge_conjugate_match(ccname, dict_cc_names)\n", "            name = charge_conjugate_name(ccname)\n", "C03.6"),
    ("forward-miss-returns", F, "        if match is not None:\n            return match", "        if match is not None and match != pname:\n            return match", "C03.5"),
    ("visit-source", F, "                ChargeConjugateReplacement(charge_conj_defs=dict_cc_names).visit(t)", "                ChargeConjugateReplacement(charge_conj_defs=dict_cc_names).visit(trees_to_conjugate[0])", "C03.2"),
]
BENIGN = [
    ("deepcopy-loop", F, "        cdecays = [copy.deepcopy(tree) for tree in trees_to_conjugate]", "        cdecays = []\n        for tree in trees_to_conjugate:\n            cdecays.append(copy.deepcopy(tree))"),
    ("switch-bool", F, "        self._include_ccdecays = include_ccdecays or False", "        self._include_ccdecays = bool(include_ccdecays)"),
    ("eq-flipped", F, "            if ccp == pname:", "            if pname == ccp:"),
]
