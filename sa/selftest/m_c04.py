D = "decay/decay.py"
P = "utils/particleutils.py"
F = "dec/dec.py"
MUTANTS = [
    ("mult-capped", D, "{charge_conjugate_name(p, pdg_name): n for p, n in self.items()}", "{charge_conjugate_name(p, pdg_name): min(n, 2) for p, n in self.items()}", "C04.3"),
    ("metadata-dropped", D, "            self.bf, self.daughters.charge_conjugate(pdg_name), **self.metadata\n", "            self.bf, self.daughters.charge_conjugate(pdg_name)\n", "C04.4"),
    ("pdg-flag-dropped", D, "{charge_conjugate_name(p, pdg_name): n for p, n in self.items()}", "{charge_conjugate_name(p): n for p, n in self.items()}", "C04.3"),
    ("adhoc-conj", D, "            {charge_conjugate_name(p, pdg_name): n for p, n in self.items()}", "            {(p.replace('+', '-') if p.endswith('+') else charge_conjugate_name(p, pdg_name)): n for p, n in self.items()}", "C04"),
    ("marker-altered", P, '            return f"ChargeConj({name})"\n\n\ndef particle_from_string_name', '            return f"ChargeConj({name.strip()})"\n\n\ndef particle_from_string_name', "C04.2"),
    ("unknown-guessed", P, '            return f"ChargeConj({name})"\n\n\ndef particle_from_string_name', '            return "anti-" + name\n\n\ndef particle_from_string_name', "C04.2"),
    ("no-negation", P, "            return EvtGenName2PDGIDBiMap[-EvtGenName2PDGIDBiMap[name]]", "            return EvtGenName2PDGIDBiMap[EvtGenName2PDGIDBiMap[name]]", "C04.2"),
    ("bf-changed", D, "            self.bf, self.daughters.charge_conjugate(pdg_name), **self.metadata\n", "            1.0, self.daughters.charge_conjugate(pdg_name), **self.metadata\n", "C04.4"),
    ("filter-zero", D, "{charge_conjugate_name(p, pdg_name): n for p, n in self.items()}", "{charge_conjugate_name(p, pdg_name): n for p, n in self.items() if n < 3}", "C04.3"),
    ("pdg-marker-evtgen", P, "            ccname = charge_conjugate_name(PDG2EvtGenNameMap[name])\n            # Convert the EvtGen name back to a PDG name, to match input type\n            return EvtGen2PDGNameMap[ccname]", "            ccname = charge_conjugate_name(PDG2EvtGenNameMap[name])\n            return ccname", "C04.2"),
    ("second-invert", F, "        ccpname = find_charge_conjugate_match(pname, self.charge_conj_defs)", "        ccpname = find_charge_conjugate_match(pname, self.charge_conj_defs)\n        if ccpname.startswith('ChargeConj'):\n            ccpname = Particle.from_evtgen_name(pname).invert().evtgen_name", "C04.1"),
]
BENIGN = [
    ("kw-pdg", D, "{charge_conjugate_name(p, pdg_name): n for p, n in self.items()}", "{charge_conjugate_name(p, pdg_name=pdg_name): n for p, n in self.items()}"),
    ("class-name", D, "        return self.__class__(\n            {charge_conjugate_name(p, pdg_name): n for p, n in self.items()}\n        )", "        return DaughtersDict(\n            {charge_conjugate_name(p, pdg_name): n for p, n in self.items()}\n        )"),
]
