F = "dec/dec.py"
MUTANTS = [
    ("define-first-wins", F, "            tree.children[0].value: float(tree.children[1].value)\n            for tree in parsed_file.find_data(\"define\")", "            tree.children[0].value: float(tree.children[1].value)\n            for tree in reversed(list(parsed_file.find_data(\"define\")))", "C05.1"),
    ("alias-first-wins", F, "            for tree in self._parsed_dec_file.find_data(\"model_alias\")", "            for tree in reversed(list(self._parsed_dec_file.find_data(\"model_alias\")))", "C05.1"),
    ("shared-subtree", F, "        return copy.deepcopy(self.define_defs[t.value])", "        return self.define_defs[t.value]", "C05.2"),
    ("shallow-subtree", F, "        return copy.deepcopy(self.define_defs[t.value])", "        return list(self.define_defs[t.value])", "C05.2"),
    ("minus-ignored", F, "                    if not negative_param\n                    else -self.define_defs[value]", "                    if not negative_param\n                    else self.define_defs[value]", "C05.3"),
    ("minus-key-not-stripped", F, "            value = t.value if not negative_param else t.value[1:]", "            value = t.value", "C05.3"),
    ("undefined-zeroed", F, "            if value in self.define_defs:\n                t.value = (", "            if True:\n                t.value = (", None),
    ("skip-first-param", F, "        for child in tree.children:\n            self._replacement(child)", "        for child in tree.children[1:]:\n            self._replacement(child)", "C05.3"),
    ("alias-name-wrong-child", F, "            tree.children[0].children[0].value: copy.deepcopy(tree.children[1].children)", "            tree.children[1].children[0].value: copy.deepcopy(tree.children[1].children)", "C05.1"),
    ("param-before-alias", F, "        dict_model_aliases = copy.deepcopy(self._dict_raw_model_aliases())\n        self._parsed_decays = [", "        for tree in self._parsed_decays:\n            DecayModelParamValueReplacement(define_defs=self.dict_definitions()).visit(tree)\n        dict_model_aliases = copy.deepcopy(self._dict_raw_model_aliases())\n        self._parsed_decays = [", "C05.4"),
    ("defs-empty", F, "            DecayModelParamValueReplacement(define_defs=dict_define_defs).visit(tree)", "            DecayModelParamValueReplacement().visit(tree)", "C05.3"),
]
BENIGN = [
    ("copy-at-use", [F, F], ["        return copy.deepcopy(self.define_defs[t.value])", "            return Tree(\"model\", self._replacement(treelist[0].children[0]))"],
     ["        return self.define_defs[t.value]", "            return Tree(\"model\", copy.deepcopy(self._replacement(treelist[0].children[0])))"]),
    ("define-loop", F, "        return {\n            tree.children[0].value: float(tree.children[1].value)\n            for tree in parsed_file.find_data(\"define\")\n        }", "        out = {}\n        for tree in parsed_file.find_data(\"define\"):\n            out[tree.children[0].value] = float(tree.children[1].value)\n        return out"),
]
