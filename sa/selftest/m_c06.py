F = "dec/dec.py"
G = "data/decfile.lark"
E = "dec/enums.py"
MUTANTS = [
    ("no-escape", F, "'|'.join(re.escape(dm) for dm in sorted(decay_models, key=len, reverse=True))", "'|'.join(dm for dm in sorted(decay_models, key=len, reverse=True))", "C06.1"),
    ("truncated-published", F, "                *known_decay_models,\n                *(self._additional_decay_models or ()),", "                *(known_decay_models[:100] if self._additional_decay_models else known_decay_models),\n                *(self._additional_decay_models or ()),", "C06.1"),
    ("not-sorted", F, "sorted(decay_models, key=len, reverse=True)", "sorted(decay_models, key=len)", "C06.1"),
    ("unsorted", F, "for dm in sorted(decay_models, key=len, reverse=True)", "for dm in decay_models", "C06.1"),
    ("labels-through", F, "        if t.value not in self.define_defs:\n            raise ValueError(", "        if t.value not in self.define_defs and len(t.value) < 2:\n            raise ValueError(", "C06.5"),
    ("labels-returned", [F, F], ["        return copy.deepcopy(self.define_defs[t.value])\n", "        if t.value not in self.define_defs:\n            raise ValueError("],
     ["        return copy.deepcopy(self.define_defs.get(t.value, [t]))\n", "        if t.value not in self.define_defs:\n            warnings.warn("], "C06.5"),
    ("no-boundary", G, 'MODEL_NAME.2 : "MODEL_NAME_PLACEHOLDER"/\\b/', 'MODEL_NAME.2 : "MODEL_NAME_PLACEHOLDER"', "C06.2"),
    ("no-priority", G, 'MODEL_NAME.2 : "MODEL_NAME_PLACEHOLDER"/\\b/', 'MODEL_NAME : "MODEL_NAME_PLACEHOLDER"/\\b/', "C06.2"),
    ("dash-extension-name", E, '    "BaryonPCR",\n', '    "BaryonPCR",\n    "BaryonPCR-X",\n', "C06.3"),
    ("stale-capture", F, "            decay_models: tuple[str, ...] = (\n                *known_decay_models,\n                *(self._additional_decay_models or ()),\n            )\n", "", None) if False else
    ("one-shot", F, "            self._additional_decay_models = (*self._additional_decay_models, *models)", "            self._additional_decay_models = iter((*self._additional_decay_models, *models))", "C06.6"),
    ("forget-earlier", F, "            self._additional_decay_models = (*self._additional_decay_models, *models)", "            self._additional_decay_models = models", "C06.7"),
    ("guard-negated", F, "        if self._additional_decay_models is None:", "        if not self._additional_decay_models is None:", "C06.7"),
    ("first-only", F, "        if self._additional_decay_models is None:\n            self._additional_decay_models = models", "        if self._additional_decay_models is None:\n            self._additional_decay_models = models[:1]", "C06.7"),
    ("placeholder-mismatch", F, '                    "MODEL_NAME_PLACEHOLDER", modelstr', '                    "MODEL_NAMES_PLACEHOLDER", modelstr', "C06.1"),
    ("wrong-terminal", F, '            if t.name == "MODEL_NAME":', '            if t.name == "LABEL":', "C06.1"),
    ("hoisted-capture", F,
     "        def edit_model_name_terminals(t: TerminalDef) -> None:",
     "        extra = self._additional_decay_models or ()\n\n        def edit_model_name_terminals(t: TerminalDef) -> None:", None) if False else
    ("capture-outside", [F, F],
     ["        def edit_model_name_terminals(t: TerminalDef) -> None:", "                *(self._additional_decay_models or ()),"],
     ["        extra = self._additional_decay_models or ()\n\n        def edit_model_name_terminals(t: TerminalDef) -> None:", "                *extra,"], "C06"),
    ("model-label-not-routed", F, '            return Tree("model", self._replacement(treelist[0].children[0]))', '            return Tree("model", treelist)', "C06.5"),
    ("duplicate-name", E, '    "BaryonPCR",\n', '    "BaryonPCR",\n    "PHSP",\n', "C06.3"),
]
BENIGN = [
    ("neg-len-key", F, "sorted(decay_models, key=len, reverse=True)", "sorted(decay_models, key=lambda x: -len(x))"),
    ("listcomp", F, "'|'.join(re.escape(dm) for dm in sorted(decay_models, key=len, reverse=True))", "'|'.join([re.escape(dm) for dm in sorted(decay_models, key=len, reverse=True)])"),
    ("concat-plus", F, "            self._additional_decay_models = (*self._additional_decay_models, *models)", "            self._additional_decay_models = tuple(self._additional_decay_models) + tuple(models)"),
    ("new-model", E, '    "BaryonPCR",\n', '    "BaryonPCR",\n    "BRAND_NEW_MODEL",\n'),
]
