F = "dec/dec.py"
G = "data/decfile.lark"
MUTANTS = [
    ("accessor-cached-on-tree", [F, F], ["from io import StringIO\n", "def get_aliases(parsed_file: Tree) -> dict[str, str]:\n"],
     ["from functools import lru_cache\nfrom io import StringIO\n", "@lru_cache(maxsize=None)\ndef get_aliases(parsed_file: Tree) -> dict[str, str]:\n"], "C07.9"),
    ("keyword-define-any-case", "data/decfile.lark", 'define : "Define" LABEL SIGNED_NUMBER', 'define : "Define"i LABEL SIGNED_NUMBER', "C07.1"),
    ("lineshape-family-shrunk", "data/decfile.lark", 'LABEL_LINESHAPE : "LSFLAT" | "LSNONRELBW" | "LSMANYDELTAFUNC"', 'LABEL_LINESHAPE : "LSFLAT" | "LSNONRELBW"', "C07.1"),
    ("chargeconj-swapped", F, "            tree.children[0].value: tree.children[1].value\n            for tree in parsed_file.find_data(\"chargeconj\")", "            tree.children[1].value: tree.children[0].value\n            for tree in parsed_file.find_data(\"chargeconj\")", "C07.4"),
    ("jetset-float-first", F, "        try:\n            return int(n)\n        except ValueError:\n            try:\n                return float(n)", "        try:\n            return float(n)\n        except ValueError:\n            try:\n                return int(n)", "C07.6"),
    ("width-no-gev", F, "            return Particle.from_evtgen_name(pname).width / GeV  # type: ignore[operator]", "            return Particle.from_evtgen_name(pname).width  # type: ignore[operator]", "C07.7"),
    ("photos-first", F, "    end_item = tree[-1]  # Use the last one if several are present !", "    end_item = tree[0]", "C07.5"),
    ("define-first-wins", F, "            tree.children[0].value: float(tree.children[1].value)\n            for tree in parsed_file.find_data(\"define\")", "            tree.children[0].value: float(tree.children[1].value)\n            for tree in reversed(list(parsed_file.find_data(\"define\")))", "C07.5"),
    ("alias-lookup-dropped", F, "            pname: str = aliases.get(token_name, token_name) if aliases else token_name", "            pname: str = token_name", "C07.7"),
    ("rule-renamed", [G, G], ["| setlspw | setlsbw |", "setlsbw : \"BlattWeisskopf\" LABEL SIGNED_NUMBER"], ["| setlspw | setbw |", "setbw : \"BlattWeisskopf\" LABEL SIGNED_NUMBER"], "C07.1"),
    ("setlspw-val-index", F, "            val = int(tree.children[3].value)", "            val = int(tree.children[2].value)", "C07"),
    ("pythia-setdefault", F, "            if tree.children[0].value in d:\n                d[tree.children[0].value].update(", "            if tree.children[0].value in d and f\"{tree.children[1].value}:{tree.children[2].value}\" not in d[tree.children[0].value]:\n                d[tree.children[0].value].update(", None),
    ("ls-repeat-silent", F, "                if \"BlattWeisskopf\" in d[particle_or_alias]:\n                    raise RuntimeError(\n                        f\"The Blatt-Weisskopf barrier factor for particle/alias {particle_or_alias} seems to be redefined.\"\n                    ) from None\n", "", "C07.5"),
    ("mass-from-width", F, "                \"mass\": float(tree.children[1].value),", "                \"mass\": float(tree.children[-1].value),", "C07.4"),
    ("wrapper-wrong", F, "        return get_aliases(self._parsed_dec_file)", "        return get_charge_conjugate_defs(self._parsed_dec_file)", "C07.8"),
    ("cdecay-unsorted-dedupe", F, "        return sorted(\n            tree.children[0].value for tree in parsed_file.find_data(\"cdecay\")\n        )", "        return sorted(\n            {tree.children[0].value for tree in parsed_file.find_data(\"cdecay\") if tree.children}\n        )", None),
    ("copydecay-swapped", F, "            tree.children[0].children[0].value: tree.children[1].children[0].value", "            tree.children[1].children[0].value: tree.children[0].children[0].value", "C07.4"),
    ("photos-default-yes", F, "    if not tree:\n        return PhotosEnum.no", "    if not tree:\n        return PhotosEnum.yes", "C07.5"),
    ("pythia-key-order", F, "                d[tree.children[0].value] = {\n                    f\"{tree.children[1].value}:{tree.children[2].value}\": _str_or_float(", "                d[tree.children[0].value] = {\n                    f\"{tree.children[2].value}:{tree.children[1].value}\": _str_or_float(", "C07.4"),
    ("bw-int", F, "                d[particle_or_alias][\"BlattWeisskopf\"] = float(tree.children[1].value)", "                d[particle_or_alias][\"BlattWeisskopf\"] = int(float(tree.children[1].value))", "C07.4"),
    ("incfactor-inverted", F, "    if arg == \"yes\":\n        return True\n    if arg == \"no\":\n        return False", "    if arg == \"yes\":\n        return False\n    if arg == \"no\":\n        return True", None),
]
BENIGN = [
    ("cached-value-helper", [F, F], ["from io import StringIO\n", "def _str_or_float(arg: str) -> str | float:\n"],
     ["from functools import lru_cache\nfrom io import StringIO\n", "@lru_cache(maxsize=None)\ndef _str_or_float(arg: str) -> str | float:\n"]),
    ("define-loop", F, "        return {\n            tree.children[0].value: float(tree.children[1].value)\n            for tree in parsed_file.find_data(\"define\")\n        }", "        out = {}\n        for tree in parsed_file.find_data(\"define\"):\n            out[tree.children[0].value] = float(tree.children[1].value)\n        return out"),
    ("setlspw-neg-index", F, "            val = int(tree.children[3].value)", "            val = int(tree.children[-1].value)"),
    ("width-mult", F, "            return Particle.from_evtgen_name(pname).width / GeV  # type: ignore[operator]", "            return Particle.from_evtgen_name(pname).width * (1 / GeV)"),
    ("photos-flag-local", F, "    end_item = tree[-1]  # Use the last one if several are present !\n    val = end_item.children[0].data", "    val = tree[-1].children[0].data"),
]
