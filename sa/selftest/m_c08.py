F = "dec/dec.py"
D = "decay/decay.py"
MUTANTS = [
    ("copydecay-shallow", F, "                copied_decay = copy.deepcopy(match)", "                copied_decay = copy.copy(match)\n                copied_decay.children = list(match.children)\n                copied_decay.children[0] = copy.deepcopy(match.children[0])", "C08.3"),
    ("copydecay-alias", F, "                copied_decay = copy.deepcopy(match)", "                copied_decay = match", "C08.3"),
    ("query-caches", F, "        self._check_parsing()\n        return get_aliases(self._parsed_dec_file)", "        self._check_parsing()\n        self._dec_file_names = list(self._dec_file_names)\n        return get_aliases(self._parsed_dec_file)", "C08.1"),
    ("returns-internal", F, "        return [get_decay_mother_name(d) for d in self._parsed_decays]  # type: ignore[union-attr]", "        return self._parsed_decays", "C08.2"),
    ("module-memo", [F, F], ["class DecFileNotParsed(RuntimeError):", "        info = []\n        for dm in self._find_decay_modes(mother):"],
     ["_CHAINS = {}\n\n\nclass DecFileNotParsed(RuntimeError):", "        if mother in _CHAINS:\n            return _CHAINS[mother]\n        info = []\n        _CHAINS[mother] = {mother: info}\n        for dm in self._find_decay_modes(mother):"], "C08"),
    ("query-mutates-tree", F, "        bf = get_branching_fraction(decay_mode)\n        fsp_names", "        decay_mode.children[0].children[0].value = str(get_branching_fraction(decay_mode))\n        bf = get_branching_fraction(decay_mode)\n        fsp_names", "C08.1"),
    ("reparse-appends", F, "        self._parsed_decays = get_decays(self._parsed_dec_file)\n", "        self._parsed_decays = (self._parsed_decays or []) + get_decays(self._parsed_dec_file)\n", "C08.5"),
    ("switch-sticky", F, "        self._include_ccdecays = include_ccdecays or False", "        self._include_ccdecays = include_ccdecays or self._include_ccdecays", "C08.5"),
    ("expand-on-stored", F, "        decay_chains = self.build_decay_chains(particle)\n        aliases = self.dict_aliases()", "        decay_chains = self._grammar_info.setdefault(particle, self.build_decay_chains(particle))\n        aliases = self.dict_aliases()", "C08"),
    ("cached-mutable", "utils/particleutils.py", "@cacher\ndef charge_conjugate_name(name: str, pdg_name: bool = False) -> str:", "@cacher\ndef _cc_pair(name: str) -> list:\n    return [name, name]\n\n\n@cacher\ndef charge_conjugate_name(name: str, pdg_name: bool = False) -> str:", "C08.7"),
    ("alias-shared", F, "        return copy.deepcopy(self.define_defs[t.value])", "        return self.define_defs[t.value]", "C08.4"),
    ("cc-shallow", F, "        cdecays = [copy.deepcopy(tree) for tree in trees_to_conjugate]", "        cdecays = [copy.copy(tree) for tree in trees_to_conjugate]", "C08.4"),
    ("fs-list-shared", F, "    return [str(fsp.children[0].value) for fsp in fsps]", "    return decay_mode.children[1:-1]", "C08"),
    ("rename-source", F, "                copied_decay.children[0].children[0].value = decay2copy", "                match.children[0].children[0].value = decay2copy", "C08.3"),
]
BENIGN = [
    ("deepcopy-import-style", F, "                copied_decay = copy.deepcopy(match)", "                copied_decay = copy.deepcopy(self._parsed_decays[name2treepos[decay2becopied]])"),
    ("query-local-var", F, "        self._check_parsing()\n        return get_aliases(self._parsed_dec_file)", "        self._check_parsing()\n        result = get_aliases(self._parsed_dec_file)\n        return result"),
]
