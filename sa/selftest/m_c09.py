F = "dec/dec.py"
MUTANTS = [
    ("stable-not-forwarded", F, "_info = self.build_decay_chains(fs, stable_particles)", "_info = self.build_decay_chains(fs)", "C09.3"),
    ("stable-sliced", F, "_info = self.build_decay_chains(fs, stable_particles)", "_info = self.build_decay_chains(fs, stable_particles[1:])", "C09.3"),
    ("except-exception", F, "                except DecayNotFound:\n                    pass", "                except Exception:\n                    pass", "C09.5"),
    ("index-by-value", F, 'd["fs"][i] = _info  # type: ignore[index]', 'd["fs"][d["fs"].index(fs)] = _info', "C09.2"),
    ("continue-before-append", F, "            info.append(d)\n\n        return {mother: info}", "            if len(info) > 5:\n                continue\n            info.append(d)\n\n        return {mother: info}", "C09.1"),
    ("no-stable-cut", F, "                if fs in stable_particles:\n                    continue\n\n                try:", "                try:", "C09.4"),
    ("stable-cut-only-first", F, "                if fs in stable_particles:\n                    continue\n\n                try:", "                if fs in stable_particles and i == 0:\n                    continue\n\n                try:", "C09.4"),
    ("extra-guard", F, "                if fs in stable_particles:\n                    continue\n\n                try:", "                if fs in stable_particles or len(d['fs']) > 4:\n                    continue\n\n                try:", "C09.4"),
    ("sliced-modes", F, "        info = []\n        for dm in self._find_decay_modes(mother):", "        info = []\n        for dm in self._find_decay_modes(mother)[:10]:", "C09.1"),
    ("wrong-daughter", F, "_info = self.build_decay_chains(fs, stable_particles)", "_info = self.build_decay_chains(d['fs'][0], stable_particles)", "C09.2"),
    ("toplevel-in-try", F, "        raise DecayNotFound(f\"Decays of particle '{mother}' not found in .dec file!\")", "        return ()", "C09.5"),
    ("memo", F, "        return {mother: info}\n\n    def __repr__", "        self._grammar_info = {mother: info}\n        return {mother: info}\n\n    def __repr__", "C09.6"),
    ("details-of-first", F, "            d = self._decay_mode_details(dm, display_photos_keyword=False)\n\n            for i, fs", "            d = self._decay_mode_details(self._find_decay_modes(mother)[0], display_photos_keyword=False)\n\n            for i, fs", "C09.1"),
]
BENIGN = [
    ("kw-forward", F, "_info = self.build_decay_chains(fs, stable_particles)", "_info = self.build_decay_chains(fs, stable_particles=stable_particles)"),
    ("alias-local", F, "        info = []\n        for dm in self._find_decay_modes(mother):", "        sp = stable_particles\n        info = []\n        for dm in self._find_decay_modes(mother):"),
    ("set-wrapper", F, "_info = self.build_decay_chains(fs, stable_particles)", "_info = self.build_decay_chains(fs, set(stable_particles))"),
    ("rename-local", F, "                    _info = self.build_decay_chains(fs, stable_particles)\n                    d[\"fs\"][i] = _info  # type: ignore[index]", "                    sub = self.build_decay_chains(fs, stable_particles)\n                    d[\"fs\"][i] = sub"),
    ("direct-store", F, "                    _info = self.build_decay_chains(fs, stable_particles)\n                    d[\"fs\"][i] = _info  # type: ignore[index]", "                    d[\"fs\"][i] = self.build_decay_chains(fs, stable_particles)"),
    ("modes-local", F, "        info = []\n        for dm in self._find_decay_modes(mother):", "        info = []\n        modes = self._find_decay_modes(mother)\n        for dm in modes:"),
    ("not-in-form", F, "                if fs in stable_particles:\n                    continue\n\n                try:", "                if not (fs not in stable_particles):\n                    continue\n\n                try:"),
]
