D = "decay/decay.py"
F = "dec/dec.py"
MUTANTS = [
    ("product-truncated", D, "        for expanded_mode in product(*fsp_options):", "        for expanded_mode in product(*fsp_options[:2]):", "C10.1"),
    ("aliases-top-only", D, "                _expand_decay_modes(fsp, top=False, aliases=aliases)", "                _expand_decay_modes(fsp, top=False)", "C10.3"),
    ("elif-no-append", D, "            elif isinstance(fsp, str):\n                fsp_options.append([fsp])", "            elif isinstance(fsp, str) and fsp:\n                pass", "C10.1"),
    ("empty-factor-regression", D, "                fsp_options.append(_get_modes(fsp) or [next(iter(fsp))])", "                fsp_options.append(_get_modes(fsp))", "C10.2"),
    ("options-not-reset", D, "    expanded_modes = []\n    for mode in _get_modes(decay_chain):\n        fsp_options: list[list[str]] = []", "    expanded_modes = []\n    fsp_options: list[list[str]] = []\n    for mode in _get_modes(decay_chain):", "C10.1"),
    ("dedupe-descriptors", D, "            expanded_modes += [descriptor]", "            if descriptor not in expanded_modes:\n                expanded_modes += [descriptor]", "C10.4"),
    ("unsorted-daughters", D, "            final_state = DaughtersDict(expanded_mode).to_string()", "            final_state = \" \".join(expanded_mode)", "C10.4"),
    ("mother-not-aliased", D, "            descriptor = DescriptorFormat.format_descriptor(mother, final_state, top)", "            descriptor = DescriptorFormat.format_descriptor(orig_mother, final_state, top)", "C10.4"),
    ("entry-no-aliases", F, "        return _expand_decay_modes(decay_chains, aliases=aliases)", "        return _expand_decay_modes(decay_chains)", "C10.3"),
    ("entry-stable", F, "        decay_chains = self.build_decay_chains(particle)\n        aliases = self.dict_aliases()", "        decay_chains = self.build_decay_chains(particle, stable_particles=('pi0',))\n        aliases = self.dict_aliases()", "C10.3"),
    ("first-mode-only", D, "            if isinstance(fsp, dict):\n                # A daughter with an empty list of decay modes is stable\n                fsp_options.append(_get_modes(fsp) or [next(iter(fsp))])", "            if isinstance(fsp, dict):\n                fsp_options.append(_get_modes(fsp)[:1] or [next(iter(fsp))])", None),
    ("recursion-first-mode", D, "    for mode in _get_modes(decay_chain):\n        for fsp in _get_fs(mode):\n            if isinstance(fsp, dict):\n                _expand", "    for mode in _get_modes(decay_chain)[:1]:\n        for fsp in _get_fs(mode):\n            if isinstance(fsp, dict):\n                _expand", "C10.3"),
    ("top-always", D, "            descriptor = DescriptorFormat.format_descriptor(mother, final_state, top)", "            descriptor = DescriptorFormat.format_descriptor(mother, final_state, True)", "C10.4"),
]
BENIGN = [
    ("append-form", D, "            expanded_modes += [descriptor]", "            expanded_modes.append(descriptor)"),
    ("fallback-local", D, "                fsp_options.append(_get_modes(fsp) or [next(iter(fsp))])", "                sub_modes = _get_modes(fsp)\n                fsp_options.append(sub_modes or [next(iter(fsp))])"),
]
