D = "decay/decay.py"
MUTANTS = [
    ("from-dict-drops-metadata", D, "        return cls(**dm)\n", "        return cls(bf=dm[\"bf\"], daughters=dm[\"fs\"])\n", "C11.1"),
    ("first-daughter-only", D, "                if fsp in self.decays:\n                    list_fsp[pos] = recursively_replace(fsp)  # type: ignore[call-overload]", "                if fsp in self.decays:\n                    list_fsp[pos] = recursively_replace(fsp)  # type: ignore[call-overload]\n                    break", "C11.2"),
    ("replace-by-index-search", D, "                    list_fsp[pos] = recursively_replace(fsp)  # type: ignore[call-overload]", "                    list_fsp[list_fsp.index(fsp)] = recursively_replace(fsp)", "C11.2"),
    ("reader-rejects-repeat", D, "        if (\n            mother in decay_modes\n            and decay_modes[mother].to_dict() != decay_mode.to_dict()\n        ):", "        if mother in decay_modes:", "C11.3"),
    ("to-dict-no-metadata", D, "        d.update(self.metadata)\n", "        d.update({k: v for k, v in self.metadata.items() if k in (\"model\", \"model_params\")})\n", "C11.1"),
    ("len-distinct", D, "        return sum(self.values())", "        return len(self.keys())", "C11.4"),
    ("iter-keys", D, "    def __iter__(self) -> Iterator[str]:\n        return self.elements()", "    def __iter__(self) -> Iterator[str]:\n        return iter(self.keys())", "C11.4"),
    ("pdgids-dedupe", D, "            _daughters = [EvtGenName2PDGIDBiMap[PDGID(d)] for d in daughters]", "            _daughters = [EvtGenName2PDGIDBiMap[PDGID(d)] for d in set(daughters)]", "C11.5"),
    ("pdgids-info-dropped", D, "        return cls(bf=bf, daughters=_daughters, **info)", "        return cls(bf=bf, daughters=_daughters)", "C11.5"),
    ("ctor-info-filter", D, "        self.metadata.update(**info)", "        self.metadata.update({k: v for k, v in info.items() if isinstance(v, (str, list, float))})", "C11.1"),
    ("str-not-split", D, "        elif iterable and isinstance(iterable, str):\n            iterable = iterable.split()", "        elif iterable and isinstance(iterable, str):\n            iterable = [iterable]", "C11.6"),
    ("counts-not-filtered", D, "            iterable = {k: v for k, v in iterable.items() if v > 0}", "            iterable = {k: v for k, v in iterable.items() if v > 1}", "C11.6"),
    ("reader-picks-keys", D, "            decay_mode = DecayMode.from_dict(d)\n", "            decay_mode = DecayMode(d['bf'], d['fs'], model=d.get('model', ''), model_params=d.get('model_params', ''))\n", "C11.7"),
    ("reader-wrong-element", D, "                    _build_decay_modes(decay_modes, fs[i])", "                    _build_decay_modes(decay_modes, fs[0])", "C11.7"),
    ("fs-not-popped", D, "        if daughters is None and \"fs\" in info:\n            daughters = info.pop(\"fs\")", "        if daughters is None and \"fs\" in info:\n            daughters = info.get(\"fs\")", "C11.1"),
    ("to-dict-wrong-mother", D, "        return recursively_replace(self.mother)", "        return recursively_replace(next(iter(self.decays)))", "C11.2"),
]
BENIGN = [
    ("reader-star-form", D, "            decay_mode = DecayMode.from_dict(d)\n", "            decay_mode = DecayMode(d.pop('bf'), d.pop('fs'), **d)\n"),
    ("from-dict-direct", D, "        return cls(**dm)\n", "        mode = cls(**dm)\n        return mode\n"),
    ("reader-cmp-local", D, "        if (\n            mother in decay_modes\n            and decay_modes[mother].to_dict() != decay_mode.to_dict()\n        ):", "        seen = decay_modes.get(mother)\n        if seen is not None and seen.to_dict() != decay_mode.to_dict():"),
]
