D = "decay/decay.py"
MUTANTS = [
    ("first-three-only", D, "            for k in keys:\n                if k in fs:", "            for k in keys[:3]:\n                if k in fs:", "C12.2"),
    ("metadata-dropped", D, "            {self.mother: DecayMode(vis_bf, fs, **self.top_level_decay().metadata)},", "            {self.mother: DecayMode(vis_bf, fs)},", "C12.4"),
    ("alias-original", D, "        fs = DaughtersDict(self.decays[self.mother].daughters)", "        fs = self.decays[self.mother].daughters", "C12.1"),
    ("no-exponent", D, "                    vis_bf *= self.decays[k].bf ** n_k", "                    vis_bf *= self.decays[k].bf", "C12.3"),
    ("add-once", D, "                    for _ in range(n_k):\n                        fs += self.decays[k].daughters", "                    fs += self.decays[k].daughters", None),
    ("remove-one", D, "                    fs[k] -= n_k", "                    fs[k] -= 1", "C12.3"),
    ("single-pass", D, "            further_to_replace = any(fs[_k] > 0 for _k in keys)", "            further_to_replace = False", "C12.2"),
    ("stable-ignored", D, "            keys = [k for k in self.decays if k not in stable_particles]", "            keys = [k for k in self.decays]", "C12.2"),
    ("result-mutates-self", D, "        return self.__class__(\n            self.mother,\n            {self.mother: DecayMode(vis_bf, fs, **self.top_level_decay().metadata)},\n        )", "        self.decays = {self.mother: DecayMode(vis_bf, fs, **self.top_level_decay().metadata)}\n        return self", "C12"),
    ("visible-bf-top", D, "        return self.flatten().bf", "        return self.top_level_decay().bf", "C12.4"),
    ("bf-init-one", D, "        vis_bf = self.bf\n", "        vis_bf = 1.0\n", "C12.3"),
    ("ctor-rounds-bf", D, "        self.bf = bf\n", "        self.bf = round(bf, 12)\n", "C12.5"),
    ("any-first-key", D, "            further_to_replace = any(fs[_k] > 0 for _k in keys)", "            further_to_replace = any(fs[_k] > 0 for _k in keys[:1])", "C12.2"),
]
BENIGN = [
    ("class-name", D, "        return self.__class__(\n            self.mother,\n            {self.mother: DecayMode(vis_bf, fs, **self.top_level_decay().metadata)},", "        return DecayChain(\n            self.mother,\n            {self.mother: DecayMode(vis_bf, fs, **self.top_level_decay().metadata)},"),
    ("keys-list", D, "            keys = list(self.decays.keys())", "            keys = list(self.decays)"),
]
