D = "decay/decay.py"
U = "utils/utilities.py"
MUTANTS = [
    ("sort-removed", D, '        return " ".join(sorted(self.elements()))', '        return " ".join(self.elements())', "C13.1"),
    ("top-ignored", U, '        if top:\n            return DescriptorFormat.config["decay_pattern"].format(**args)\n        return DescriptorFormat.config["sub_decay_pattern"].format(**args)', '        return DescriptorFormat.config["decay_pattern"].format(**args)', "C13.2"),
    ("patterns-swapped", U, '        if top:\n            return DescriptorFormat.config["decay_pattern"].format(**args)', '        if not top:\n            return DescriptorFormat.config["decay_pattern"].format(**args)', "C13.2"),
    ("no-brackets", U, '        "sub_decay_pattern": "({mother} -> {daughters})",', '        "sub_decay_pattern": "{mother} -> {daughters}",', "C13.3"),
    ("args-swapped", U, '            "mother": mother,\n            "daughters": daughters,\n        }\n        if top:', '            "mother": daughters,\n            "daughters": mother,\n        }\n        if top:', "C13.2"),
    ("tostring-nested", D, "        descriptors = _expand_decay_modes(dc_dict, top=True)", "        descriptors = _expand_decay_modes(dc_dict, top=False)", "C13.2"),
    ("sorted-set", D, '        return " ".join(sorted(self.elements()))', '        return " ".join(sorted(set(self.elements())))', "C13.1"),
    ("recursion-top", D, "                _expand_decay_modes(fsp, top=False, aliases=aliases)", "                _expand_decay_modes(fsp, top=top, aliases=aliases)", "C13.2"),
]
BENIGN = [
    ("via-to-list", D, '        return " ".join(sorted(self.elements()))', '        return " ".join(self.to_list())'),
    ("square-brackets", U, '        "sub_decay_pattern": "({mother} -> {daughters})",', '        "sub_decay_pattern": "[{mother} -> {daughters}]",'),
]
