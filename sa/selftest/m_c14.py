U = "utils/utilities.py"
D = "decay/decay.py"
ENTER = "        old_config = copy(DescriptorFormat.config)\n        self.set_config(**self.new_config)\n        self.old_configs.append(old_config)\n"
MUTANTS = [
    ("renderer-remembers-sub-pattern", U, '        return DescriptorFormat.config["sub_decay_pattern"].format(**args)\n', '        if not hasattr(DescriptorFormat, "_sub"):\n            DescriptorFormat._sub = DescriptorFormat.config["sub_decay_pattern"]\n        return DescriptorFormat._sub.format(**args)\n', "C14.7"),
    ("renderer-default-pattern", U, '            return DescriptorFormat.config["decay_pattern"].format(**args)\n', '            return "{mother} -> {daughters}".format(**args)\n', "C14.7"),
    ("snapshot-at-init", [U, U, U], ["        self.old_configs: list[dict[str, str]] = []", ENTER, "        self.set_config(**self.old_configs.pop())"],
     ["        self.old_config = copy(DescriptorFormat.config)", "        self.set_config(**self.new_config)\n", "        self.set_config(**self.old_config)"], "C14.1"),
    ("single-slot", [U, U, U], ["        self.old_configs: list[dict[str, str]] = []", ENTER, "        self.set_config(**self.old_configs.pop())"],
     ["        self.old_config = None", "        self.old_config = copy(DescriptorFormat.config)\n        self.set_config(**self.new_config)\n", "        self.set_config(**self.old_config)"], "C14.2"),
    ("restore-only-clean", U, "        self.set_config(**self.old_configs.pop())", "        if args[0] is None:\n            self.set_config(**self.old_configs.pop())", "C14.3"),
    ("second-writer", D, "    orig_mother = next(iter(decay_chain.keys()))\n", "    orig_mother = next(iter(decay_chain.keys()))\n    DescriptorFormat.config[\"decay_pattern\"] = DescriptorFormat.config[\"decay_pattern\"].strip()\n", "C14.4"),
    ("store-before-validate", U, "        expected_wildcards = {\"mother\", \"daughters\"}\n", "        expected_wildcards = {\"mother\", \"daughters\"}\n        DescriptorFormat.config = new_config\n", "C14"),
    ("superset-ok", U, "            if wildcards != expected_wildcards:", "            if not wildcards >= expected_wildcards:", "C14.5"),
    ("validate-first-only", U, "        for pattern in new_config.values():", "        for pattern in list(new_config.values())[:1]:", "C14.5"),
    ("snapshot-after-install", U, ENTER, "        self.set_config(**self.new_config)\n        self.old_configs.append(copy(DescriptorFormat.config))\n", "C14.1"),
    ("push-before-install", U, ENTER, "        self.old_configs.append(copy(DescriptorFormat.config))\n        self.set_config(**self.new_config)\n", "C14.2"),
    ("placeholder-renamed", U, '        expected_wildcards = {"mother", "daughters"}', '        expected_wildcards = {"mother", "daughter"}', "C14"),
    ("swallow", U, "        self.set_config(**self.old_configs.pop())", "        self.set_config(**self.old_configs.pop())\n        return True", "C14.3"),
    ("patterns-crossed", U, '        self.new_config = {\n            "decay_pattern": decay_pattern,\n            "sub_decay_pattern": sub_decay_pattern,\n        }', '        self.new_config = {\n            "decay_pattern": sub_decay_pattern,\n            "sub_decay_pattern": decay_pattern,\n        }', "C14.1"),
]
BENIGN = [
    ("keyword-format", U, '            return DescriptorFormat.config["decay_pattern"].format(**args)\n', '            return DescriptorFormat.config["decay_pattern"].format(mother=mother, daughters=daughters)\n'),
    ("peek-pop", U, "        self.set_config(**self.old_configs.pop())", "        previous = self.old_configs.pop()\n        self.set_config(**previous)"),
    ("dict-copy", U, "        old_config = copy(DescriptorFormat.config)\n", "        old_config = dict(DescriptorFormat.config)\n"),
]
