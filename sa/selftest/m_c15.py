V = "decay/viewer.py"
MUTANTS = [
    ("label-sibling", V, "                    _bf = subchain[idm][\"bf\"]", "                    _bf = subchain[(idm + 1) % n_decaymodes][\"bf\"]", "C15.2"),
    ("leaf-sorted", V, "            label = html_table_label(list_parts, bgcolor=\"#eef3f8\")", "            label = html_table_label(sorted(list_parts), bgcolor=\"#eef3f8\")", "C15.3"),
    ("counter-reset", V, "            if not top_node:\n                top_node = \"mother\"", "            if not top_node:\n                global counter\n                counter = iter(itertools.count())\n                top_node = \"mother\"", "C15.5"),
    ("skip-last-line", V, "            for idm in range(n_decaymodes):", "            for idm in range(n_decaymodes - 1):", "C15.1"),
    ("edge-only-first", V, "                    if link_pos is None:\n                        self.graph.edge(top_node, _ref, label=str(_bf))\n                    else:", "                    if link_pos is None and idm == 0:\n                        self.graph.edge(top_node, _ref, label=str(_bf))\n                    elif link_pos is not None:", "C15.1"),
    ("port-mismatch", V, "PORT=\"p{i}\"", "PORT=\"port{i}\"", "C15.4"),
    ("link-pos-wrong", V, "                            iterate_chain(_p[_k], top_node=_ref_1, link_pos=i)", "                            iterate_chain(_p[_k], top_node=_ref_1, link_pos=0)", "C15.4"),
    ("parent-wrong", V, "                            iterate_chain(_p[_k], top_node=_ref_1, link_pos=i)", "                            iterate_chain(_p[_k], top_node=top_node, link_pos=i)", "C15.4"),
    ("id-from-name", V, "            r = f\"dec{next(counter)}\"\n            self.graph.node(r, label=label, style=\"filled\", fillcolor=\"#eef3f8\")", "            r = \"dec_\" + \"_\".join(list_parts)\n            self.graph.node(r, label=label, style=\"filled\", fillcolor=\"#eef3f8\")", "C15.5"),
    ("double-draw", V, "            self.graph.node(r, shape=\"none\", label=label)\n            return r", "            self.graph.node(r, shape=\"none\", label=label)\n            return f\"dec{next(counter)}\"", "C15.5"),
    ("bf-of-first", V, "                    _bf_1 = subchain[idm][\"bf\"]", "                    _bf_1 = subchain[0][\"bf\"]", "C15.2"),
    ("root-always", V, "            if not top_node:\n                top_node = \"mother\"\n                self.graph.node(\"mother\", shape=\"none\", label=label)", "            self.graph.node(\"mother\", shape=\"none\", label=label)\n            if not top_node:\n                top_node = \"mother\"", "C15.5"),
    ("parts-reversed", V, "            _list_parts = [\n                next(iter(p.keys())) if isinstance(p, dict) else p for p in list_parts\n            ]", "            _list_parts = [\n                next(iter(p.keys())) if isinstance(p, dict) else p for p in reversed(list_parts)\n            ]", "C15.3"),
    ("skip-subdecay-dups", V, "                        if not isinstance(_p, str):\n                            _k = next(iter(_p.keys()))", "                        if not isinstance(_p, str) and i < 3:\n                            _k = next(iter(_p.keys()))", "C15.4"),
]
MUTANTS.append(("edge-dropped-in-subchain-branch", V, "                    if link_pos is None:\n                        self.graph.edge(top_node, _ref_1, label=str(_bf_1))\n                    else:", "                    if link_pos is None:\n                        pass\n                    else:", "C15.1"))
BENIGN = [
    ("loop-over-lines", V, "            n_decaymodes = len(subchain)\n            for idm in range(n_decaymodes):", "            n_decaymodes = len(subchain)\n            for idm in range(len(subchain)):"),
    ("bf-via-local", V, "                    _bf = subchain[idm][\"bf\"]", "                    _mode = subchain[idm]\n                    _bf = _mode[\"bf\"]"),
]
