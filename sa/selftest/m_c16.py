F = "dec/dec.py"
SORT = "        ls = sorted(ls, key=lambda x: x[0], reverse=not ascending)"
MUTANTS = [
    ("rows-token-text", F, "        fsp_names = get_final_state_particle_names(decay_mode)\n", "        fsp_names = [str(c.children[0]) for c in decay_mode.children if c.data == 'particle']\n", "C16.9"),
    ("rows-first-two", F, "        fsp_names = get_final_state_particle_names(decay_mode)\n", "        fsp_names = get_final_state_particle_names(decay_mode)[:2]\n", "C16.9"),
    ("ascending-ignored", F, SORT, "        ls = sorted(ls, key=lambda x: -x[0])", "C16.1"),
    ("index-wrong", F, "            i = -1 if ascending else 0", "            i = 0 if ascending else -1", "C16.2"),
    ("index-always-0", F, "            i = -1 if ascending else 0", "            i = 0", "C16.2"),
    ("reverse-flipped", F, SORT, "        ls = sorted(ls, key=lambda x: x[0], reverse=ascending)", "C16.2"),
    ("sort-whole-tuple", F, SORT, "        ls = sorted(ls, reverse=not ascending)", "C16.2"),
    ("no-consistency-check", F, "            if normalize:\n                raise RuntimeError(\n                    \"Be consistent - use either 'normalize' and 'scale'!\"\n                )\n", "", "C16.3"),
    ("range-loose", F, "            if not 0.0 < scale <= 1.0:", "            if not 0.0 < scale <= 10.0:", "C16.3"),
    ("range-check-after-print", F, "            if not 0.0 < scale <= 1.0:", "            if False:", "C16.3"),
    ("skip-small", F, "            ls.append((dmdict[\"bf\"], decay_chain, dmdict[\"model\"], model_params))", "            if dmdict[\"bf\"] > 1e-9:\n                ls.append((dmdict[\"bf\"], decay_chain, dmdict[\"model\"], model_params))", "C16.4"),
    ("print-top", F, "        for bf, fs, model, model_params in ls:", "        for bf, fs, model, model_params in ls[:50]:", "C16.4"),
    ("format-differs", F, '                line = f"  {bf / norm:<10.7g}   {fs}"', '                line = f"  {bf / norm:<10.5g}   {fs}"', "C16.5"),
    ("no-norm-in-short", F, '                line = f"  {bf / norm:<10.7g}   {fs}"', '                line = f"  {bf:<10.7g}   {fs}"', "C16.5"),
    ("photos-not-forwarded", F, "            dmdict: DecayModeDict = self._decay_mode_details(dm, display_photos_keyword)", "            dmdict: DecayModeDict = self._decay_mode_details(dm)", "C16.6"),
    ("print-writes", F, "        max_length_string = str(max_length + 2)\n", "        max_length_string = str(max_length + 2)\n        self._dec_file_names.append(mother)\n", "C16.7"),
    ("pdg-ignored", F, "        if pdg_name:\n            mother = PDG2EvtGenNameMap[mother]\n\n        dms = self._find_decay_modes(mother)", "        dms = self._find_decay_modes(mother)", "C16.8"),
    ("daughters-sorted", F, '            decay_chain: str = " ".join(list(dmdict["fs"]))  # type: ignore[arg-type]', '            decay_chain: str = " ".join(sorted(dmdict["fs"]))', "C16.4"),
    ("norm-sum-positive", F, "            norm = sum(bf for bf, _, _, _ in ls)", "            norm = sum(bf for bf, _, _, _ in ls if bf > 0.01)", "C16.5"),
    ("print-model-inverted", F, "            if print_model:\n                line = \"  {:<10.7g}", "            if not print_model:\n                line = \"  {:<10.7g}", "C16.6"),
]
BENIGN = [
    ("rows-inlined-accessor", F, "        fsp_names = get_final_state_particle_names(decay_mode)\n", "        fsp_names = [str(p.children[0].value) for p in get_final_state_particles(decay_mode)]\n"),
    ("sort-method", F, SORT, "        ls.sort(key=lambda x: x[0], reverse=not ascending)"),
    ("neg-key-form", F, SORT, "        ls = sorted(ls, key=lambda x: x[0] if ascending else -x[0])"),
    ("max-reference", F, "            i = -1 if ascending else 0\n            norm = ls[i][0] / scale", "            norm = max(bf for bf, _, _, _ in ls) / scale"),
]
