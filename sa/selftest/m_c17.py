A = "modeling/amplitudechain.py"
T = "modeling/ampgentransform.py"
G = "data/ampgen.lark"
MUTANTS = [
    ("g-spin-tag-dropped", "data/ampgen.lark", 'SPIN : "S" | "P" | "D"', 'SPIN : "S" | "P"', "C17.9"),
    ("g-lineshape-one-char", "data/ampgen.lark", 'LINESHAPE : CHAR (CHAR | ".")+', 'LINESHAPE : CHAR (CHAR | ".")*', "C17.9"),
    ("g-single-line-only", "data/ampgen.lark", "start : _NEWLINE? (line _NEWLINE)+", "start : _NEWLINE? (line _NEWLINE)", "C17.9"),
    ("g-label-no-parens", "data/ampgen.lark", 'PARENS : "(" | ")"', 'PARENS : "("', "C17.9"),
    ("g-eventtype-keyword", "data/ampgen.lark", 'event_type : "EventType" particle particle+', 'event_type : "Eventtype" particle particle+', "C17.9"),
    ("g-one-tag-only", "data/ampgen.lark", 'decaytype : "[" (spinfactor | lineshape) (";" lineshape)? "]"', 'decaytype : "[" (spinfactor | lineshape) "]"', "C17.9"),
    ("f7-regression", A, "            (fcs,) = fcs\n            (fcs,) = fcs\n            cls.cartesian = bool(int(fcs))", "            (fcs,) = fcs\n            (fcs,) = fcs.children\n            cls.cartesian = bool(int(fcs))", "C17.2"),
    ("flag-truthy", A, "            cls.cartesian = bool(int(fcs))", "            cls.cartesian = bool(fcs)", "C17.6"),
    ("flag-one-unpack", A, "            (fcs,) = fcs\n            (fcs,) = fcs\n            cls.cartesian = bool(int(fcs))", "            (fcs,) = fcs\n            cls.cartesian = bool(int(fcs))", "C17.6"),
    ("polar-always", A, "        if \"amp\" in mat and not cls.cartesian:", "        if \"amp\" in mat:", "C17.4"),
    ("polar-inverted", A, "        if \"amp\" in mat and not cls.cartesian:", "        if \"amp\" in mat and cls.cartesian:", "C17.4"),
    ("phase-swapped", A, "            A = mat[\"amp\"].real\n", "            A = mat[\"amp\"].imag\n", "C17.4"),
    ("columns-swapped", A, "            variables, columns=\"name fix value error\".split()", "            variables, columns=\"name value fix error\".split()", "C17.3"),
    ("rule-renamed", [G, G], ["constant | variable | options", "variable : particle fix SIGNED_NUMBER SIGNED_NUMBER"], ["constant | var_line | options", "var_line : particle fix SIGNED_NUMBER SIGNED_NUMBER"], "C17.1"),
    ("variable-3", G, "variable : particle fix SIGNED_NUMBER SIGNED_NUMBER", "variable : particle fix SIGNED_NUMBER SIGNED_NUMBER?", "C17.1"),
    ("first-daughter-only", A, "            dlist = [d.expand_lines(linelist) for d in self.daughters]", "            dlist = [d.expand_lines(linelist) for d in self.daughters[:1]]", "C17.5"),
    ("first-alternative", A, "            if line.name == self.name\n            for ln in line.expand_lines(linelist)\n        ]\n        if new_trees:\n            return new_trees", "            if line.name == self.name\n            for ln in line.expand_lines(linelist)\n        ]\n        if new_trees:\n            return new_trees[:1]", "C17.5"),
    ("all-mothers", A, "            if line.particle == all_states[0]\n", "", "C17.5"),
    ("imag-from-first", T, "        decay[\"amp\"] = complex(float(real_val), float(imag_val))", "        decay[\"amp\"] = complex(float(real_val), float(real_err))", "C17.4"),
    ("fix-inverted", T, "        return val > 0", "        return val == 0", "C17.3"),
    ("key-typo", A, "        constants = get_from_parser(parsed, \"constant\")", "        constants = get_from_parser(parsed, \"constants\")", "C17.1"),
    ("no-transformer", A, "        lark = Lark(grammar, parser=parser, transformer=AmpGenTransformer(), **kargs)", "        lark = Lark(grammar, parser=parser, **kargs)", "C17.5"),
    ("by-particle-not-name", A, "            if line.name == self.name\n            for ln in line.expand_lines(linelist)", "            if str(line.particle) == str(self.particle)\n            for ln in line.expand_lines(linelist)", "C17.5"),
]
BENIGN = [
    ("flag-neq", A, "            cls.cartesian = bool(int(fcs))", "            cls.cartesian = int(fcs) != 0"),
    ("columns-list", A, "            variables, columns=\"name fix value error\".split()", "            variables, columns=[\"name\", \"fix\", \"value\", \"error\"]"),
]
