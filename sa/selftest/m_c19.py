G = "modeling/goofit.py"
C = "modeling/ampgen2goofit.py"
MN = "__main__.py"
MUTANTS = [
    ("cpp-only-radius", G, "        L = self.L\n        radius = 5.0 if \"c\" in self.particle.quarks.lower() else 1.5\n", "        L = self.L\n        radius = 5.0 if \"b\" in self.particle.quarks.lower() else 1.5\n", "C19.5"),
    ("cpp-only-pole-flag", G, "            is_pole = \"true\" if poleprod == \"pole\" else \"false\"", "            is_pole = \"false\" if poleprod == \"pole\" else \"true\"", "C19.5"),
    ("returns-by-default-cpp", C, "def ampgen2goofit(filename, ret_output=False):", "def ampgen2goofit(filename, ret_output=True):", "C19"),
    ("registry-reset-on-base", "modeling/amplitudechain.py", "        cls.all_particles = set()\n", "        AmplitudeChain.all_particles = set()\n", "C19.8"),
    ("f6-regression", C, '    printer("DK3P_DI.amplitudes = amplitudes_list")', '    print("DK3P_DI.amplitudes = amplitudes_list")', "C19.1"),
    ("f5-regression", G, "            else f'Variable(\"{self!s}_i\", {self.amp.imag:.6},{self.err.imag:.6}, 0., 1000.)'", "            else f'Variable(\"{self!s}_r\", {self.amp.imag:.6},{self.err.imag:.6}, 0., 1000.)'", "C19.2"),
    ("cpp-imag-named-r", G, "            f'        mkvar(\"{self!s}_i\", {fix}, {self.amp.imag:.6}, {self.err.imag:.6}),\\n'", "            f'        mkvar(\"{self!s}_r\", {fix}, {self.amp.imag:.6}, {self.err.imag:.6}),\\n'", "C19.2"),
    ("pars-before-intro", C, "    printer(\"\\n*/\\n\\n    // Intro\")\n    printer(GooFitChain.make_intro(all_states))\n\n    printer(\"\\n\\n    // Parameters\")\n    printer(GooFitChain.make_pars())", "    printer(\"\\n\\n    // Parameters\")\n    printer(GooFitChain.make_pars())\n    printer(\"\\n*/\\n\\n    // Intro\")\n    printer(GooFitChain.make_intro(all_states))", "C19.3"),
    ("use-site-suffix", G, "            return f'Lineshapes.RBW(\"{name}\", {par}_M, {par}_W, {L}, {masses}, FF.BL2)'", "            return f'Lineshapes.RBW(\"{name}\", {par}_Mass, {par}_W, {L}, {masses}, FF.BL2)'", "C19"),
    ("decl-suffix", G, "                    name=name + \"_W\", nameQ='\"' + name + '_W\"', particle=particle\n                )\n            )\n\n        header += \"\\n\"\n        header += \"DK3P_DI.meson_radius = 5\\n\"", "                    name=name + \"_Width\", nameQ='\"' + name + '_W\"', particle=particle\n                )\n            )\n\n        header += \"\\n\"\n        header += \"DK3P_DI.meson_radius = 5\\n\"", "C19"),
    ("spline-use-raw-name", G, "            AdditionalVars = programmatic_name(self.name) + \"_SplineArr\"\n            return f\"\"\"Lineshapes.GSpline(", "            AdditionalVars = self.name + \"_SplineArr\"\n            return f\"\"\"Lineshapes.GSpline(", "C19.4"),
    ("py-skips-error", G, "                    f'{pname} = Variable(\"{name}\", {par.value}, {par.error} )'", "                    f'{pname} = Variable(\"{name}\", {par.value})'", "C19.5"),
    ("no-branch-for-goofitpy", MN, "        if self.generator == \"goofitpy\":\n            ampgen2goofitpy(filename)", "        if self.generator == \"python\":\n            ampgen2goofitpy(filename)", "C19.7"),
    ("new-arity-site", G, "        name = self.name\n        par = self.particle.programmatic_name\n        a = structure[0] + 1\n        b = structure[1] + 1\n        # order assignment\n        if a > b:\n            a, b = b, a\n        L = self.L", "        name = programmatic_name(self.name)\n        par = self.particle.programmatic_name\n        a = structure[0] + 1\n        b = structure[1] + 1\n        # order assignment\n        if a > b:\n            a, b = b, a\n        L = self.L", "C19"),
    ("ret-wrong-buffer", C, "    if ret_output:\n        return output.getvalue()\n    return None\n\n\ndef ampgen2goofitpy", "    if ret_output:\n        return output.getvalue().strip()\n    return None\n\n\ndef ampgen2goofitpy", "C19.1"),
    ("py-lines-all-states", C, "        printer(\"# Line\", n)\n        printer(line.to_goofit(all_states[1:]), end=\"\\n\\n\\n\")", "        printer(\"# Line\", n)\n        printer(line.to_goofit(all_states), end=\"\\n\\n\\n\")", "C19"),
    ("fix-flag-inverted", G, "        fix = \"true\" if self.fix else \"false\"", "        fix = \"false\" if self.fix else \"true\"", "C19.2"),
    ("py-free-arm-swapped", G, "            f'Variable(\"{self!s}_r\", {self.amp.real:.6})'\n            if self.fix\n            else", "            f'Variable(\"{self!s}_r\", {self.amp.real:.6})'\n            if not self.fix\n            else", "C19.2"),
    ("intro-py-misses-width", G, "            header += (\n                \"{name:15} = Variable({nameQ:21}, {particle.width:<10.8g})\\n\".format(\n                    name=name + \"_W\", nameQ='\"' + name + '_W\"', particle=particle\n                )\n            )\n", "", "C19"),
    ("py-docstring-never-closed", C, "    printer(r\"'''\")\n    printer(\"\\n#Intro", "    printer(\"\\n#Intro", "C19.9"),
    ("py-amplitudes-never-handed-over", C, '    printer("DK3P_DI.amplitudes = amplitudes_list")', '    pass', "C19.9"),
    ("cpp-report-after-comment", C, "    printer(\"\\n*/\\n\\n    // Intro\")\n    printer(GooFitChain.make_intro(all_states))", "    printer(\"\\n*/\\n\\n    // Intro\")\n    printer(\"lines:\", len(lines))\n    printer(GooFitChain.make_intro(all_states))", "C19.9"),
    ("py-invalid-literal-outside", C, '    printer("\\n\\n# Parameters")', '    printer("\\n\\nParameters:")', "C19.9"),
    ("buffer-when-not-returned", C, "    if ret_output:\n        output = StringIO()\n        printer = partial(print, file=output)\n    else:\n        printer = print\n\n    lines, all_states = GooFitChain", "    if not ret_output:\n        output = StringIO()\n        printer = partial(print, file=output)\n    else:\n        printer = print\n\n    lines, all_states = GooFitChain", "C19.1"),
]
BENIGN = [
    ("py-extra-comment-literal", C, '    printer("\\n\\n# Parameters")', '    printer("\\n\\n# Parameters")\n    printer("# (fit parameters)")'),
    ("printer-extra-literal", C, '    printer("DK3P_DI.amplitudes = amplitudes_list")', '    printer("DK3P_DI.amplitudes = amplitudes_list")\n    printer("# end")'),
]
