A = "modeling/amplitudechain.py"
G = "modeling/goofit.py"
C = "modeling/ampgen2goofit.py"
MUTANTS = [
    ("subdecay-cache-on-class", [A, A], ["    final_particles: ClassVar[Particle] = set()\n", "        return cls(**mat)\n"], ["    final_particles: ClassVar[Particle] = set()\n    _subdecays: ClassVar[dict] = {}\n", "        chain = cls(**mat)\n        return chain if \"amp\" in mat else cls._subdecays.setdefault(str(chain), chain)\n"], "C20"),
    ("f8-regression-sets", A, "        cls.all_particles = set()\n        cls.final_particles = set()\n        cls.cartesian = False\n", "        cls.cartesian = False\n", "C20.2"),
    ("f8-regression-cartesian", A, "        cls.all_particles = set()\n        cls.final_particles = set()\n        cls.cartesian = False\n", "        cls.all_particles = set()\n        cls.final_particles = set()\n", "C20.2"),
    ("reset-on-base", A, "        cls.all_particles = set()\n", "        AmplitudeChain.all_particles = set()\n", "C20"),
    ("reset-conditional", A, "        cls.all_particles = set()\n", "        if filename is not None:\n            cls.all_particles = set()\n", "C20.2"),
    ("reset-after-use", [A, A], ["        cls.all_particles = set()\n        cls.final_particles = set()\n", "        # Expand partial lines into complete lines\n"], ["        cls.final_particles = set()\n", "        cls.all_particles = set()\n        # Expand partial lines into complete lines\n"], "C20.2"),
    ("pars-conditional", G, "        (\n            line_arr,\n            GooFitChain.pars,\n            GooFitChain.consts,\n            all_states,\n        ) = super().read_ampgen(*args, **kargs)\n        return line_arr, all_states", "        line_arr, _pars, _consts, all_states = super().read_ampgen(*args, **kargs)\n        if GooFitChain.pars is None:\n            GooFitChain.pars, GooFitChain.consts = _pars, _consts\n        return line_arr, all_states", "C20.3"),
    ("py-reads-cpp", G, "        f_scatt = GooFitPyChain.pars.index[\n            GooFitPyChain.pars.index.str.contains(\"f_scatt\")\n        ]", "        f_scatt = GooFitChain.pars.index[\n            GooFitChain.pars.index.str.contains(\"f_scatt\")\n        ]", "C20.3"),
    ("table-reload", A, "        if 998100 not in getattr(Particle, getall)():", "        if True:", "C20.4"),
    ("module-cache", [A, A], ["@attr.s(slots=True)\nclass AmplitudeChain(ModelDecay):", "        lark = Lark(grammar, parser=parser, transformer=AmpGenTransformer(), **kargs)\n        parsed = lark.parse(text)"],
     ["_PARSED = {}\n\n\n@attr.s(slots=True)\nclass AmplitudeChain(ModelDecay):", "        lark = Lark(grammar, parser=parser, transformer=AmpGenTransformer(), **kargs)\n        parsed = _PARSED[text] = _PARSED.get(text) or lark.parse(text)"], "C20.5"),
    ("adds-on-base", A, "            cls.all_particles |= {mat[\"particle\"]}", "            AmplitudeChain.all_particles |= {mat[\"particle\"]}", "C20.3"),
    ("converter-cross", C, "    printer(GooFitPyChain.make_pars())", "    printer(GooFitChain.make_pars())", "C20.3"),
]
BENIGN = [
    ("clear-instead", A, "        cls.final_particles = set()\n", "        cls.final_particles = set()  # fresh\n"),
]
