"""Whole-package behaviour-preserving rewrites, applied in memory (thorough tier):
   unparse : re-emit every module through ast.unparse (drops comments, reformats);
   stmt    : + a harmless first statement in every function;
   rename  : + every function-local variable x renamed to x_v (parameters keep their names).
No rule may change its verdict on any of them."""
from __future__ import annotations

import ast

from ..core.source import SourceSet


class _Renamer(ast.NodeTransformer):
    def __init__(self):
        self.stack = []

    @staticmethod
    def _locals(fn):
        names = set()
        params = {a.arg for a in fn.args.posonlyargs + fn.args.args + fn.args.kwonlyargs}
        if fn.args.vararg:
            params.add(fn.args.vararg.arg)
        if fn.args.kwarg:
            params.add(fn.args.kwarg.arg)
        glob = set()
        for n in ast.walk(fn):
            if isinstance(n, (ast.Global, ast.Nonlocal)):
                glob |= set(n.names)

        def collect(node):
            for ch in ast.iter_child_nodes(node):
                if isinstance(ch, (ast.FunctionDef, ast.AsyncFunctionDef, ast.ClassDef, ast.Lambda)):
                    continue
                if isinstance(ch, ast.Name) and isinstance(ch.ctx, ast.Store):
                    names.add(ch.id)
                collect(ch)
        collect(fn)
        return {n for n in names if n not in params and n not in glob and not n.startswith("__")}

    def visit_FunctionDef(self, node):
        self.stack.append(self._locals(node))
        node.body = [self.visit(s) for s in node.body]
        self.stack.pop()
        return node

    def visit_Lambda(self, node):
        self.stack.append(("shadow", {a.arg for a in node.args.args}))
        node.body = self.visit(node.body)
        self.stack.pop()
        return node

    def visit_Name(self, node):
        for fr in reversed(self.stack):
            if isinstance(fr, tuple):
                if node.id in fr[1]:
                    if fr[0] == "comp":
                        return ast.copy_location(ast.Name(id=node.id + "_c", ctx=node.ctx), node)
                    return node
                continue
            if node.id in fr:
                return ast.copy_location(ast.Name(id=node.id + "_v", ctx=node.ctx), node)
        return node

    def _comp(self, node):
        bound = set()
        for g in node.generators:
            for n in ast.walk(g.target):
                if isinstance(n, ast.Name):
                    bound.add(n.id)
        self.stack.append(("comp", bound))       # comprehension variables are renamed too
        node = self.generic_visit(node)
        self.stack.pop()
        return node
    visit_ListComp = visit_SetComp = visit_GeneratorExp = visit_DictComp = _comp


def transform(ss: SourceSet, mode: str) -> SourceSet:
    repl = {}
    for rel in ss.py_modules():
        t = ast.parse(ss.files[rel])
        if mode in ("stmt", "rename"):
            for n in ast.walk(t):
                if isinstance(n, ast.FunctionDef):
                    i = 1 if (n.body and isinstance(n.body[0], ast.Expr) and isinstance(n.body[0].value, ast.Constant)) else 0
                    n.body.insert(i, ast.parse("_trace_enabled = False").body[0])
        if mode == "rename":
            t = _Renamer().visit(t)
        ast.fix_missing_locations(t)
        repl[rel] = ast.unparse(t) + "\n"
    return ss.overlay(repl)
